//! A uniform wrapper over the 13 univariate distributions (used by C18, C02, C03).
use crate::common::*;
use compute::prelude::*;

#[derive(Clone, Debug)]
pub enum D {
    Normal(Normal),
    Gamma(Gamma),
    Beta(Beta),
    ChiSquared(ChiSquared),
    T(T),
    Pareto(Pareto),
    Gumbel(Gumbel),
    Exponential(Exponential),
    Uniform(Uniform),
    DiscreteUniform(DiscreteUniform),
    Poisson(Poisson),
    Binomial(Binomial),
    Bernoulli(Bernoulli),
}

pub const KINDS: [&str; 13] = ["Normal", "Gamma", "Beta", "ChiSquared", "T", "Pareto", "Gumbel", "Exponential",
    "Uniform", "DiscreteUniform", "Poisson", "Binomial", "Bernoulli"];

pub fn arity(kind: &str) -> usize {
    match kind {
        "ChiSquared" | "T" | "Exponential" | "Poisson" | "Bernoulli" => 1,
        _ => 2,
    }
}
pub fn int_field(kind: &str, i: usize) -> bool {
    kind == "ChiSquared" || kind == "DiscreteUniform" || (kind == "Binomial" && i == 0)
}

macro_rules! each {
    ($self:expr, $d:ident => $e:expr) => {
        match $self {
            D::Normal($d) => $e,
            D::Gamma($d) => $e,
            D::Beta($d) => $e,
            D::ChiSquared($d) => $e,
            D::T($d) => $e,
            D::Pareto($d) => $e,
            D::Gumbel($d) => $e,
            D::Exponential($d) => $e,
            D::Uniform($d) => $e,
            D::DiscreteUniform($d) => $e,
            D::Poisson($d) => $e,
            D::Binomial($d) => $e,
            D::Bernoulli($d) => $e,
        }
    };
}

impl D {
    /// Constructor with real parameter values (integer-typed fields are cast like the API types demand).
    pub fn new(kind: &str, p: &[f64]) -> Option<D> {
        guard(|| match kind {
            "Normal" => D::Normal(Normal::new(p[0], p[1])),
            "Gamma" => D::Gamma(Gamma::new(p[0], p[1])),
            "Beta" => D::Beta(Beta::new(p[0], p[1])),
            "ChiSquared" => {
                assert!(p[0] >= 0.0, "usize argument");
                D::ChiSquared(ChiSquared::new(p[0] as usize))
            }
            "T" => D::T(T::new(p[0])),
            "Pareto" => D::Pareto(Pareto::new(p[0], p[1])),
            "Gumbel" => D::Gumbel(Gumbel::new(p[0], p[1])),
            "Exponential" => D::Exponential(Exponential::new(p[0])),
            "Uniform" => D::Uniform(Uniform::new(p[0], p[1])),
            "DiscreteUniform" => D::DiscreteUniform(DiscreteUniform::new(p[0] as i64, p[1] as i64)),
            "Poisson" => D::Poisson(Poisson::new(p[0])),
            "Binomial" => {
                assert!(p[0] >= 0.0, "u64 argument");
                D::Binomial(Binomial::new(p[0] as u64, p[1]))
            }
            "Bernoulli" => D::Bernoulli(Bernoulli::new(p[0])),
            _ => panic!("kind {}", kind),
        })
    }
    /// The object `Default::default()` gives for the kind.
    pub fn default_of(kind: &str) -> Option<D> {
        guard(|| match kind {
            "Normal" => D::Normal(Normal::default()), "Gamma" => D::Gamma(Gamma::default()), "Beta" => D::Beta(Beta::default()),
            "ChiSquared" => D::ChiSquared(ChiSquared::default()), "T" => D::T(T::default()), "Pareto" => D::Pareto(Pareto::default()),
            "Gumbel" => D::Gumbel(Gumbel::default()), "Exponential" => D::Exponential(Exponential::default()), "Uniform" => D::Uniform(Uniform::default()),
            "DiscreteUniform" => D::DiscreteUniform(DiscreteUniform::default()), "Poisson" => D::Poisson(Poisson::default()),
            "Binomial" => D::Binomial(Binomial::default()), "Bernoulli" => D::Bernoulli(Bernoulli::default()),
            _ => panic!("kind {}", kind),
        })
    }
    /// Field setter number i (0-based). Returns false if the call panicked.
    pub fn set(&mut self, i: usize, v: f64) -> bool {
        guard(|| match self {
            D::Normal(d) => { if i == 0 { d.set_mu(v); } else { d.set_sigma(v); } }
            D::Gamma(d) => { if i == 0 { d.set_alpha(v); } else { d.set_beta(v); } }
            D::Beta(d) => { if i == 0 { d.set_alpha(v); } else { d.set_beta(v); } }
            D::ChiSquared(d) => { assert!(v >= 0.0, "usize argument"); d.set_dof(v as usize); }
            D::T(d) => { d.set_dof(v); }
            D::Pareto(d) => { if i == 0 { d.set_alpha(v); } else { d.set_minval(v); } }
            D::Gumbel(d) => { if i == 0 { d.set_mu(v); } else { d.set_beta(v); } }
            D::Exponential(d) => { d.set_lambda(v); }
            D::Uniform(d) => { if i == 0 { d.set_lower(v); } else { d.set_upper(v); } }
            D::DiscreteUniform(d) => { if i == 0 { d.set_lower(v as i64); } else { d.set_upper(v as i64); } }
            D::Poisson(d) => { d.set_lambda(v); }
            D::Binomial(d) => { if i == 0 { assert!(v >= 0.0, "u64 argument"); d.set_n(v as u64); } else { d.set_p(v); } }
            D::Bernoulli(d) => { d.set_p(v); }
        })
        .is_some()
    }
    pub fn update(&mut self, ps: &[f64]) -> bool {
        guard(|| each!(self, d => d.update(ps))).is_some()
    }
    pub fn debug(&self) -> String {
        each!(self, d => format!("{:?}", d))
    }
    pub fn mean(&self) -> f64 {
        each!(self, d => d.mean())
    }
    pub fn var(&self) -> f64 {
        each!(self, d => d.var())
    }
    pub fn is_discrete(&self) -> bool {
        matches!(self, D::DiscreteUniform(_) | D::Poisson(_) | D::Binomial(_) | D::Bernoulli(_))
    }
    /// density or mass at x (mass: x is truncated to an integer count). None = panicked.
    pub fn pf(&self, x: f64) -> Option<f64> {
        guard(|| match self {
            D::Normal(d) => d.pdf(x),
            D::Gamma(d) => d.pdf(x),
            D::Beta(d) => d.pdf(x),
            D::ChiSquared(d) => d.pdf(x),
            D::T(d) => d.pdf(x),
            D::Pareto(d) => d.pdf(x),
            D::Gumbel(d) => d.pdf(x),
            D::Exponential(d) => d.pdf(x),
            D::Uniform(d) => d.pdf(x),
            D::DiscreteUniform(d) => d.pmf(x as i64),
            D::Poisson(d) => d.pmf(x as i64),
            D::Binomial(d) => d.pmf(x as i64),
            D::Bernoulli(d) => d.pmf(x as i64),
        })
    }
    pub fn ln_pf(&self, x: f64) -> Option<f64> {
        guard(|| match self {
            D::Normal(d) => d.ln_pdf(x),
            D::Gamma(d) => d.ln_pdf(x),
            D::Beta(d) => d.ln_pdf(x),
            D::ChiSquared(d) => d.ln_pdf(x),
            D::T(d) => d.ln_pdf(x),
            D::Pareto(d) => d.ln_pdf(x),
            D::Gumbel(d) => d.ln_pdf(x),
            D::Exponential(d) => d.ln_pdf(x),
            D::Uniform(d) => d.ln_pdf(x),
            _ => f64::NAN,
        })
    }
    pub fn sample(&self) -> f64 {
        each!(self, d => d.sample())
    }
    pub fn sample_n(&self, n: usize) -> Vector {
        each!(self, d => d.sample_n(n))
    }
    pub fn sample_matrix(&self, r: usize, c: usize) -> Matrix {
        each!(self, d => d.sample_matrix(r, c))
    }
    /// n draws from the crate's thread-local generator seeded with `seed`. None = a draw panicked.
    pub fn stream(&self, seed: u64, n: usize) -> Option<Vec<u64>> {
        alea::set_seed(seed);
        guard(|| (0..n).map(|_| self.sample().to_bits()).collect())
    }
}

fn bits(x: f64) -> u64 {
    if x.is_nan() { 0x7ff8_0000_0000_0000 } else { x.to_bits() }
}

/// Everything the property lets a user observe about an object, as one comparable bundle:
/// Debug rendering, mean, variance, density/mass at probe points, a seeded sample stream.
pub fn observe(d: &D, seed: u64) -> Vec<String> {
    let mut v = vec![d.debug()];
    v.push(format!("mean={:x}", bits(d.mean())));
    v.push(format!("var={:x}", bits(d.var())));
    for x in [-1.0, 0.0, 0.25, 0.5, 1.0, 2.0, 3.0, 7.0] {
        v.push(match d.pf(x) { Some(y) => format!("pf({})={:x}", x, bits(y)), None => format!("pf({})=panic", x) });
    }
    v.push(match d.stream(seed, 12) {
        Some(s) => format!("stream={:?}", s),
        None => "stream=panic".to_string(),
    });
    v
}

pub fn fingerprint(d: &D, seed: u64) -> String {
    // FNV-1a over the observation bundle
    let mut h: u64 = 0xcbf29ce484222325;
    for s in observe(d, seed) {
        for b in s.bytes() {
            h ^= b as u64;
            h = h.wrapping_mul(0x100000001b3);
        }
        h ^= 0xff;
        h = h.wrapping_mul(0x100000001b3);
    }
    format!("{:016x}", h)
}

/// quarter-coded parameter tuple -> real values
pub fn params_of(kind: &str, q: &[i64]) -> Vec<f64> {
    // real-valued fields are quarters unless the tuple carries its own denominator after the arity(kind) fields
    let a = arity(kind);
    let den = if q.len() > a { q[a] as f64 } else { 4.0 };
    q.iter().take(a).enumerate().map(|(i, v)| if int_field(kind, i) { *v as f64 } else { *v as f64 / den }).collect()
}
