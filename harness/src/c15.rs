//! C15: the Matrix object under programs of structural operations (spec/Arrays.tla).
use crate::common::*;
use compute::prelude::*;
use serde_json::{json, Value};

pub enum Ret {
    None,
    Num(f64),
    Bool(bool),
    Seq(Vec<f64>),
    Rows(Vec<Vec<f64>>),
}

pub fn mat_of(v: &Value) -> Matrix {
    // built through the public fields: the abstract state is exactly these three fields
    mk(Vector::new(f64s(&v["data"])), v["nrows"].as_u64().unwrap() as usize, v["ncols"].as_u64().unwrap() as usize)
}
pub fn mat_json(m: &Matrix) -> Value {
    json!({"nrows": m.nrows, "ncols": m.ncols, "data": projs(&m.data, 1)})
}
fn operand(r: i64, c: i64) -> Matrix {
    let d: Vec<f64> = (1..=(r * c)).map(|k| 100.0 + k as f64).collect();
    mk(Vector::new(d), r as usize, c as usize)
}
fn f(which: i64) -> impl Fn(f64) -> f64 {
    move |x| if which == 1 { x + 1.0 } else { 2.0 * x }
}
pub fn same(a: &Matrix, b: &Matrix) -> bool {
    a.nrows == b.nrows && a.ncols == b.ncols && all_eq(&a.data, &b.data)
}

/// Perform one action of Arrays!Apply on the real object. None = the call panicked.
pub fn apply(m: &mut Matrix, op: &str, a: &[i64]) -> Option<Ret> {
    let u = |k: usize| a[k] as usize;
    guard(|| match op {
        "reshape_mut" => {
            m.reshape_mut(a[0] as i32, a[1] as i32);
            Ret::None
        }
        "reshape" => {
            let before = m.clone();
            let r = m.reshape(a[0] as i32, a[1] as i32);
            assert!(same(m, &before), "receiver changed");
            *m = r;
            Ret::None
        }
        "vec_reshape" => {
            let v = Vector::new(m.data.to_vec());
            let r = v.reshape(a[0] as i32, a[1] as i32);
            assert!(all_eq(&v, &m.data));
            *m = r;
            Ret::None
        }
        "vec_to_matrix" => {
            *m = Vector::new(m.data.to_vec()).to_matrix();
            Ret::None
        }
        "t_mut" => {
            m.t_mut();
            Ret::None
        }
        "t" => {
            let before = m.clone();
            let r = m.t();
            assert!(same(m, &before), "receiver changed");
            *m = r;
            Ret::None
        }
        "hcat" => {
            *m = m.hcat(operand(a[0], a[1]));
            Ret::None
        }
        "vcat" => {
            *m = m.vcat(operand(a[0], a[1]));
            Ret::None
        }
        "hrepeat" => {
            *m = m.hrepeat(u(0));
            Ret::None
        }
        "vrepeat" => {
            *m = m.vrepeat(u(0));
            Ret::None
        }
        "neg" => {
            *m = -(m.clone());
            Ret::None
        }
        "apply_row" => {
            m.apply_along_row(u(0), f(a[1]));
            Ret::None
        }
        "apply_col" => {
            m.apply_along_col(u(0), f(a[1]));
            Ret::None
        }
        "flat_replace" => {
            m.flat_idx_replace(u(0), a[1] as f64);
            Ret::None
        }
        "set_idx" => {
            m[[u(0), u(1)]] = a[2] as f64;
            Ret::None
        }
        "get_row" => Ret::Seq(m.get_row_as_vector(u(0)).to_vec()),
        "row" => Ret::Seq(m[u(0)].to_vec()),
        "get_col" => Ret::Seq(m.get_col_as_vector(u(0)).to_vec()),
        "flat_idx" => Ret::Num(m.flat_idx(u(0))),
        "idx" => Ret::Num(m[[u(0), u(1)]]),
        "diag" => Ret::Seq(m.diag().to_vec()),
        "to_vec" => Ret::Seq(m.clone().to_vec().to_vec()),
        "shape" => {
            let s = m.shape();
            Ret::Seq(vec![s[0] as f64, s[1] as f64])
        }
        "size" => Ret::Num(m.size() as f64),
        "is_square" => Ret::Bool(m.is_square()),
        "is_symmetric" => Ret::Bool(m.is_symmetric()),
        "is_upper" => Ret::Bool(m.is_upper_triangular()),
        "is_lower" => Ret::Bool(m.is_lower_triangular()),
        "r2c" => Ret::Seq(row_to_col_major(&m.data, m.nrows).to_vec()),
        "c2r" => Ret::Seq(col_to_row_major(&m.data, m.nrows)),
        "transpose_slice" => Ret::Seq(transpose(&m.data, m.nrows)),
        "sum_rows" => Ret::Seq(m.sum_rows().to_vec()),
        "sum_cols" => Ret::Seq(m.sum_cols().to_vec()),
        "argmin" => {
            let (i, j) = m.argmin();
            Ret::Seq(vec![i as f64, j as f64])
        }
        "argmax" => {
            let (i, j) = m.argmax();
            Ret::Seq(vec![i as f64, j as f64])
        }
        "rows_iter" => Ret::Rows((&*m).into_iter().map(|r| r.to_vec()).collect()),
        _ => panic!("unknown op {}", op),
    })
}

pub fn ret_json(r: &Ret) -> Value {
    match r {
        Ret::None => json!({"t": "none"}),
        Ret::Num(x) => json!({"t": "num", "v": proj(*x, 1)}),
        Ret::Bool(b) => json!({"t": "bool", "v": b}),
        Ret::Seq(s) => json!({"t": "seq", "v": projs(s, 1)}),
        Ret::Rows(rs) => json!({"t": "rows", "v": rs.iter().map(|r| projs(r, 1)).collect::<Vec<_>>()}),
    }
}

fn ret_matches(r: &Ret, exp: &Value) -> bool {
    let t = exp["t"].as_str().unwrap_or("none");
    match (r, t) {
        (Ret::None, "none") => true,
        (Ret::Num(x), "num") => *x == num(&exp["v"]),
        (Ret::Bool(b), "bool") => Some(*b) == exp["v"].as_bool(),
        (Ret::Seq(s), "seq") => all_eq(s, &f64s(&exp["v"])),
        (Ret::Rows(rs), "rows") => {
            let e = exp["v"].as_array().unwrap();
            rs.len() == e.len() && rs.iter().zip(e).all(|(a, b)| all_eq(a, &f64s(b)))
        }
        _ => false,
    }
}

/// Input class assigned to a (state, action) pair: the stable part of a finding key.
pub fn class_of(pre: &Matrix, op: &str, a: &[i64]) -> String {
    let sq = if pre.nrows == pre.ncols { "square" } else if pre.nrows == 1 || pre.ncols == 1 { "line" } else { "nonsquare" };
    let n = (pre.nrows * pre.ncols) as i64;
    match op {
        "reshape_mut" | "reshape" | "vec_reshape" => {
            let (r, c) = (a[0], a[1]);
            let k = if r > 0 && c > 0 {
                if r * c == n { "explicit-fits" } else { "explicit-misfit" }
            } else if r == -1 && c > 0 {
                if n % c == 0 { "infer-rows-dividing" } else { "infer-rows-nondividing" }
            } else if c == -1 && r > 0 {
                if n % r == 0 { "infer-cols-dividing" } else { "infer-cols-nondividing" }
            } else {
                "bad-request"
            };
            k.to_string()
        }
        "hcat" => format!("{} {}", sq, if a[0] as usize == pre.nrows { "compatible" } else { "incompatible" }),
        "vcat" => format!("{} {}", sq, if a[1] as usize == pre.ncols { "compatible" } else { "incompatible" }),
        "apply_row" | "get_row" | "row" => format!("{} {}", sq, if (a[0] as usize) < pre.nrows { "inrange" } else { "oob" }),
        "apply_col" | "get_col" => format!("{} {}", sq, if (a[0] as usize) < pre.ncols { "inrange" } else { "oob" }),
        "flat_idx" | "flat_replace" => format!("{} {}", sq, if a[0] < n { "inrange" } else { "oob" }),
        "idx" | "set_idx" => format!("{} {}", sq, if (a[0] as usize) < pre.nrows && (a[1] as usize) < pre.ncols { "inrange" } else { "oob" }),
        "diag" => format!("{}{}", sq, if pre.nrows > pre.ncols { "-tall" } else if pre.nrows < pre.ncols { "-wide" } else { "" }),
        _ => sq.to_string(),
    }
}

/// P2: one line per distinct model state with the spec's result for every offered action.
pub fn replay(cases: &str, verdicts: &str) {
    let mut v = Verdicts::new(verdicts, "C15");
    for_each_line(cases, |line| {
        v.cases += 1;
        if line.get("call").is_some() {
            ctor_case(&mut v, &line);
            return;
        }
        let pre = mat_of(&line["pre"]);
        for s in line["succ"].as_array().unwrap() {
            let op = s["act"]["op"].as_str().unwrap();
            let a = ints(&s["act"]["a"]);
            let mut m = pre.clone();
            let got = apply(&mut m, op, &a);
            let exp_panic = s["o"] == "p";
            let (ok, observed) = match (&got, exp_panic) {
                (None, true) => (true, json!("panic")),
                (None, false) => (false, json!({"outcome": "panic"})),
                (Some(_), true) => (false, json!({"outcome": "ok", "m": mat_json(&m)})),
                (Some(r), false) => {
                    let em = if s.get("m").is_some() { mat_of(&s["m"]) } else { pre.clone() };
                    let wf = m.data.len() == m.nrows * m.ncols;
                    let okm = wf && same(&m, &em);
                    let okr = ret_matches(r, &s["ret"]);
                    (okm && okr, json!({"outcome": "ok", "m": mat_json(&m), "ret": ret_json(r)}))
                }
            };
            if v.checked % 50000 == 7 {
                v.sample(json!({"pre": line["pre"], "step": s}));
            }
            let case = json!({"pre": line["pre"], "succ": [s]});
            let cls = class_of(&pre, op, &a);
            v.check(ok, op, &cls, &if ok { Value::Null } else { case }, observed);
        }
    });
    v.finish();
}

/// P3 driver: random programs of 1..40 structural operations on matrices with 1..8 rows/cols,
/// logged after each call (outcome, full projected state, returned value). No comparison here.
pub fn record(seed: u64, nprog: usize, out: &str) {
    let mut rng = Lcg::new(seed);
    let mut t = TraceOut::new(out);
    let ops_mut = ["reshape_mut", "reshape", "vec_reshape", "vec_to_matrix", "t_mut", "t", "hcat", "vcat",
                   "hrepeat", "vrepeat", "neg", "apply_row", "apply_col", "flat_replace", "set_idx"];
    let ops_obs = ["get_row", "row", "get_col", "flat_idx", "idx", "diag", "to_vec", "shape", "size", "is_square",
                   "is_symmetric", "is_upper", "is_lower", "r2c", "c2r", "transpose_slice", "sum_rows", "sum_cols",
                   "argmin", "argmax", "rows_iter"];
    for _ in 0..nprog {
        let r = rng.range(1, 8);
        let c = rng.range(1, 8);
        let data: Vec<f64> = (0..r * c).map(|_| rng.range(-9, 9) as f64).collect();
        // constructor request: explicit, inferred or (rarely) impossible
        let (rr, cc) = match rng.below(6) {
            0 => (-1, c),
            1 => (r, -1),
            2 => (r + 1, c),
            _ => (r, c),
        };
        let made = guard(|| Matrix::new(data.clone(), rr as i32, cc as i32));
        let mut m = match made {
            Some(m) => {
                t.emit(json!({"op": "new", "a": [rr, cc], "data": projs(&data, 1), "out": "ok", "m": mat_json(&m)}));
                m
            }
            None => {
                t.emit(json!({"op": "new", "a": [rr, cc], "data": projs(&data, 1), "out": "panic"}));
                continue;
            }
        };
        let len = rng.range(1, 40);
        for _ in 0..len {
            let size = (m.nrows * m.ncols) as i64;
            let op = if rng.below(2) == 0 { ops_mut[rng.below(ops_mut.len() as u64) as usize] } else { ops_obs[rng.below(ops_obs.len() as u64) as usize] };
            let (nr, nc) = (m.nrows as i64, m.ncols as i64);
            let a: Vec<i64> = match op {
                "reshape_mut" | "reshape" | "vec_reshape" => {
                    // a divisor-based request most of the time, otherwise arbitrary
                    let d = rng.range(1, size.max(1));
                    match rng.below(8) {
                        0 => vec![-1, d],
                        1 => vec![d, -1],
                        2 => vec![rng.range(-2, 9), rng.range(-2, 9)],
                        3 => vec![d, size / d + if size % d == 0 { 0 } else { 1 }],
                        _ => {
                            let mut k = d;
                            while size % k != 0 { k -= 1; }
                            match rng.below(3) { 0 => vec![k, size / k], 1 => vec![-1, k], _ => vec![k, -1] }
                        }
                    }
                }
                "hcat" => vec![if rng.below(5) == 0 { nr + 1 } else { nr }, rng.range(1, 3)],
                "vcat" => vec![rng.range(1, 3), if rng.below(5) == 0 { nc + 1 } else { nc }],
                "hrepeat" | "vrepeat" => vec![rng.range(1, 3)],
                "apply_row" => vec![rng.range(0, nr), rng.range(1, 2)],
                "apply_col" => vec![rng.range(0, nc), rng.range(1, 2)],
                "flat_replace" => vec![rng.range(0, size), rng.range(-9, 9)],
                "set_idx" => vec![rng.range(0, nr), rng.range(0, nc), rng.range(-9, 9)],
                "get_row" | "row" => vec![rng.range(0, nr)],
                "get_col" => vec![rng.range(0, nc)],
                "flat_idx" => vec![rng.range(0, size)],
                "idx" => vec![rng.range(0, nr), rng.range(0, nc)],
                _ => vec![],
            };
            if size > 64 && matches!(op, "hcat" | "vcat" | "hrepeat" | "vrepeat") {
                continue;
            }
            if m.data.iter().any(|x| x.abs() > 1e6) && op.starts_with("apply") {
                continue;
            }
            let got = apply(&mut m, op, &a);
            match got {
                Some(r) => t.emit(json!({"op": op, "a": a, "out": "ok", "m": mat_json(&m), "ret": ret_json(&r)})),
                None => t.emit(json!({"op": op, "a": a, "out": "panic", "m": mat_json(&m), "ret": {"t": "none"}})),
            }
        }
    }
    t.finish();
}


fn strs(v: &Value) -> Vec<String> {
    v.as_array().unwrap().iter().map(|x| x.as_str().unwrap().to_string()).collect()
}

/// Constructors, grids, predicates, comparisons (spec/Ctors.tla).
fn ctor_case(v: &mut Verdicts, c: &Value) {
    let call = c["call"].as_str().unwrap();
    let e8 = |k: &str| c[k].as_i64().unwrap() as f64 / 8.0;
    let i = |k: &str| c[k].as_i64().unwrap();
    let (ok, class, obs): (bool, String, Value) = match call {
        "eye" | "zeros" | "ones" => {
            let got = guard(|| match call {
                "eye" => Matrix::eye(i("n") as usize),
                "zeros" => Matrix::zeros(i("r") as usize, i("c") as usize),
                _ => Matrix::ones(i("r") as usize, i("c") as usize),
            });
            let e = mat_of(&c["exp"]);
            match got {
                Some(m) => (same(&m, &e), "pattern".into(), mat_json(&m)),
                None => (false, "pattern".into(), json!("panic")),
            }
        }
        "diag_matrix" | "toeplitz" | "vandermonde" | "design" => {
            let x = f64s(&c["x"]);
            let got = guard(|| match call {
                "diag_matrix" => diag_matrix(&x).to_vec(),
                "toeplitz" => toeplitz(&x),
                "vandermonde" => vandermonde(&x, i("n") as usize),
                _ => design(&x, c.get("r").and_then(|r| r.as_u64()).map(|r| r as usize).unwrap_or(x.len())),
            });
            // data that does not fill its columns is rejected, not truncated
            let want_panic = c.get("panic").and_then(|p| p.as_bool()).unwrap_or(false);
            match got {
                Some(m) => (!want_panic && all_eq(&m, &f64s(&c["exp"])), if want_panic { "ragged-rejected".into() } else { "pattern".into() }, fjs(&m)),
                None => (want_panic, if want_panic { "ragged-rejected".into() } else { "pattern".into() }, json!("panic")),
            }
        }
        "arange" => {
            let (a, mut b, s) = (e8("a"), e8("b"), e8("s"));
            let exp: Vec<f64> = ints(&c["exp"]).iter().map(|k| *k as f64 / 8.0).collect();
            let span = i("b") - i("a");
            let above = c["above"].as_bool().unwrap_or(false);
            // stop just above b: by 2^-40 of the larger of |b| and the step (far above the rounding of the ratio, far below a step)
            if above { b += b.abs().max(s) * 2f64.powi(-40); }
            let class = if above { if span < 0 { "stop-just-above empty" } else if span % i("s") == 0 { "stop-just-above-grid-point" } else { "stop-just-above noninteger-ratio" } }
                        else if span <= 0 { "empty-span" } else if span % i("s") == 0 { "integer-ratio" } else { "noninteger-ratio" };
            match guard(|| arange(a, b, s).to_vec()) {
                Some(g) => (all_eq(&g, &exp), class.into(), fjs(&g)),
                None => (false, class.into(), json!("panic")),
            }
        }
        "linspace" => {
            let exp = f64s(&c["exp"]);
            let scale = exp.iter().fold(1.0f64, |m, x| m.max(x.abs()));
            match guard(|| linspace(i("a") as f64, i("b") as f64, i("n") as usize).to_vec()) {
                Some(g) => {
                    let ok = g.len() == exp.len() && g.iter().zip(&exp).all(|(a, b)| (a - b).abs() <= scale * 2f64.powi(-46));
                    (ok, "both-ends".into(), fjs(&g))
                }
                None => (false, "both-ends".into(), json!("panic")),
            }
        }
        "is_square" => {
            let m = vec![0.0; i("len") as usize];
            let g = is_square(&m).map(|n| n as i64).unwrap_or(-1);
            (g == i("exp"), if i("exp") > 0 { "square" } else { "nonsquare" }.into(), json!(g))
        }
        "is_matrix" => {
            let m = vec![0.0; i("len") as usize];
            let g = is_matrix(&m, i("r") as usize).map(|n| n as i64).unwrap_or(-1);
            (g == i("exp"), if i("exp") > 0 { "divides" } else { "misfit" }.into(), json!(g))
        }
        "is_symmetric" => {
            let x = f64s(&c["x"]);
            let n = i("n") as usize;
            let e = c["exp"].as_bool().unwrap();
            let g1 = guard(|| is_symmetric(&x));
            let g2 = guard(|| Matrix::new(x.clone(), n as i32, n as i32).is_symmetric());
            (g1 == Some(e) && g2 == Some(e), format!("{}", e), json!([g1, g2]))
        }
        "t_near_symmetric" => {
            let n = i("n") as usize;
            let (x, bump, src) = (f64s(&c["x"]), ints(&c["bump"]), ints(&c["src"]));
            let up = |v: f64| if v == 0.0 { -0.0 } else { f64::from_bits(v.to_bits() + 1) };
            let mut ok = true; let mut worst = json!("");
            for (name, base) in [("fractional", Box::new(|v: f64| v + 0.1) as Box<dyn Fn(f64) -> f64>), ("huge-integers", Box::new(|v: f64| (v + 1.0) * 1e16)), ("zeros", Box::new(|v: f64| if v == 0.0 { 0.0 } else { v }))] {
                let a: Vec<f64> = x.iter().zip(&bump).map(|(v, b)| if *b == 1 { up(base(*v)) } else { base(*v) }).collect();
                let want: Vec<f64> = src.iter().map(|k| a[*k as usize - 1]).collect();
                let m = Matrix::new(a.clone(), n as i32, n as i32);
                let g1 = guard(|| m.t().data.to_vec());
                let g2 = guard(|| { let mut m2 = m.clone(); m2.t_mut(); m2.data.to_vec() });
                let g3 = guard(|| transpose(&a, n));
                let same = |g: &Option<Vec<f64>>| g.as_ref().map(|g| g.len() == want.len() && g.iter().zip(&want).all(|(p, q)| p.to_bits() == q.to_bits())).unwrap_or(false);
                if !(same(&g1) && same(&g2) && same(&g3)) { ok = false; worst = json!({"values": name, "a": fjs(&a), "t": g1.as_ref().map(|g| fjs(g)), "t_mut": g2.as_ref().map(|g| fjs(g))}); }
            }
            // Clone::clone_from into an existing matrix of the same element count but another shape (1 x n^2): the target becomes the source -
            // shape and data
            for (name, base) in [("fractional", 0.5f64), ("integers", 0.0)] {
                let src = Matrix::new(x.iter().map(|v| v + base).collect::<Vec<f64>>(), n as i32, n as i32);
                let r = guard(|| { let mut t = mk(Vector::new(vec![9.0; n * n]), 1, n * n); t.clone_from(&src); let mut t2 = mk(Vector::new(vec![9.0; n]), n, 1); t2.clone_from(&src); (t, t2) });
                let okc = r.as_ref().map(|(t, t2)| [t, t2].iter().all(|t| t.nrows == n && t.ncols == n && t.data.len() == n * n && t.data.iter().zip(src.data.iter()).all(|(p, q)| p.to_bits() == q.to_bits()))).unwrap_or(false);
                if !okc { ok = false; worst = json!({"clone_from": name, "target": r.as_ref().map(|(t, _)| mat_json(t))}); }
            }
            (ok, format!("n{}", n), worst)
        }
        "is_design" => {
            let x = f64s(&c["x"]);
            let e = c["exp"].as_bool().unwrap();
            let g = guard(|| is_design(&x, i("r") as usize));
            (g == Some(e), format!("{}", e), json!(g))
        }
        "close_to" => {
            let (x, y) = (e8("x"), e8("y"));
            let tol = 2f64.powi(-(i("tb") as i32));
            let e = c["exp"].as_bool().unwrap();
            let gv = guard(|| Vector::new(vec![3.0, x]).close_to(&Vector::new(vec![3.0, y]), tol));
            let gm = guard(|| Matrix::new(vec![x, 3.0], 1, 2).close_to(&Matrix::new(vec![y, 3.0], 1, 2), tol));
            let class = if x * y < 0.0 { "opposite-sign" } else if x == 0.0 || y == 0.0 { "zero-operand" } else { "same-sign" };
            (gv == Some(e) && gm == Some(e), class.into(), json!([gv, gm]))
        }
        "eq" => {
            let (x, y) = (e8("x"), e8("y"));
            let e = c["exp"].as_bool().unwrap();
            let gv = guard(|| Vector::new(vec![x, 1.0]) == Vector::new(vec![y, 1.0]));
            let gm = guard(|| Matrix::new(vec![x, 1.0], 2, 1) == Matrix::new(vec![y, 1.0], 2, 1));
            (gv == Some(e) && gm == Some(e), format!("{}", e), json!([gv, gm]))
        }
        "len_mismatch" => {
            let (n, m) = (i("n") as usize, i("m") as usize);
            let a = Vector::new((0..n).map(|k| k as f64 + 1.0).collect::<Vec<f64>>());
            let b = Vector::new((0..m).map(|k| k as f64 + 1.0).collect::<Vec<f64>>());
            let e = c["exp"].as_bool().unwrap();
            let g1 = guard(|| a == b);
            let g2 = guard(|| a.close_to(&b, 0.5));
            let g3 = guard(|| b == a);
            (g1 == Some(e) && g2 == Some(e) && g3 == Some(e), if e { "same-length".into() } else if n == 0 || m == 0 { "one-empty".into() } else { "prefix".into() }, json!([g1, g2, g3]))
        }
        "shape_mismatch" => {
            // same data, different shape (or length): never equal / close
            let (r, cc) = (i("r") as usize, i("c") as usize);
            let a = Matrix::new(vec![1.0; 6], 2, 3);
            let b = mk(Vector::new(vec![1.0; r * cc]), r, cc);
            let sameshape = r == 2 && cc == 3;
            let g1 = guard(|| a == b);
            let g2 = guard(|| a.close_to(&b, 0.5));
            let g3 = guard(|| Vector::new(vec![1.0; 6]).close_to(&Vector::new(vec![1.0; r * cc]), 0.5));
            let ok = g1 == Some(sameshape) && g2 == Some(sameshape) && g3 == Some(r * cc == 6);
            (ok, if r * cc == 6 { "same-size" } else { "other-size" }.into(), json!([g1, g2, g3]))
        }
        "rotation" => {
            let angle = i("k") as f64 * std::f64::consts::PI / 8.0;
            let ax = c["axis"].as_str().unwrap();
            let mk = |s: &str| match s { "X" => Axis::X, "Y" => Axis::Y, _ => Axis::Z };
            let val = |s: &str| match s { "0" => 0.0, "1" => 1.0, "c" => angle.cos(), "s" => angle.sin(), _ => -angle.sin() };
            let cw = guard(|| rotation_matrix_cw(angle, mk(ax)));
            let ccw = guard(|| rotation_matrix_ccw(angle, mk(ax)));
            match (cw, ccw) {
                (Some(cw), Some(ccw)) => {
                    let ecw: Vec<f64> = strs(&c["cw"]).iter().map(|s| val(s)).collect();
                    let eccw: Vec<f64> = strs(&c["ccw"]).iter().map(|s| val(s)).collect();
                    let pat = cw.shape() == [3, 3] && ccw.shape() == [3, 3] && all_eq(&cw.data, &ecw) && all_eq(&ccw.data, &eccw);
                    // observations: cw = ccw^T, orthogonality and unit determinant
                    let tr = same(&cw, &ccw.t());
                    let rtr = matmul(&cw.data, &cw.data, 3, 3, true, false);
                    let orth = rtr.iter().enumerate().all(|(k, x)| (x - if k % 4 == 0 { 1.0 } else { 0.0 }).abs() <= 2f64.powi(-50));
                    let d = &cw.data;
                    let det = d[0] * (d[4] * d[8] - d[5] * d[7]) - d[1] * (d[3] * d[8] - d[5] * d[6]) + d[2] * (d[3] * d[7] - d[4] * d[6]);
                    (pat && tr && orth && (det - 1.0).abs() <= 2f64.powi(-50), format!("axis-{}", ax), json!({"cw": fjs(&cw.data), "ccw": fjs(&ccw.data), "det": det}))
                }
                _ => (false, format!("axis-{}", ax), json!("panic")),
            }
        }
        _ => panic!("unknown ctor case {}", call),
    };
    if v.checked % 97 == 0 {
        v.sample(c.clone());
    }
    v.check(ok, call, &class, c, obs);
}
