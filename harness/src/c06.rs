//! C06: generalised linear models (spec/GLM.tla).
use crate::common::*;
use compute::prelude::*;
use serde_json::{json, Value};

fn fam_of(s: &str) -> ExponentialFamily {
    match s { "Gaussian" => ExponentialFamily::Gaussian, "Bernoulli" => ExponentialFamily::Bernoulli, "QuasiPoisson" => ExponentialFamily::QuasiPoisson,
              "Poisson" => ExponentialFamily::Poisson, "Gamma" => ExponentialFamily::Gamma, _ => ExponentialFamily::Exponential }
}
fn rel_ok(g: &[f64], e: &[f64], tol: f64) -> bool {
    let sc = e.iter().fold(1.0f64, |m, t| m.max(t.abs()));
    g.len() == e.len() && g.iter().zip(e).all(|(a, b)| a.is_finite() && (a - b).abs() <= tol * sc)
}
/// family deviance from its definition (unit weights)
fn deviance_def(f: &str, y: &[f64], mu: &[f64]) -> f64 {
    let xlogy = |a: f64, b: f64| if a == 0.0 { 0.0 } else { a * b.ln() };
    y.iter().zip(mu).map(|(y, m)| match f {
        "Gaussian" => (y - m).powi(2),
        "Bernoulli" => -2.0 * (xlogy(*y, *m) + xlogy(1.0 - y, 1.0 - m)),
        "Poisson" | "QuasiPoisson" => 2.0 * (xlogy(*y, y / m) - (y - m)),
        _ => 2.0 * ((y - m) / m - (y / m).ln()),
    }).sum()
}

struct Fitted { coef: Vec<f64>, pred: Vec<f64>, dev: f64, disp: f64, se: Vec<f64>, cov: Vec<f64> }

fn fit(f: &str, x: &[f64], y: &[f64], w: Option<&[f64]>, o: Option<&[f64]>, alpha: f64, tol: f64, maxit: usize) -> Option<Result<Fitted, String>> {
    fit_h(f, x, y, w, o, alpha, tol, maxit, false)
}
/// `refit`: the object has already been fitted (successfully, on the responses in reverse order with a loose
/// tolerance and another penalty) before it is configured for and fitted to the problem at hand
fn fit_h(f: &str, x: &[f64], y: &[f64], w: Option<&[f64]>, o: Option<&[f64]>, alpha: f64, tol: f64, maxit: usize, refit: bool) -> Option<Result<Fitted, String>> {
    fit_hh(f, x, y, w, o, alpha, tol, maxit, if refit { 1 } else { 0 })
}
/// history 0: fresh object; 1: after a successful fit of other responses under another configuration;
/// 2: the final configuration is set, a fit with a budget of one iteration fails (Err), then the fit is retried
fn fit_hh(f: &str, x: &[f64], y: &[f64], w: Option<&[f64]>, o: Option<&[f64]>, alpha: f64, tol: f64, maxit: usize, history: u8) -> Option<Result<Fitted, String>> {
    guard(|| {
        let mut g = GLM::new(fam_of(f));
        if history == 1 {
            let yr: Vec<f64> = y.iter().rev().cloned().collect();
            g.set_penalty(0.5); g.set_tolerance(1e-3);
            // (the earlier fit is on a design with one column fewer where there is one to drop, and its results are inspected -
            // every accessor - before the object is reconfigured: nothing derived from it may survive into the next fit)
            let n = y.len(); let p = x.len() / n;
            let ok1 = if p >= 2 { let xr: Vec<f64> = (0..n).flat_map(|i| x[i * p..i * p + p - 1].to_vec()).collect(); let r = g.fit(&xr, &yr, 100).is_ok(); if r { let _ = g.predict(&xr); } r } else { g.fit(x, &yr, 100).is_ok() };
            if ok1 { let _ = (g.coef().map(|c| c.to_vec()), g.coef_standard_error(), g.coef_covariance_matrix(), g.deviance(), g.dispersion(), g.aic(), g.bic()); }
            g.set_penalty(0.0);
        }
        if history == 2 {
            if alpha > 0.0 { g.set_penalty(alpha); }
            if let Some(w) = w { g.set_weights(w); }
            if let Some(o) = o { g.set_offset(o); }
            g.set_tolerance(tol);
            let _ = g.fit(x, y, 1);
            let _ = (g.coef().map(|c| c.to_vec()), g.coef_standard_error(), g.coef_covariance_matrix(), g.deviance(), g.dispersion());
        }
        // history 3: the configuration is written through the PUBLIC FIELDS (alpha, tolerance, weights) instead of the setters
        if history == 3 {
            g.alpha = alpha;
            g.tolerance = tol;
            if let Some(w) = w { g.weights = Some(w.to_vec()); }
            if let Some(o) = o { g.set_offset(o); }
        }
        // after history 2 the object is already configured: the retry must use that configuration as it stands
        if history != 2 && history != 3 {
            if alpha > 0.0 { g.set_penalty(alpha); }
            if let Some(w) = w { g.set_weights(w); }
            if let Some(o) = o { g.set_offset(o); }
            g.set_tolerance(tol);
        }
        // history 4: the configured (not yet fitted) object is cloned and the CLONE is fitted: a clone carries the whole configuration
        let mut g = if history == 4 { g.clone() } else { g };
        let r = g.fit(x, y, maxit).map_err(|e| e.to_string());
        match r {
            Err(e) => Err(e),
            Ok(()) => Ok(Fitted { coef: g.coef().unwrap().to_vec(), pred: g.predict(x).unwrap().to_vec(), dev: g.deviance().unwrap(), disp: g.dispersion().unwrap(),
                                  se: g.coef_standard_error().unwrap(), cov: g.coef_covariance_matrix().unwrap() }),
        }
    })
}

pub fn replay(cases: &str, verdicts: &str) {
    let mut v = Verdicts::new(verdicts, "C06");
    // protocol of the model object
    {
        let nul = Value::Null;
        let g = GLM::new(ExponentialFamily::Poisson);
        let before = g.coef().is_err() && g.deviance().is_err() && g.dispersion().is_err() && g.coef_standard_error().is_err() && g.coef_covariance_matrix().is_err() && g.aic().is_err();
        v.check(before, "protocol", "accessors-before-fit-fail", &nul, json!(before));
    }
    for_each_line(cases, |c| {
        v.cases += 1;
        if v.cases % 20 == 1 { v.sample(json!({"fam": c["fam"], "family": c["family"], "n": c["n"], "p": c["p"], "alpha": c["alpha"]})); }
        let x = f64s(&c["X"]);
        let y = f64s(&c["y"]);
        let w = f64s(&c["w"]);
        let unit_w = c["unit_w"].as_bool().unwrap();
        let n = c["n"].as_u64().unwrap() as usize;
        let p = c["p"].as_u64().unwrap() as usize;
        let mu = f64s(&c["mu"]);
        let infinv = f64s(&c["infinv"]);
        let gaussian = c["fam"] == "gaussian";
        let fam = if gaussian { "Gaussian" } else { c["family"].as_str().unwrap() };
        let (o, alpha) = if gaussian { (f64s(&c["o"]), num(&c["alpha"])) } else { (vec![0.0; n], 0.0) };
        let has_o = gaussian && c["has_o"].as_bool().unwrap();
        let class = format!("{} {}{}{}{}", fam, if gaussian { "design" } else { "grouped" }, if unit_w { "" } else { " weights" }, if has_o { " offset" } else { "" },
                            if alpha > 0.0 { " ridge" } else { "" });
        let wopt = if unit_w { None } else { Some(&w[..]) };
        let oopt = if has_o { Some(&o[..]) } else { None };
        let r = fit(fam, &x, &y, wopt, oopt, alpha, 1e-13, 200);
        let ft = match r { Some(Ok(ft)) => ft, other => { v.check(false, "fit", &class, &c, json!(match other { Some(Err(e)) => e, _ => "panic".into() })); return; } };
        if gaussian {
            let beta = f64s(&c["beta"]);
            v.check(rel_ok(&ft.coef, &beta, 2f64.powi(-30)), "coefficients", &class, &c, fjs(&ft.coef));
            let rss = num(&c["rss"]);
            if unit_w && rss >= 0.0 {
                v.check((ft.dev - rss).abs() <= 1e-9 * rss.max(1e-300), "deviance = RSS", &class, &c, json!(ft.dev));
                let disp = num(&c["disp"]);
                v.check((ft.disp - disp).abs() <= 1e-9 * disp.max(1e-300), "dispersion", &class, &c, json!(ft.disp));
            }
        }
        // predictions = inverse link of X beta + offset: the fitted means (group means for grouped designs)
        v.check(rel_ok(&ft.pred, &mu, 2f64.powi(-30)), "predictions", &class, &c, fjs(&ft.pred));
        // standard errors: se^2 = dispersion (as reported) x diag(inverse Fisher information)
        let se2: Vec<f64> = ft.se.iter().map(|s| s * s).collect();
        let e: Vec<f64> = infinv.iter().map(|t| t * ft.disp).collect();
        v.check(rel_ok(&se2, &e, 1e-8), "standard errors", &class, &c, json!({"se2": fjs(&se2), "disp*infinv": fjs(&e)}));
        let diagc: Vec<f64> = (0..p).map(|i| ft.cov[i * p + i]).collect();
        v.check(rel_ok(&diagc, &e, 1e-8), "covariance diagonal", &class, &c, fjs(&diagc));
        // dispersion convention and the deviance at the fitted means (unit weights)
        if unit_w {
            let dd = deviance_def(fam, &y, &ft.pred);
            v.check((ft.dev - dd).abs() <= 1e-8 * dd.abs().max(1e-12), "deviance at fitted means", &class, &c, json!({"reported": ft.dev, "definition": dd}));
            let has_disp = matches!(fam, "Gaussian" | "QuasiPoisson" | "Gamma");
            let ed = if has_disp { ft.dev / (n - p) as f64 } else { 1.0 };
            v.check((ft.disp - ed).abs() <= 1e-10 * ed.abs().max(1e-300), "dispersion convention", &class, &c, json!({"reported": ft.disp, "expected": ed}));
        }
        // the same problem on an object with a history (an inspected earlier fit on a narrower design; a failed fit): every reported
        // quantity is that of the fresh fit
        for hist in [1u8, 2, 3, 4] {
            let rh = fit_hh(fam, &x, &y, wopt, oopt, alpha, 1e-13, 200, hist);
            let okh = match &rh { Some(Ok(fh)) => rel_ok(&fh.coef, &ft.coef, 1e-8) && rel_ok(&fh.se, &ft.se, 1e-7) && rel_ok(&fh.cov, &ft.cov, 1e-7) && fh.cov.len() == p * p
                && (fh.dev - ft.dev).abs() <= 1e-8 * ft.dev.abs().max(1e-9) && (fh.disp - ft.disp).abs() <= 1e-8 * ft.disp.abs().max(1e-9) && rel_ok(&fh.pred, &ft.pred, 1e-8), _ => false };
            v.check(okh, if hist == 1 { "same results after an inspected earlier fit" } else if hist == 2 { "same results after a failed fit" } else if hist == 3 { "same results configured through the public fields" } else { "same results from a clone of the configured object" }, &class, &c,
                    json!(match &rh { Some(Ok(fh)) => json!({"se": fjs(&fh.se), "fresh_se": fjs(&ft.se)}), Some(Err(e)) => json!(e), None => json!("panic") }));
        }
        // the Gaussian family in other units: responses and offsets times s = 2^-40 / 2^30 scale coefficients, predictions and standard
        // errors by s, deviance and dispersion by s^2 (exactly: powers of two) - no absolute threshold may enter
        if gaussian {
            for e in [-40i32, 30] {
                let sc = 2f64.powi(e);
                let (ys, os): (Vec<f64>, Vec<f64>) = (y.iter().map(|t| t * sc).collect(), o.iter().map(|t| t * sc).collect());
                let rs = fit(fam, &x, &ys, wopt, if has_o { Some(&os[..]) } else { None }, alpha, 1e-13, 200);
                let oks = match &rs { Some(Ok(fs)) => { let un = |v: &[f64], k: f64| -> Vec<f64> { v.iter().map(|t| t / k).collect() };
                    rel_ok(&un(&fs.coef, sc), &ft.coef, 1e-8) && rel_ok(&un(&fs.se, sc), &ft.se, 1e-7) && rel_ok(&un(&fs.cov, sc * sc), &ft.cov, 1e-7) && rel_ok(&un(&fs.pred, sc), &ft.pred, 1e-8)
                    && (fs.dev / (sc * sc) - ft.dev).abs() <= 1e-8 * ft.dev.abs().max(1e-9) && (fs.disp / (sc * sc) - ft.disp).abs() <= 1e-8 * ft.disp.abs().max(1e-9) }, _ => false };
                v.check(oks, "Gaussian fit in other units", &format!("{} {}", class, if e < 0 { "tiny-units" } else { "huge-units" }), &json!({"case": c, "scale_log2": e}),
                        json!(match &rs { Some(Ok(fs)) => json!({"se": fjs(&fs.se), "se_unit_scale": fjs(&ft.se)}), Some(Err(e)) => json!(e), None => json!("panic") }));
            }
        }
        // invariance under reordering the observations
        let perm: Vec<usize> = (0..n).rev().collect();
        let xp: Vec<f64> = perm.iter().flat_map(|i| x[i * p..(i + 1) * p].to_vec()).collect();
        let yp: Vec<f64> = perm.iter().map(|i| y[*i]).collect();
        let wp: Vec<f64> = perm.iter().map(|i| w[*i]).collect();
        let op: Vec<f64> = perm.iter().map(|i| o[*i]).collect();
        let r2 = fit(fam, &xp, &yp, if unit_w { None } else { Some(&wp[..]) }, if has_o { Some(&op[..]) } else { None }, alpha, 1e-13, 200);
        let okp = match r2 { Some(Ok(f2)) => rel_ok(&f2.coef, &ft.coef, 1e-8) && (f2.dev - ft.dev).abs() <= 1e-8 * ft.dev.abs().max(1e-9) && rel_ok(&f2.se, &ft.se, 1e-7), _ => false };
        v.check(okp, "row-permutation invariance", &class, &c, json!(null));
        // an iteration budget of one can never have converged: an error, not an answer
        let r1 = fit(fam, &x, &y, wopt, oopt, alpha, 1e-13, 1);
        v.check(matches!(r1, Some(Err(_))), "unconverged => Err", &class, &c, json!(matches!(r1, Some(Ok(_)))));
    });
    v.finish();
}

fn unif(rng: &mut Lcg) -> f64 { (rng.below(1 << 30) as f64 + 0.5) / (1u64 << 30) as f64 }
fn gauss(rng: &mut Lcg) -> f64 { (0..12).map(|_| unif(rng)).sum::<f64>() - 6.0 }

/// P3 (observation): random designs, all six families, weights / offsets / ridge penalty: the penalised score
/// at the returned coefficients, relative to the scale of its terms.
pub fn record(seed: u64, nev: usize, out: &str) {
    let mut rng = Lcg::new(seed);
    let mut t = TraceOut::new(out);
    let fams = ["Gaussian", "Bernoulli", "QuasiPoisson", "Poisson", "Gamma", "Exponential"];
    for e in 0..nev {
        let fam = fams[e % 6];
        // few, nearly noise-free observations under a strong penalty: alpha ||slopes|| is then of the order of the deviance itself
        let lownoise = e % 7 == 3 && fams[e % 6] != "Bernoulli";
        let n = if lownoise { rng.range(8, 24) as usize } else { rng.range(20, 300) as usize };
        let p = rng.range(1, 5) as usize;
        let kind = ["standardised", "polynomial", "indicator"][(e / 6) % 3];
        let mut x = vec![0.0; n * p];
        for i in 0..n { x[i * p] = 1.0; let t0 = -1.0 + 2.0 * i as f64 / n as f64;
            for j in 1..p { x[i * p + j] = match kind { "standardised" => gauss(&mut rng) * 0.8, "polynomial" => t0.powi(j as i32), _ => if (i + j) % (j + 2) == 0 { 1.0 } else { 0.0 } }; } }
        let mut beta: Vec<f64> = (0..p).map(|_| rng.range(-15, 15) as f64 / 10.0).collect();
        // large responses (mean of order 50..150): the log-link iteration starts far from the solution
        let large = (e / 18) % 3 == 2 && !lownoise;
        // tiny responses for the scale families (means around 1e-6: variance mu^2 far below any absolute floor)
        let tiny = !lownoise && (e / 18) % 3 == 1 && (fam == "Gamma" || fam == "Exponential") && (e / 54) % 2 == 0;
        if tiny { beta[0] = -14.0 + rng.below(10) as f64 / 10.0; for j in 1..p { beta[j] *= 0.25; } }
        // responses so large that the start value mean(y) overflows the log link: the fit must end in Err or in a finite, correct answer
        let huge = !lownoise && (e / 18) % 3 == 0 && (e / 54) % 3 == 1 && fam != "Gaussian" && fam != "Bernoulli";
        if huge { beta[0] = 6.8; for j in 1..p { beta[j] *= 0.1; } }
        if large { beta[0] = match fam { "Gaussian" => 80.0, "Bernoulli" => beta[0], _ => 4.0 + rng.below(8) as f64 / 10.0 }; for j in 1..p { beta[j] *= 0.25; } }
        let history: u8 = ((e / 6) % 3) as u8;
        let refit = history != 0;
        let use_w = rng.below(2) == 0; let use_o = rng.below(3) == 0;
        let alpha = if lownoise { [1.0, 10.0][rng.below(2) as usize] } else { [0.0, 0.0, 0.1, 1.0, 10.0][rng.below(5) as usize] };
        let w: Vec<f64> = (0..n).map(|_| if use_w { 0.5 + rng.below(4) as f64 * 0.5 } else { 1.0 }).collect();
        let o: Vec<f64> = (0..n).map(|_| if use_o { (rng.below(5) as f64 - 2.0) * 0.2 } else { 0.0 }).collect();
        let eta: Vec<f64> = (0..n).map(|i| (0..p).map(|j| x[i * p + j] * beta[j]).sum::<f64>() + o[i]).collect();
        let y: Vec<f64> = eta.iter().map(|h| match fam {
            "Gaussian" if lownoise => h + 0.05 * gauss(&mut rng),
            "Poisson" | "QuasiPoisson" if lownoise => (h.exp() * (1.0 + 0.03 * gauss(&mut rng))).round().max(0.0),
            "Gamma" | "Exponential" if lownoise => h.exp() * (1.0 + 0.05 * gauss(&mut rng)).max(0.5),
            "Gaussian" => h + gauss(&mut rng),
            "Bernoulli" => if unif(&mut rng) < 1.0 / (1.0 + (-h).exp()) { 1.0 } else { 0.0 },
            "Poisson" | "QuasiPoisson" => { let mu = h.exp(); if mu > 30.0 { (mu + mu.sqrt() * gauss(&mut rng)).round().max(0.0) } else { let l = (-mu).exp(); let mut k = 0.0; let mut pr = unif(&mut rng); while pr > l && k < 500.0 { k += 1.0; pr *= unif(&mut rng); } k } }
            _ => { let m = h.exp(); let shape = if fam == "Gamma" { 3.0 } else { 1.0 }; (0..shape as usize).map(|_| -unif(&mut rng).ln()).sum::<f64>() * m / shape }
        }).collect();
        let tol = [1e-8, 1e-11, 1e-14][rng.below(3) as usize];
        let r = fit_hh(fam, &x, &y, if use_w { Some(&w[..]) } else { None }, if use_o { Some(&o[..]) } else { None }, alpha, tol, 200, history);
        let base = json!({"family": fam, "design": kind, "scale": if lownoise { "low-noise strong-penalty" } else if huge { "huge-mean" } else if large { "large-mean" } else if tiny { "tiny-mean" } else { "unit" }, "history": if history == 1 { "refit" } else if history == 2 { "retry-after-failed-fit" } else { "fresh" }, "n": n, "p": p, "weights": use_w, "offset": use_o, "alpha_class": if alpha == 0.0 { 0 } else { 1 }, "tol_log10": tol.log10().round() as i64});
        let mut ev = base.as_object().unwrap().clone();
        match r {
            Some(Ok(ft)) => {
                // penalised score with the family's own link / variance functions
                let mut score = vec![0.0; p]; let mut scale = vec![0.0; p];
                for i in 0..n {
                    let h = (0..p).map(|j| x[i * p + j] * ft.coef[j]).sum::<f64>() + o[i];
                    let (m, dm, var) = match fam { "Gaussian" => (h, 1.0, 1.0), "Bernoulli" => { let m = 1.0 / (1.0 + (-h).exp()); (m, m * (1.0 - m), m * (1.0 - m)) }
                        "Poisson" | "QuasiPoisson" => (h.exp(), h.exp(), h.exp()), _ => (h.exp(), h.exp(), h.exp() * h.exp()) };
                    for j in 0..p { let term = w[i] * (y[i] - m) * dm / var * x[i * p + j]; score[j] += term; scale[j] += term.abs(); }
                }
                for j in 1..p { score[j] -= alpha * ft.coef[j]; scale[j] += (alpha * ft.coef[j]).abs(); }
                let rel = (0..p).map(|j| score[j].abs() / scale[j].max(1e-300)).fold(0.0, f64::max);
                // the same score against the scale of the data alone: sum_i w_i |x_ij| max(1, |y_i|)
                let absrel = (0..p).map(|j| { let sc: f64 = (0..n).map(|i| w[i] * x[i * p + j].abs() * y[i].abs().max(1.0)).sum(); score[j].abs() / sc.max(1e-300) }).fold(0.0, f64::max);
                ev.insert("score_abs_log2".into(), json!(if absrel <= 0.0 { -1074 } else { absrel.log2().ceil() as i64 }));
                ev.insert("coef_max".into(), json!(ft.coef.iter().fold(0.0f64, |m, c| m.max(c.abs()))));
                let predok = { let pr = &ft.pred; (0..n).all(|i| { let h = (0..p).map(|j| x[i * p + j] * ft.coef[j]).sum::<f64>() + o[i];
                    let m = match fam { "Gaussian" => h, "Bernoulli" => 1.0 / (1.0 + (-h).exp()), _ => h.exp() }; (pr[i] - m).abs() <= 1e-12 * m.abs().max(1.0) }) };
                // the reported deviance is the family's deviance at the fitted means (weighted fits included), to within the tolerance
                let dd = deviance_def(fam, &y, &ft.pred);
                // (the crate evaluates it at the means of the previous scoring step; for weighted fits the unweighted deviance is not stationary at
                // the solution, so the two differ to first order in the remaining coefficient error: same bound as for the score, 4 sqrt(tol))
                ev.insert("deviance_is_definition".into(), json!((ft.dev - dd).abs() <= (1e-9 + 4.0 * tol.sqrt()) * dd.abs().max(1.0)));
                ev.insert("out".into(), json!("ok")); ev.insert("score_rel_log2".into(), json!(if rel <= 0.0 { -1074 } else { rel.log2().ceil() as i64 }));
                ev.insert("finite".into(), json!(ft.coef.iter().chain(ft.se.iter()).all(|v| v.is_finite()))); ev.insert("predict_is_inverse_link".into(), json!(predok));
            }
            Some(Err(_)) => { ev.insert("out".into(), json!("err")); ev.insert("score_rel_log2".into(), json!(0)); ev.insert("score_abs_log2".into(), json!(0)); ev.insert("deviance_is_definition".into(), json!(true)); ev.insert("finite".into(), json!(true)); ev.insert("predict_is_inverse_link".into(), json!(true)); }
            None => { ev.insert("out".into(), json!("panic")); ev.insert("score_rel_log2".into(), json!(0)); ev.insert("score_abs_log2".into(), json!(0)); ev.insert("deviance_is_definition".into(), json!(false)); ev.insert("finite".into(), json!(false)); ev.insert("predict_is_inverse_link".into(), json!(false)); }
        }
        t.emit(Value::Object(ev));
    }
    t.finish();
}
