//! C17: statistical transforms and combinatorics (spec/Special.tla, BigNat.tla).
use crate::common::*;
use compute::prelude::*;
use serde_json::{json, Value};

fn big(v: &Value) -> Option<u128> {
    // little-endian base-10^4 limbs; None if it does not fit in 128 bits
    let l = ints(v);
    if l.len() > 9 { return None; }
    let mut x: u128 = 0;
    for d in l.iter().rev() { x = x.checked_mul(10000)?.checked_add(*d as u128)?; }
    Some(x)
}

fn identities(v: &mut Verdicts) {
    let nul = Value::Null;
    // logistic: value at 0, reflection, range, monotone on a sorted dyadic grid over +-745
    v.check(logistic(0.0) == 0.5, "logistic", "at-zero", &nul, json!(logistic(0.0)));
    let grid: Vec<f64> = (-745 * 8..=745 * 8).map(|k| k as f64 / 8.0).collect();
    let mut prev = -1.0;
    let (mut mono, mut range, mut refl) = (true, true, true);
    let mut worst = json!(null);
    for x in grid.iter() {
        let y = logistic(*x);
        if !(y >= prev) { mono = false; worst = json!({"x": x, "y": y, "prev": prev}); }
        if !(0.0..=1.0).contains(&y) { range = false; worst = json!({"x": x, "y": y}); }
        if (y + logistic(-*x) - 1.0).abs() > 2f64.powi(-50) { refl = false; worst = json!({"x": x, "y": y, "y(-x)": logistic(-*x)}); }
        prev = y;
    }
    v.check(mono, "logistic", "monotone", &nul, worst.clone());
    v.check(range, "logistic", "range", &nul, worst.clone());
    v.check(refl, "logistic", "reflection", &nul, worst.clone());
    // logit inverts logistic on |x| <= 16; end points; rejects arguments outside [0, 1]
    let mut inv = true;
    for k in -128..=128 { let x = k as f64 / 8.0; let g = guard(|| logit(logistic(x))); if !g.map(|g| (g - x).abs() <= 1e-8 * (1.0 + x.abs())).unwrap_or(false) { inv = false; worst = json!({"x": x, "got": g}); } }
    v.check(inv, "logit", "inverse-of-logistic", &nul, worst.clone());
    // the negative tail is representable with full relative precision (logistic(x) ~ e^x), so the inversion holds down to -700
    let mut inv_tail = true;
    for k in (-700 * 8)..=(-128) { let x = k as f64 / 8.0; let g = guard(|| logit(logistic(x))); if !g.map(|g| (g - x).abs() <= 1e-8 * (1.0 + x.abs())).unwrap_or(false) { inv_tail = false; worst = json!({"x": x, "got": g}); } }
    v.check(inv_tail, "logit", "inverse-of-logistic negative-tail", &nul, worst.clone());
    // logistic inverts logit on (0, 1): small p to relative accuracy, p near 1 to absolute accuracy
    let mut inv_p = true;
    for k in 1..=1000 { for m in [1.0, 1.5, 1.0 + 2f64.powi(-30)] { let p = m * 2f64.powi(-k); let g = guard(|| logistic(logit(p))); if !g.map(|g| (g - p).abs() <= 1e-10 * p).unwrap_or(false) { inv_p = false; worst = json!({"p": fj(p), "got": g.map(fj)}); } } }
    v.check(inv_p, "logistic", "inverse-of-logit small-p", &nul, worst.clone());
    let mut inv_q = true;
    for k in 1..=50 { let p = 1.0 - 2f64.powi(-k); let g = guard(|| logistic(logit(p))); if !g.map(|g| (g - p).abs() <= 2f64.powi(-50)).unwrap_or(false) { inv_q = false; worst = json!({"p": fj(p), "got": g.map(fj)}); } }
    v.check(inv_q, "logistic", "inverse-of-logit p-near-1", &nul, worst.clone());
    // logit on dyadic points next to the ends: logit(1 - 2^-k) = ln(2^k - 1) and logit(2^-k) = -ln(2^k - 1) with 2^k - 1 exact (k <= 53);
    // subnormal p: logit(p) = ln p to working precision
    let mut near = true;
    for k in 1..=53 {
        let e = (2f64.powi(k) - 1.0).ln();
        for (p, ex) in [(1.0 - 2f64.powi(-k), e), (2f64.powi(-k), -e)] {
            let g = guard(|| logit(p));
            if !g.map(|g| (g - ex).abs() <= 1e-12 * ex.abs().max(1.0)).unwrap_or(false) { near = false; worst = json!({"p": fj(p), "got": g.map(fj), "expected": ex}); }
        }
    }
    for p in [5e-324, 2f64.powi(-1060), 1e-310, 2.2250738585072014e-308] {
        let g = guard(|| logit(p));
        if !g.map(|g| g.is_finite() && (g - p.ln()).abs() <= 1e-12 * p.ln().abs()).unwrap_or(false) { near = false; worst = json!({"p": fj(p), "got": g.map(fj), "expected": p.ln()}); }
    }
    v.check(near, "logit", "next-to-the-ends", &nul, worst.clone());
    v.check(guard(|| logit(0.5)) == Some(0.0), "logit", "at-half", &nul, json!(guard(|| logit(0.5))));
    v.check(guard(|| logit(0.0)) == Some(f64::NEG_INFINITY) && guard(|| logit(1.0)) == Some(f64::INFINITY), "logit", "end-points", &nul, json!(null));
    for p in [-0.25, 1.25, -1e-300, 1.0000000000000002, f64::NAN] {
        let g = guard(|| logit(p));
        v.check(g.is_none(), "logit", "outside-rejected", &json!({"p": fj(p)}), json!(g.map(fj)));
    }
    // softmax: equal inputs of any magnitude, non-negative, sum 1, order preserved, shift invariant
    for mag in [0.0, 1.0, -700.0, 709.0, 1000.0, -1000.0, 1e4, -1e4] {
        for n in [1usize, 2, 3, 7, 1000] {
            let x = vec![mag; n];
            let g = guard(|| softmax(&x));
            let ok = g.as_ref().map(|g| g.len() == n && g.iter().all(|t| (*t - 1.0 / n as f64).abs() <= 1e-15)).unwrap_or(false);
            v.check(ok, "softmax", &format!("equal-inputs {}", if mag.abs() > 709.0 { "huge" } else { "moderate" }), &json!({"value": mag, "n": n}), json!(g.as_ref().map(|g| fjs(&g[..g.len().min(3)]))));
        }
    }
    let mut rng = Lcg::new(17);
    for t in 0..60 {
        let n = [1usize, 2, 5, 33, 1000][t % 5];
        let span = [3.0, 50.0, 1e4][t % 3];
        let x: Vec<f64> = (0..n).map(|_| (rng.range(-1000, 1000) as f64 / 1000.0) * span).collect();
        let g = guard(|| softmax(&x));
        let class = format!("random span{}", span);
        match g {
            Some(g) => {
                let nonneg = g.iter().all(|t| *t >= 0.0 && t.is_finite());
                let sum1 = (g.iter().sum::<f64>() - 1.0).abs() <= 1e-12;
                let order = (0..n).all(|i| (0..n).all(|j| !(x[i] < x[j]) || g[i] <= g[j])) && (0..n).all(|i| (0..n).all(|j| !(x[i] == x[j]) || g[i] == g[j]));
                let xs: Vec<f64> = x.iter().map(|t| t + 512.0).collect();
                let gs = guard(|| softmax(&xs));
                let shift = gs.map(|gs| gs.iter().zip(&g).all(|(a, b)| (a - b).abs() <= 1e-12)).unwrap_or(false);
                v.check(nonneg && sum1, "softmax", &format!("{} nonneg-sum1", class), &json!({"x": fjs(&x[..n.min(8)])}), json!({"sum": g.iter().sum::<f64>()}));
                v.check(order, "softmax", &format!("{} order", class), &json!({"x": fjs(&x[..n.min(8)])}), fjs(&g[..n.min(8)]));
                v.check(shift, "softmax", &format!("{} shift", class), &json!({"x": fjs(&x[..n.min(8)])}), fjs(&g[..n.min(8)]));
            }
            None => v.check(false, "softmax", &class, &json!({"x": fjs(&x[..n.min(8)])}), json!("panic")),
        }
    }
}

/// Box-Cox against the mpmath table: the definition (x^lambda - 1)/lambda evaluated in floating point is conditioned like
/// eps * max(1, x^lambda) / |lambda| (cancellation in x^lambda - 1), which is the acceptance bound used here
fn boxcox_table(v: &mut Verdicts, refdir: &str) {
    for_each_line(&format!("{}/boxcox.ndjson", refdir), |r| {
        let x = r["xn"].as_f64().unwrap() / r["xd"].as_f64().unwrap();
        let lam = r["ln"].as_f64().unwrap() / r["ld"].as_f64().unwrap();
        let e: f64 = r["v"].as_str().unwrap().parse().unwrap();
        let pw: f64 = r["pow"].as_str().unwrap().parse().unwrap();
        let bound = 16.0 * f64::EPSILON * pw.max(1.0) / lam.abs() + 8.0 * f64::EPSILON * e.abs();
        let lc = if lam.abs() < 1e-8 { "|lambda|<1e-8" } else if lam.abs() < 1e-5 { "|lambda|<1e-5" } else if lam.abs() < 0.01 { "|lambda|<1e-2" } else { "moderate-lambda" };
        let xc = if x < 0.01 { "x<<1" } else if x > 100.0 { "x>>1" } else { "x~1" };
        let id = json!({"x": fj(x), "lambda": fj(lam), "ref": fj(e), "bound": fj(bound)});
        let g = guard(|| boxcox(x, lam));
        v.check(g.map(|g| (g - e).abs() <= bound).unwrap_or(false), "boxcox", &format!("table {} {}", lc, xc), &id, json!(g.map(fj)));
        for sh in [-0.5, 0.25, 3.0] {
            // x - sh + sh must reproduce x exactly for the comparison to be about the transform only
            let xs = x - sh;
            if xs + sh != x { continue; }
            let g = guard(|| boxcox_shifted(xs, lam, sh));
            v.check(g.map(|g| (g - e).abs() <= bound).unwrap_or(false), "boxcox_shifted", &format!("table {} {}", lc, xc), &id, json!(g.map(fj)));
        }
    });
}

pub fn replay(cases: &str, verdicts: &str, refdir: Option<&String>) {
    let mut v = Verdicts::new(verdicts, "C17");
    if let Some(d) = refdir { boxcox_table(&mut v, d); }
    let mut done_ident = false;
    let mut prev_row: Vec<Option<u64>> = vec![];
    for_each_line(cases, |c| {
        v.cases += 1;
        if !done_ident { identities(&mut v); done_ident = true; }
        if v.cases % 60 == 1 { v.sample(json!({"fam": c["fam"], "n": c["n"], "k": c["k"], "h": c["h"]})); }
        match c["fam"].as_str().unwrap() {
            "pascal" => {
                let n = c["n"].as_u64().unwrap();
                let row: Vec<Option<u128>> = c["row"].as_array().unwrap().iter().map(big).collect();
                let mut got_row = vec![];
                for (k, e) in row.iter().enumerate() {
                    let fits = e.map(|e| e < (1u128 << 64)).unwrap_or(false);
                    if !fits { got_row.push(None); continue; }
                    let e = e.unwrap() as u64;
                    let g = guard(|| binom_coeff(n, k as u64));
                    got_row.push(g);
                    let class = format!("n{} {}", if n <= 30 { "<=30" } else if n <= 61 { "31..61" } else { "62..67" }, if e > (1u64 << 62) { "near-2^64" } else { "small" });
                    v.check(g == Some(e), "binom_coeff", &class, &json!({"n": n, "k": k, "exact": e.to_string()}), json!(g.map(|g| g.to_string())));
                    // symmetry on the implementation
                    let gs = guard(|| binom_coeff(n, n - k as u64));
                    v.check(gs == g, "binom_coeff symmetry", &class, &json!({"n": n, "k": k}), json!(gs.map(|g| g.to_string())));
                    if n <= 40 {
                        let ga = guard(|| binom_coeff_alt(n, k as u64));
                        v.check(ga == Some(e), "binom_coeff_alt", "n<=40", &json!({"n": n, "k": k, "exact": e.to_string()}), json!(ga.map(|g| g.to_string())));
                    }
                }
                // Pascal's rule on the implementation's own values
                if n >= 1 && prev_row.len() == n as usize {
                    for k in 1..n as usize {
                        if let (Some(a), Some(b), Some(cc)) = (prev_row[k - 1], prev_row[k], got_row[k]) {
                            v.check(a.checked_add(b) == Some(cc), "binom_coeff pascal-rule", "rows", &json!({"n": n, "k": k}), json!([a.to_string(), b.to_string(), cc.to_string()]));
                        }
                    }
                }
                prev_row = got_row;
            }
            "hugen" => {
                // n beyond 32 bits: C(n, k) and, through the symmetry, C(n, n - k)
                let n = big(&c["nB"]).unwrap() as u64;
                let k0 = c["k"].as_u64().unwrap();
                let k = if c["sym"].as_bool().unwrap() { n - k0 } else { k0 };
                if c["fits"].as_bool().unwrap() {
                    let e = big(&c["v"]).unwrap() as u64;
                    let g = guard(|| binom_coeff(n, k));
                    v.check(g == Some(e), "binom_coeff", &format!("n>2^32 k{}{}", k0, if c["sym"].as_bool().unwrap() { " mirrored" } else { "" }), &json!({"n": n.to_string(), "k": k.to_string(), "exact": e.to_string()}), json!(g.map(|g| g.to_string())));
                }
            }
            "bign" => {
                if c["fits"].as_bool().unwrap() {
                    let (n, k) = (c["n"].as_u64().unwrap(), c["k"].as_u64().unwrap());
                    let e = big(&c["v"]).unwrap() as u64;
                    let g = guard(|| binom_coeff(n, k));
                    v.check(g == Some(e), "binom_coeff", &format!("large-n k{}", if k <= 8 { "<=8" } else { ">8" }), &json!({"n": n, "k": k, "exact": e.to_string()}), json!(g.map(|g| g.to_string())));
                }
            }
            _ => {
                let x = num(&c["x"]);
                let lam = c["h"].as_i64().unwrap() as f64 / 2.0;
                let sh = c["sh"].as_i64().unwrap() as f64;
                let e = num(&c["exp"]);
                let close = |g: f64| (g - e).abs() <= 2f64.powi(-45) * (1.0 + e.abs());
                let g = guard(|| boxcox(x, lam));
                v.check(g.map(close).unwrap_or(false), "boxcox", "rational-point", &c, json!(g));
                let g = guard(|| boxcox_shifted(x - sh, lam, sh));
                let sc = if sh > 0.0 { "positive-shift" } else if sh < 0.0 { "negative-shift" } else { "zero-shift" };
                v.check(g.map(close).unwrap_or(false), "boxcox_shifted", &format!("rational-point {}", sc), &c, json!(g));
                // lambda = 0 is the logarithm; tiny |lambda| approaches it
                let g0 = guard(|| boxcox(x, 0.0));
                v.check(g0 == Some(x.ln()), "boxcox", "lambda=0", &c, json!(g0));
                let g0s = guard(|| boxcox_shifted(x - sh, 0.0, sh));
                v.check(g0s == Some(x.ln()), "boxcox_shifted", &format!("lambda=0 {}", sc), &c, json!(g0s));
                for tiny in [2f64.powi(-30), -(2f64.powi(-30))] {
                    let gt = guard(|| boxcox(x, tiny));
                    v.check(gt.map(|g| (g - x.ln()).abs() <= 1e-5 * (1.0 + x.ln().abs())).unwrap_or(false), "boxcox", "tiny-lambda", &c, json!(gt));
                }
                // just INSIDE the domain: every x + shift > 0 is accepted, however small - powers of two far below machine epsilon, with
                // the exact value ((2^-k)^lambda - 1) / lambda for lambda = 1, 2, -1 and the logarithm for lambda = 0
                for k in [53i32, 60, 200, 1000] {
                    let tiny = 2f64.powi(-k);
                    for (lm, want) in [(1.0f64, tiny - 1.0), (2.0, (tiny * tiny - 1.0) / 2.0), (-1.0, -(2f64.powi(k) - 1.0)), (0.0, -(k as f64) * std::f64::consts::LN_2)] {
                        let g = guard(|| boxcox(tiny, lm));
                        v.check(g.map(|g| (g - want).abs() <= 1e-12 * want.abs()).unwrap_or(false), "boxcox", "tiny-valid-argument", &json!({"x_log2": -k, "lambda": lm}), json!(g));
                        // the same argument reached through a shift that cancels all but 2^-k of x (k <= 60: 1 - (1 - 2^-k) is exact for k = 53)
                        if k == 53 {
                            let g = guard(|| boxcox_shifted(1.0, lm, -(1.0 - tiny)));
                            v.check(g.map(|g| (g - want).abs() <= 1e-12 * want.abs()).unwrap_or(false), "boxcox_shifted", "tiny-valid-argument", &json!({"x": 1.0, "shift": fj(-(1.0 - tiny)), "lambda": lm}), json!(g));
                        }
                    }
                }
                // outside the domain x + shift > 0: rejected
                for bad in [0.0, -x] {
                    let gb = guard(|| boxcox(bad, lam));
                    v.check(gb.is_none(), "boxcox", "outside-domain", &c, json!(gb));
                    let gbs = guard(|| boxcox_shifted(bad - sh, lam, sh));
                    v.check(gbs.is_none(), "boxcox_shifted", &format!("outside-domain {}", sc), &c, json!(gbs));
                }
            }
        }
    });
    v.finish();
}
