//! X04: exponential-family tables (spec/Families.tla).
use crate::common::*;
use compute::prelude::*;
use serde_json::{json, Value};

fn fam(s: &str) -> ExponentialFamily {
    match s { "Gaussian" => ExponentialFamily::Gaussian, "Bernoulli" => ExponentialFamily::Bernoulli, "QuasiPoisson" => ExponentialFamily::QuasiPoisson,
              "Poisson" => ExponentialFamily::Poisson, "Gamma" => ExponentialFamily::Gamma, _ => ExponentialFamily::Exponential }
}
fn close(a: f64, b: f64) -> bool { (a - b).abs() <= 2f64.powi(-48) * b.abs().max(1.0) }

pub fn replay(cases: &str, verdicts: &str) {
    let mut v = Verdicts::new(verdicts, "X04");
    for_each_line(cases, |c| {
        v.cases += 1;
        let f = c["f"].as_str().unwrap();
        let ef = fam(f);
        if c["fam"] == "pointwise" {
            let mu = num(&c["mu"]);
            let var = guard(|| ef.variance(&[mu]).to_vec());
            v.check(var.as_ref().map(|r| r.len() == 1 && close(r[0], num(&c["variance"]))).unwrap_or(false), "variance", f, &c, json!(var));
            // d_inv_link takes eta and mu; the tables are functions of mu (eta = link(mu))
            let eta = match f { "Gaussian" => mu, "Bernoulli" => (mu / (1.0 - mu)).ln(), _ => mu.ln() };
            let d = guard(|| ef.d_inv_link(&[eta], &[mu]).to_vec());
            v.check(d.as_ref().map(|r| r.len() == 1 && close(r[0], num(&c["dinv"]))).unwrap_or(false), "d_inv_link", f, &c, json!(d));
            // inv_link inverts the link: inv_link(link(mu)) = mu
            let m = guard(|| ef.inv_link(&[eta]).to_vec());
            v.check(m.as_ref().map(|r| r.len() == 1 && (r[0] - mu).abs() <= 1e-12 * mu.abs().max(1.0)).unwrap_or(false), "inv_link(link(mu)) = mu", f, &c, json!(m));
            v.check(ef.has_dispersion() == c["has_dispersion"].as_bool().unwrap(), "has_dispersion", f, &c, json!(ef.has_dispersion()));
            // saturated fit: the deviance vanishes at y = mu for the log-link families and the Gaussian
            if f != "Bernoulli" {
                let d0 = guard(|| ef.deviance(&[mu, mu], &[mu, mu]));
                v.check(d0.map(|d| d.abs() <= 1e-12).unwrap_or(false), "deviance(y, y) = 0", f, &c, json!(d0));
            } else {
                // Bernoulli at mu = 1/2: every observation contributes 2 ln 2 whatever y is
                let d0 = guard(|| ef.deviance(&[0.0, 1.0, 1.0], &[0.5, 0.5, 0.5]));
                v.check(d0.map(|d| close(d, 6.0 * std::f64::consts::LN_2)).unwrap_or(false), "deviance at mu = 1/2", f, &c, json!(d0));
            }
        } else {
            let y = f64s(&c["y"]);
            let mu = f64s(&c["mu"]);
            if f == "Gaussian" {
                let d = guard(|| ef.deviance(&y, &mu));
                v.check(d.map(|d| close(d, num(&c["gaussian_deviance"]))).unwrap_or(false), "deviance", "Gaussian residual sum of squares", &c, json!(d));
                // the penalised deviance as written in the crate: deviance + alpha * ||coef[1..]||_2 (not squared)
                let pd = guard(|| ef.penalized_deviance(&y, &mu, 0.5, &[7.0, 3.0, -4.0]));
                v.check(pd.map(|d| close(d, num(&c["gaussian_deviance"]) + 2.5)).unwrap_or(false), "penalized_deviance", "as written", &c, json!(pd));
            }
            if f == "Poisson" || f == "QuasiPoisson" {
                let m2: Vec<f64> = y.iter().enumerate().map(|(i, t)| if *t == 0.0 { (i + 1) as f64 / 2.0 } else { *t }).collect();
                let d = guard(|| ef.deviance(&y, &m2));
                v.check(d.map(|d| close(d, num(&c["poisson_deviance_zero_or_mean"]))).unwrap_or(false), "deviance", "Poisson y in {0, mu}", &c, json!(d));
            }
            let ir = guard(|| ef.initial_working_response(&y).map(|r| r.to_vec()));
            let iw = guard(|| ef.initial_working_weights(&y).map(|r| r.to_vec()));
            let has = c["has_initial"].as_bool().unwrap();
            let okr = match &ir { Some(Some(r)) => has && { let e = f64s(&c["initial_response"]); r.len() == e.len() && r.iter().zip(&e).all(|(a, b)| close(*a, *b)) }, Some(None) => !has, None => false };
            let okw = match &iw { Some(Some(r)) => has && { let e = f64s(&c["initial_weights"]); r.len() == e.len() && r.iter().zip(&e).all(|(a, b)| close(*a, *b)) }, Some(None) => !has, None => false };
            v.check(okr, "initial_working_response", f, &c, json!(ir));
            v.check(okw, "initial_working_weights", f, &c, json!(iw));
            // length mismatch between responses and means is rejected
            let bad = guard(|| ef.deviance(&y, &mu[..mu.len() - 1]));
            v.check(bad.is_none(), "deviance", "length mismatch rejected", &c, json!(bad));
        }
    });
    let _ = Value::Null;
    v.finish();
}
