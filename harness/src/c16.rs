//! C16: linear interpolation (spec/Interp.tla).
use crate::common::*;
use compute::prelude::*;
use serde_json::{json, Value};

fn mode_of(m: &Value) -> ExtrapolationMode {
    match m["kind"].as_str().unwrap() {
        "panic" => ExtrapolationMode::Panic,
        "fill" => ExtrapolationMode::Fill(num(&m["left"]), num(&m["right"])),
        _ => ExtrapolationMode::Extrapolate,
    }
}
fn next_up(x: f64) -> f64 {
    if x == 0.0 { return f64::from_bits(1); }
    let b = x.to_bits();
    f64::from_bits(if x > 0.0 { b + 1 } else { b - 1 })
}
fn next_down(x: f64) -> f64 {
    -next_up(-x)
}

pub fn replay(cases: &str, verdicts: &str) {
    let mut v = Verdicts::new(verdicts, "C16");
    for_each_line(cases, |c| {
        v.cases += 1;
        let x = f64s(&c["x"]);
        let y = f64s(&c["y"]);
        let t = num(&c["t"]);
        let pos = c["pos"].as_str().unwrap();
        let mk = c["mode"]["kind"].as_str().unwrap();
        let exp_ok = c["out"] == "ok";
        let ev = num(&c["v"]);
        let scale = y.iter().fold(ev.abs(), |m, a| m.max(a.abs())).max(1e-300);
        let class = format!("{} {} {}", c["fam"].as_str().unwrap(), mk, pos);
        if v.cases % 400 == 5 {
            v.sample(c.clone());
        }
        let knot = pos.ends_with("knot");
        let judge = |g: &Option<Vec<f64>>, k: usize| -> bool {
            match (g, exp_ok) {
                (None, false) => true,
                (Some(r), true) => r.len() == k && r.iter().enumerate().all(|(i, o)| {
                    if k == 3 && i == 1 { *o == y[0] }
                    else if knot { *o == ev }
                    else { (o - ev).abs() <= scale * 2f64.powi(-40) }
                }),
                _ => false,
            }
        };
        for variant in ["checked", "unchecked"] {
            let run = |tg: &[f64]| -> Option<Vec<f64>> {
                guard(|| if variant == "checked" { interp1d_linear(&x, &y, tg, mode_of(&c["mode"])).to_vec() }
                         else { interp1d_linear_unchecked(&x, &y, tg, mode_of(&c["mode"])).to_vec() })
            };
            let g1 = run(&[t]);
            v.check(judge(&g1, 1), variant, &class, &c, json!(g1.as_ref().map(|r| fjs(r))));
            // the abscissa axis rescaled by a power of two (exact): same answer (Inv_ScaleInvariant)
            if c["fam"] != "steep" && v.cases % 2 == 0 {
                for e in [-70i32, 45] {
                    let f = 2f64.powi(e);
                    let xs: Vec<f64> = x.iter().map(|a| a * f).collect();
                    let md = mode_of(&c["mode"]);
                    let g = guard(|| if variant == "checked" { interp1d_linear(&xs, &y, &[t * f], md).to_vec() } else { interp1d_linear_unchecked(&xs, &y, &[t * f], md).to_vec() });
                    v.check(judge(&g, 1), &format!("{} axis-rescaled", variant), &class, &json!({"case": c, "axis_scale_log2": e}), json!(g.as_ref().map(|r| fjs(r))));
                }
            }
            // the target between two in-range targets (only the middle one may be out of range): still answered on its own
            if pos.ends_with("oob") || pos.contains("oob") {
                let g = run(&[x[0], t, x[x.len() - 1]]);
                let okm = match (&g, exp_ok) { (None, false) => true, (Some(r), true) => r.len() == 3 && r[0] == y[0] && r[2] == y[y.len() - 1] && (r[1] - ev).abs() <= scale * 2f64.powi(-40), _ => false };
                v.check(okm, &format!("{} out-of-range target between in-range ones", variant), &class, &c, json!(g.as_ref().map(|r| fjs(r))));
            }
            // the fill mode SELECTS one of its two values (ISpec: left below the range, right above it) - whatever they are: the customary
            // non-finite fills (-inf / +inf / NaN for "missing") come back as given, the other side's value plays no part
            if mk == "fill" && pos.contains("oob") {
                let below = t < x[0];
                for (lf, rf) in [(f64::NEG_INFINITY, 0.0), (0.0, f64::INFINITY), (f64::NAN, 5.0), (5.0, f64::NAN), (f64::NEG_INFINITY, f64::INFINITY), (f64::INFINITY, -0.0), (-0.0, f64::NEG_INFINITY)] {
                    let md = ExtrapolationMode::Fill(lf, rf);
                    let g = guard(|| if variant == "checked" { interp1d_linear(&x, &y, &[t], md).to_vec() } else { interp1d_linear_unchecked(&x, &y, &[t], md).to_vec() });
                    let want: f64 = if below { lf } else { rf };
                    let ok = g.as_ref().map(|r| r.len() == 1 && (r[0].to_bits() == want.to_bits() || (r[0].is_nan() && want.is_nan()))).unwrap_or(false);
                    v.check(ok, &format!("{} non-finite fill values", variant), &class, &json!({"case": c, "left_fill": fj(lf), "right_fill": fj(rf)}), json!(g.as_ref().map(|r| fjs(r))));
                }
            }
            // neighbouring targets in one call - one ulp below, at, and one ulp above the target, in both orders: each is answered as if it
            // had been asked alone (bit for bit), however close the targets are to one another
            {
                let trio = [next_down(t), t, next_up(t)];
                let single: Vec<Option<Vec<f64>>> = trio.iter().map(|q| run(&[*q])).collect();
                for order in [[0usize, 1, 2], [2, 1, 0], [1, 0, 1]] {
                    let tg: Vec<f64> = order.iter().map(|i| trio[*i]).collect();
                    let g = run(&tg);
                    let want: Option<Vec<f64>> = order.iter().map(|i| single[*i].as_ref().map(|r| r[0])).collect();
                    let okn = match (&g, &want) { (Some(g), Some(w)) => g.len() == 3 && g.iter().zip(w).all(|(a, b)| a.to_bits() == b.to_bits() || (a.is_nan() && b.is_nan())), (None, None) => true, _ => false };
                    v.check(okn, &format!("{} neighbouring targets in one call", variant), &class, &json!({"case": c, "targets": fjs(&tg)}), json!(g.as_ref().map(|r| fjs(r))));
                }
            }
            // several targets in one call: each answered independently (first knot in the middle)
            let g3 = run(&[t, x[0], t]);
            v.check(judge(&g3, 3), &format!("{} multi", variant), &class, &c, json!(g3.as_ref().map(|r| fjs(r))));
            // the answer is a function of the CONTENTS of the buffers at the time of the call (ISpec has no history): call, edit the same
            // two buffers in place (same addresses and lengths: ordinates reflected and shifted, then the axis doubled), call again -
            // each answer equals, bit for bit, the answer on fresh copies of the current contents
            if v.cases % 3 == 0 {
                let md = || mode_of(&c["mode"]);
                let call = |xs: &[f64], ys: &[f64], tg: f64| guard(|| if variant == "checked" { interp1d_linear(xs, ys, &[tg], md()).to_vec() } else { interp1d_linear_unchecked(xs, ys, &[tg], md()).to_vec() });
                let same = |a: &Option<Vec<f64>>, b: &Option<Vec<f64>>| match (a, b) { (Some(a), Some(b)) => a.len() == b.len() && a.iter().zip(b).all(|(p, q)| p.to_bits() == q.to_bits() || (p.is_nan() && q.is_nan())), (None, None) => true, _ => false };
                let (mut xb, mut yb) = (x.clone(), y.clone());
                let first = call(&xb, &yb, t);
                let mut ok = same(&first, &g1);
                for (i, o) in yb.iter_mut().enumerate() { *o = 3.0 - 2.0 * *o + i as f64; }
                let after_y = call(&xb, &yb, t);
                ok &= same(&after_y, &call(&xb.clone(), &yb.clone(), t));
                for a in xb.iter_mut() { *a *= 2.0; }
                let after_x = call(&xb, &yb, 2.0 * t);
                ok &= same(&after_x, &call(&xb.clone(), &yb.clone(), 2.0 * t));
                v.check(ok, &format!("{} buffers edited in place between calls", variant), &class, &c, json!({"first": first.as_ref().map(|r| fjs(r)), "after_ordinates_edited": after_y.as_ref().map(|r| fjs(r)), "after_axis_doubled": after_x.as_ref().map(|r| fjs(r))}));
            }
        }
        // +-1 ulp around a knot (still inside the range): between the neighbouring ordinates
        if knot && mk != "panic" {
            for (tt, side) in [(next_up(t), "ulp-above"), (next_down(t), "ulp-below")] {
                if tt < x[0] || tt > x[x.len() - 1] { continue; }
                let i = (0..x.len() - 1).find(|i| x[*i] <= tt && tt <= x[*i + 1]).unwrap();
                let (lo, hi) = (y[i].min(y[i + 1]), y[i].max(y[i + 1]));
                let g = guard(|| interp1d_linear_unchecked(&x, &y, &[tt], mode_of(&c["mode"])).to_vec());
                let ok = match &g { Some(r) => r.len() == 1 && r[0] >= lo - scale * 2f64.powi(-48) && r[0] <= hi + scale * 2f64.powi(-48), None => false };
                v.check(ok, side, &class, &c, json!(g.as_ref().map(|r| fjs(r))));
            }
        }
        // one ulp BEYOND an end knot is outside the range: the mode decides (panic / fill value / the end segment's line)
        if (pos == "first-knot" || pos == "last-knot") && c["fam"] != "steep" {
            // also with the axis shifted (exactly, by an integer) so that the end knot is +-1 and its neighbour lies on the other
            // side of zero: there "target minus neighbouring knot" rounds, and a test on the rounded ratio cannot see the ulp
            let shifts: Vec<f64> = if c["fam"] == "small" { vec![0.0, if pos == "last-knot" { 1.0 - t } else { -1.0 - t }] } else { vec![0.0] };
            for (shift, variant) in shifts.iter().flat_map(|sh| ["checked", "unchecked"].iter().map(move |vr| (*sh, *vr))) {
                let xs: Vec<f64> = x.iter().map(|a| a + shift).collect();
                let t0 = t + shift;
                let (tt, side, fill) = if pos == "last-knot" { (next_up(t0), "ulp-beyond-last", num(&c["mode"]["right"])) } else { (next_down(t0), "ulp-beyond-first", num(&c["mode"]["left"])) };
                let side = if shift == 0.0 { side.to_string() } else { format!("{} axis-shifted", side) };
                let side = side.as_str();
                let g = guard(|| if variant == "checked" { interp1d_linear(&xs, &y, &[tt], mode_of(&c["mode"])).to_vec() } else { interp1d_linear_unchecked(&xs, &y, &[tt], mode_of(&c["mode"])).to_vec() });
                let ok = match (mk, &g) {
                    ("panic", None) => true,
                    ("fill", Some(r)) => r.len() == 1 && r[0] == fill,
                    ("extrap", Some(r)) => r.len() == 1 && (r[0] - ev).abs() <= scale * 2f64.powi(-40),
                    _ => false,
                };
                v.check(ok, &format!("{} {}", variant, side), &class, &c, json!(g.as_ref().map(|r| fjs(r))));
            }
        }
        // signed zero: a target of -0.0 is the target 0 (and a knot of -0.0 is the knot 0)
        if t == 0.0 {
            for variant in ["checked", "unchecked"] {
                let run = |xs: &[f64], tg: f64| guard(|| if variant == "checked" { interp1d_linear(xs, &y, &[tg], mode_of(&c["mode"])).to_vec() } else { interp1d_linear_unchecked(xs, &y, &[tg], mode_of(&c["mode"])).to_vec() });
                let g = run(&x, -0.0);
                v.check(judge(&g, 1), &format!("{} negative-zero target", variant), &class, &c, json!(g.as_ref().map(|r| fjs(r))));
                let xz: Vec<f64> = x.iter().map(|a| if *a == 0.0 { -0.0 } else { *a }).collect();
                let g = run(&xz, 0.0);
                v.check(judge(&g, 1), &format!("{} negative-zero knot", variant), &class, &c, json!(g.as_ref().map(|r| fjs(r))));
            }
        }
        // checked variant rejects unsorted abscissae and both reject mismatched lengths
        if pos == "inside" && mk == "extrap" {
            let mut xs = x.clone();
            let n = xs.len();
            xs.swap(n - 2, n - 1);
            let g = guard(|| interp1d_linear(&xs, &y, &[t], ExtrapolationMode::Extrapolate).to_vec());
            v.check(g.is_none(), "checked", "unsorted-last-pair", &c, json!(g.as_ref().map(|r| fjs(r))));
            // ... at any scale of the axis (descending by 2^-70 is descending), and when only one ulp out of order
            let xt: Vec<f64> = xs.iter().map(|a| a * 2f64.powi(-70)).collect();
            let g = guard(|| interp1d_linear(&xt, &y, &[t * 2f64.powi(-70)], ExtrapolationMode::Extrapolate).to_vec());
            v.check(g.is_none(), "checked", "unsorted-last-pair tiny-axis", &c, json!(g.as_ref().map(|r| fjs(r))));
            let mut xu = x.clone();
            xu[n - 1] = next_down(xu[n - 2]);
            let g = guard(|| interp1d_linear(&xu, &y, &[t], ExtrapolationMode::Extrapolate).to_vec());
            v.check(g.is_none(), "checked", "last-pair one-ulp-descending", &c, json!(g.as_ref().map(|r| fjs(r))));
            let mut xs = x.clone();
            xs.swap(0, 1);
            let g = guard(|| interp1d_linear(&xs, &y, &[t], ExtrapolationMode::Extrapolate).to_vec());
            v.check(g.is_none(), "checked", "unsorted-first-pair", &c, json!(g.as_ref().map(|r| fjs(r))));
            let ys = &y[..y.len() - 1];
            let g = guard(|| interp1d_linear(&x, ys, &[t], ExtrapolationMode::Extrapolate).to_vec());
            let g2 = guard(|| interp1d_linear_unchecked(&x, ys, &[t], ExtrapolationMode::Extrapolate).to_vec());
            v.check(g.is_none() && g2.is_none(), "both", "length-mismatch", &c, json!([g.is_none(), g2.is_none()]));
            // ... in either direction and by any amount: more ordinates than abscissae is a mismatch too (not "ignore the surplus")
            for extra in [1usize, 2, x.len()] {
                let yl: Vec<f64> = y.iter().cloned().chain((0..extra).map(|k| k as f64)).collect();
                let g = guard(|| interp1d_linear(&x, &yl, &[t], ExtrapolationMode::Extrapolate).to_vec());
                let g2 = guard(|| interp1d_linear_unchecked(&x, &yl, &[t], ExtrapolationMode::Extrapolate).to_vec());
                v.check(g.is_none() && g2.is_none(), "both", "length-mismatch more-ordinates", &json!({"case": c, "surplus": extra}), json!([g.is_none(), g2.is_none()]));
                let xl: Vec<f64> = x.iter().cloned().chain((0..extra).map(|k| x[x.len() - 1] + 1.0 + k as f64)).collect();
                let g = guard(|| interp1d_linear(&xl, &y, &[t], ExtrapolationMode::Extrapolate).to_vec());
                let g2 = guard(|| interp1d_linear_unchecked(&xl, &y, &[t], ExtrapolationMode::Extrapolate).to_vec());
                v.check(g.is_none() && g2.is_none(), "both", "length-mismatch more-abscissae", &json!({"case": c, "surplus": extra}), json!([g.is_none(), g2.is_none()]));
            }
        }
    });
    v.finish();
}
