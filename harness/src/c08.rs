//! C08: descriptive statistics (spec/Stats.tla).
use crate::common::*;
use compute::prelude::*;
use serde_json::{json, Value};

const OFFSETS: [f64; 5] = [0.0, 1024.0, 1048576.0, 1e8, -1e8];

fn tol_ok(obs: f64, exp: f64, spread: f64, offset: f64) -> bool {
    // a numerically stable algorithm on data = offset + small integers: error <~ eps * (spread^2 + spread * |offset|)
    obs.is_finite() && (obs - exp).abs() <= 2f64.powi(-40) * (spread * spread + spread * offset.abs() + exp.abs())
}

pub fn replay(cases: &str, verdicts: &str) {
    let mut v = Verdicts::new(verdicts, "C08");
    for_each_line(cases, |c| {
        v.cases += 1;
        if v.cases % 500 == 3 { v.sample(c.clone()); }
        if c["fam"] == "edges" {
            let e = f64s(&c["x"]);
            let exp = f64s(&c["centres"]);
            let uniform = e.windows(2).all(|w| w[1] - w[0] == e[1] - e[0]);
            let g = guard(|| hist_bin_centers(&e).to_vec());
            v.check(g.as_ref().map(|r| all_eq(r, &exp)).unwrap_or(false), "hist_bin_centers", if uniform { "uniform" } else { "non-uniform" }, &c, json!(g.as_ref().map(|r| fjs(r))));
            // midpoints at the extremes of the format (each expected value is exactly representable and follows from the definition
            // (a + b) / 2): huge edges of opposite sign, a bin almost symmetric about zero, a huge first bin before unit bins
            if v.cases % 50 == 1 || e.len() == 2 {
                let big = 1.5 * 2f64.powi(1023);
                let fixed: Vec<(Vec<f64>, Vec<f64>, &str)> = vec![
                    (vec![-big, big], vec![0.0], "opposite-sign huge edges"),
                    (vec![-big, 0.0, big], vec![-big / 2.0, big / 2.0], "opposite-sign huge edges"),
                    (vec![-1.0, 1.0 + f64::EPSILON], vec![f64::EPSILON / 2.0], "bin almost symmetric about zero"),
                    (vec![-(2f64.powi(54)), 0.0, 1.0, 2.0, 3.0, 4.0], vec![-(2f64.powi(53)), 0.5, 1.5, 2.5, 3.5], "huge first bin"),
                    (vec![0.0, 1.0, 2.0, 2f64.powi(60)], vec![0.5, 1.5, 2f64.powi(59) + 1.0], "huge last bin"),
                ];
                for (ed, ex, name) in fixed {
                    let g = guard(|| hist_bin_centers(&ed).to_vec());
                    v.check(g.as_ref().map(|r| all_eq(r, &ex)).unwrap_or(false), "hist_bin_centers", name, &json!({"edges": fjs(&ed), "expected": fjs(&ex)}), json!(g.as_ref().map(|r| fjs(r))));
                }
            }
            // real-valued (dyadic) edges: scaled and shifted copies
            let e2: Vec<f64> = e.iter().map(|t| t * 0.375 - 10.5).collect();
            let exp2: Vec<f64> = exp.iter().map(|t| t * 0.375 - 10.5).collect();
            let g = guard(|| hist_bin_centers(&e2).to_vec());
            v.check(g.as_ref().map(|r| all_eq(r, &exp2)).unwrap_or(false), "hist_bin_centers", if uniform { "uniform dyadic" } else { "non-uniform dyadic" }, &c, json!(g.as_ref().map(|r| fjs(r))));
            return;
        }
        let base = f64s(&c["x"]);
        let ybase = f64s(&c["y"]);
        let n = base.len();
        let spread = base.iter().chain(ybase.iter()).fold(1.0f64, |m, t| m.max(t.abs())) + 1.0;
        let (emean, evar, esvar, ecov, escov) = (num(&c["mean"]), num(&c["var"]), num(&c["svar"]), num(&c["cov"]), num(&c["scov"]));
        let (emin, emax) = (num(&c["min"]), num(&c["max"]));
        let (eamin, eamax) = (c["argmin"].as_u64().unwrap() as usize, c["argmax"].as_u64().unwrap() as usize);
        let constant = base.iter().all(|t| *t == base[0]);
        let ties = !constant && (base.iter().filter(|t| **t == emin).count() > 1 || base.iter().filter(|t| **t == emax).count() > 1);
        let shape = if n == 1 { "n=1" } else if constant { "constant" } else if ties { "ties" } else { "generic" };
        for off in OFFSETS {
            let x: Vec<f64> = base.iter().map(|t| t + off).collect();
            let y: Vec<f64> = ybase.iter().map(|t| t - 3.0 * off).collect();
            let oc = if off == 0.0 { "offset0" } else if off.abs() < 1e7 { "offset<=2^20" } else { "offset1e8" };
            let class = format!("{} {}", shape, oc);
            let vx = Vector::new(x.clone());
            let mx = mk(vx.clone(), if n % 2 == 0 { 2 } else { 1 }, if n % 2 == 0 { n / 2 } else { n });
            let mut num_check = |v: &mut Verdicts, name: &str, g: Option<f64>, e: f64| {
                v.check(g.map(|g| tol_ok(g, e, spread, off)).unwrap_or(false), name, &class, &c, json!({"got": g, "expected": e, "offset": off}));
            };
            num_check(&mut v, "mean", guard(|| mean(&x)), emean + off);
            num_check(&mut v, "welford_mean", guard(|| welford_mean(&x)), emean + off);
            num_check(&mut v, "Vector.mean", guard(|| vx.mean()), emean + off);
            num_check(&mut v, "Matrix.mean", guard(|| mx.mean()), emean + off);
            num_check(&mut v, "var", guard(|| var(&x)), evar);
            num_check(&mut v, "Vector.var", guard(|| vx.var()), evar);
            num_check(&mut v, "Matrix.var", guard(|| mx.var()), evar);
            num_check(&mut v, "std", guard(|| std(&x)), evar.sqrt());
            num_check(&mut v, "Vector.std", guard(|| vx.std()), evar.sqrt());
            // a vector with itself, passed as the very same slice: covariance = variance (Inv_Laws), sample covariance = sample variance
            num_check(&mut v, "covariance(x, x) same slice", guard(|| covariance(&x, &x)), evar);
            if n >= 2 {
                num_check(&mut v, "sample_covariance(x, x) same slice", guard(|| sample_covariance(&x, &x)), esvar);
                num_check(&mut v, "sample_covariance_onepass(x, x) same slice", guard(|| sample_covariance_onepass(&x, &x)), esvar);
                num_check(&mut v, "sample_covariance_online(x, x) same slice", guard(|| sample_covariance_online(&x, &x)), esvar);
            }
            // population covariance is defined from one observation on (it is 0 there)
            if n == 1 { num_check(&mut v, "covariance", guard(|| covariance(&x, &y)), ecov); }
            if n >= 2 {
                num_check(&mut v, "sample_var", guard(|| sample_var(&x)), esvar);
                num_check(&mut v, "Vector.sample_var", guard(|| vx.sample_var()), esvar);
                num_check(&mut v, "sample_std", guard(|| sample_std(&x)), esvar.sqrt());
                num_check(&mut v, "Matrix.sample_std", guard(|| mx.sample_std()), esvar.sqrt());
                num_check(&mut v, "covariance", guard(|| covariance(&x, &y)), ecov);
                num_check(&mut v, "sample_covariance", guard(|| sample_covariance(&x, &y)), escov);
                num_check(&mut v, "sample_covariance_onepass", guard(|| sample_covariance_onepass(&x, &y)), escov);
                num_check(&mut v, "sample_covariance_online", guard(|| sample_covariance_online(&x, &y)), escov);
                // scaling laws on the implementation: var(2x) = 4 var(x), cov(2x, -y/2) = -cov(x, y)  (exact scalings by powers of two)
                let x2: Vec<f64> = x.iter().map(|t| 2.0 * t).collect();
                let yh: Vec<f64> = y.iter().map(|t| -0.5 * t).collect();
                num_check(&mut v, "var scale-law", guard(|| var(&x2)), 4.0 * evar);
                num_check(&mut v, "covariance scale-law", guard(|| covariance(&x2, &yh)), -ecov);
            }
            let eq_check = |v: &mut Verdicts, name: &str, g: Option<f64>, e: f64| {
                v.check(g.map(|g| g == e).unwrap_or(false), name, &class, &c, json!({"got": g, "expected": e, "offset": off}));
            };
            eq_check(&mut v, "min", guard(|| min(&x)), emin + off);
            eq_check(&mut v, "max", guard(|| max(&x)), emax + off);
            eq_check(&mut v, "Vector.min", guard(|| vx.min()), emin + off);
            eq_check(&mut v, "Matrix.max", guard(|| mx.max()), emax + off);
            eq_check(&mut v, "argmin", guard(|| argmin(&x) as f64), eamin as f64);
            eq_check(&mut v, "argmax", guard(|| argmax(&x) as f64), eamax as f64);
            eq_check(&mut v, "Vector.argmin", guard(|| vx.argmin() as f64), eamin as f64);
            eq_check(&mut v, "Vector.argmax", guard(|| vx.argmax() as f64), eamax as f64);
        }
        // scale laws of the definitions (Inv_Laws) at extreme power-of-two scales: exact, no absolute threshold may enter
        if v.cases % 2 == 0 {
            for e in [-70i32, 60] {
                let f = 2f64.powi(e);
                let x: Vec<f64> = base.iter().map(|t| t * f).collect();
                let y: Vec<f64> = ybase.iter().map(|t| t * f).collect();
                let class = format!("{} scaled-{}", shape, if e < 0 { "tiny" } else { "huge" });
                let vx = Vector::new(x.clone());
                let mut rel = |v: &mut Verdicts, name: &str, g: Option<f64>, ex: f64, unit: f64| {
                    v.check(g.map(|g| (g - ex).abs() <= 2f64.powi(-44) * unit).unwrap_or(false), name, &class, &c, json!({"got": g, "expected": ex, "scale_log2": e}));
                };
                rel(&mut v, "mean", guard(|| mean(&x)), emean * f, spread * f);
                rel(&mut v, "welford_mean", guard(|| welford_mean(&x)), emean * f, spread * f);
                rel(&mut v, "var", guard(|| var(&x)), evar * f * f, spread * spread * f * f);
                rel(&mut v, "Vector.std", guard(|| vx.std()), evar.sqrt() * f, spread * f);
                rel(&mut v, "covariance", guard(|| covariance(&x, &y)), ecov * f * f, spread * spread * f * f);
                if n >= 2 {
                    rel(&mut v, "sample_var", guard(|| sample_var(&x)), esvar * f * f, spread * spread * f * f);
                    rel(&mut v, "sample_covariance", guard(|| sample_covariance(&x, &y)), escov * f * f, spread * spread * f * f);
                    rel(&mut v, "sample_covariance_onepass", guard(|| sample_covariance_onepass(&x, &y)), escov * f * f, spread * spread * f * f);
                    rel(&mut v, "sample_covariance_online", guard(|| sample_covariance_online(&x, &y)), escov * f * f, spread * spread * f * f);
                }
                let okm = guard(|| min(&x) == emin * f && max(&x) == emax * f && argmin(&x) == eamin && argmax(&x) == eamax && vx.argmin() == eamin && vx.argmax() == eamax);
                v.check(okm == Some(true), "min/max/argmin/argmax", &class, &c, json!(okm));
            }
        }
        // the same BUFFER again after an interior value was edited in place (first and last value, length and address as before): every
        // statistic equals what a fresh copy of the edited data gives, bit for bit
        if base.len() >= 3 {
            let mut buf = base.clone(); let yb: Vec<f64> = base.iter().rev().cloned().collect();
            let stats = |d: &[f64]| vec![mean(d), welford_mean(d), var(d), sample_var(d), covariance(d, &yb), sample_covariance(d, &yb), min(d), max(d)];
            let before = guard(|| stats(&buf));
            buf[1] += 3.0; let fresh1 = buf.clone();
            let after = guard(|| stats(&buf));
            let reference = guard(|| stats(&fresh1));
            let same = match (&after, &reference) { (Some(a), Some(b)) => a.iter().zip(b).all(|(p, q)| p.to_bits() == q.to_bits() || (p.is_nan() && q.is_nan())), _ => false };
            let mdef = fresh1.iter().sum::<f64>() / fresh1.len() as f64;
            let okm = after.as_ref().map(|a| (a[0] - mdef).abs() <= 1e-12 * (1.0 + mdef.abs())).unwrap_or(false);
            v.check(same && okm && before.is_some(), "statistics", "same buffer edited in place", &json!({"x": fjs(&base)}), json!({"after": after.as_ref().map(|a| fjs(a)), "mean_by_definition": mdef}));
            // ... and each statistic on its own, called immediately before and immediately after the edit (nothing else in between)
            let fns: [(&str, fn(&[f64]) -> f64); 6] = [("mean", mean), ("welford_mean", welford_mean), ("var", var), ("sample_var", sample_var), ("std", std), ("sample_std", sample_std)];
            for (name, f) in fns.iter() {
                if base.len() < 2 && name.starts_with("sample") { continue; }
                let mut b2 = base.clone();
                let r = guard(|| { let _ = f(&b2); b2[1] -= 5.0; let got = f(&b2); let want = f(&b2.clone()); (got, want) });
                let ok1 = r.map(|(g, w)| g.to_bits() == w.to_bits() || (g.is_nan() && w.is_nan())).unwrap_or(false);
                let okd = if *name == "mean" { r.map(|(g, _)| { let md = (base.iter().sum::<f64>() - 5.0) / base.len() as f64; (g - md).abs() <= 1e-12 * (1.0 + md.abs()) }).unwrap_or(false) } else { true };
                v.check(ok1 && okd, name, "called before and after an in-place edit", &json!({"x": fjs(&base)}), json!(r.map(|(g, w)| [g, w])));
            }
        }
        // signed zeros: -0.0 in place of 0 changes nothing numerically
        if base.iter().any(|t| *t == 0.0) {
            let x: Vec<f64> = base.iter().map(|t| if *t == 0.0 { -0.0 } else { *t }).collect();
            let class = format!("{} signed-zero", shape);
            let ok = guard(|| (mean(&x) - emean).abs() <= 1e-12 && (var(&x) - evar).abs() <= 1e-12 && min(&x) == emin && max(&x) == emax
                && argmin(&x) == eamin && argmax(&x) == eamax);
            v.check(ok == Some(true), "signed-zero data", &class, &c, json!(ok));
            // zeros of both signs are ties: the k-th zero is -0.0 for even k (then for odd k), first occurrence still wins; data
            // shifted so that 0 is the largest / the smallest value makes the zeros the extreme
            let (hi, lo) = (base.iter().cloned().fold(f64::MIN, f64::max), base.iter().cloned().fold(f64::MAX, f64::min));
            for (sh, name) in [(0.0, "as-is"), (hi, "zero-is-max"), (lo, "zero-is-min")] {
                for parity in [0usize, 1] {
                    let mut k = 0usize;
                    let xs: Vec<f64> = base.iter().map(|t| { let u = t - sh; if u == 0.0 { k += 1; if k % 2 == parity { -0.0 } else { 0.0 } } else { u } }).collect();
                    let ok = guard(|| min(&xs) == emin - sh && max(&xs) == emax - sh && argmin(&xs) == eamin && argmax(&xs) == eamax
                        && Vector::new(xs.clone()).argmin() == eamin && Vector::new(xs.clone()).argmax() == eamax);
                    v.check(ok == Some(true), "mixed signed zeros", &format!("{} {}", shape, name), &json!({"x": fjs(&xs)}), json!(ok));
                }
            }
        }
    });
    v.finish();
}

/// P3: random integer vectors of length up to `maxlen`.
pub fn record(seed: u64, nev: usize, out: &str, maxlen: i64) {
    let mut rng = Lcg::new(seed);
    let mut t = TraceOut::new(out);
    // a few long vectors (lengths around and between multiples of 512, small entries so that TLC's 32-bit sums suffice)
    let long = [513usize, 640, 1000, 1024, 1025, 1400];
    for ev in 0..(nev + long.len()) {
        let (n, amp) = if ev < nev { (rng.range(2, maxlen) as usize, 60) } else { (long[ev - nev], 5) };
        let x: Vec<f64> = (0..n).map(|_| rng.range(-amp, amp) as f64).collect();
        let y: Vec<f64> = (0..n).map(|_| rng.range(-amp, amp) as f64).collect();
        let r = guard(|| vec![mean(&x), welford_mean(&x), var(&x), sample_var(&x), covariance(&x, &y), sample_covariance(&x, &y),
                              sample_covariance_onepass(&x, &y), sample_covariance_online(&x, &y), min(&x), max(&x), argmin(&x) as f64, argmax(&x) as f64]);
        match r {
            Some(r) => {
                // residual exponents relative to the data scale (means) / its square (second moments)
                let sc = x.iter().chain(y.iter()).fold(1.0f64, |m, t| m.max(t.abs()));
                let res: Vec<Value> = r.iter().enumerate().map(|(i, v)| projr_scaled_by(*v, 2000000, if i < 2 { sc } else if i < 8 { sc * sc } else { 0.0 })).collect();
                // the same data far from the origin (mean / spread up to 1e8): second moments unchanged within the bound of a stable algorithm
                let spread = 2.0 * amp as f64;
                let mut shift_ok = true; let mut worst = json!("");
                for off in [1048576.0f64, 1e8, -1e8] {
                    let xs: Vec<f64> = x.iter().map(|t| t + off).collect();
                    let ys: Vec<f64> = y.iter().map(|t| t - off / 4.0).collect();
                    let g = guard(|| vec![var(&xs), sample_var(&xs), covariance(&xs, &ys), sample_covariance(&xs, &ys), sample_covariance_onepass(&xs, &ys), sample_covariance_online(&xs, &ys)]);
                    match g { Some(g) => for i in 0..6 { if !tol_ok(g[i], r[2 + i], spread, off) { shift_ok = false; worst = json!({"offset": off, "stat": i, "got": g[i], "unshifted": r[2 + i]}); } }, None => { shift_ok = false; worst = json!("panic"); } }
                }
                t.emit(json!({"x": projs(&x, 1), "y": projs(&y, 1), "out": "ok", "res": res, "shift_ok": shift_ok, "shift_worst": worst}))
            }
            None => t.emit(json!({"x": projs(&x, 1), "y": projs(&y, 1), "out": "panic", "res": [], "shift_ok": false, "shift_worst": ""})),
        }
    }
    let _ = Value::Null;
    t.finish();
}
