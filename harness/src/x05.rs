//! X05: the Vector object as a state machine (spec/VectorObj.tla, spec/Trace_VectorObj.tla).
use crate::c15::mat_json;
use crate::common::*;
use compute::prelude::*;
use serde_json::{json, Value};
use std::iter::FromIterator;

fn vj(v: &Vector) -> Value { projs(v, 1) }

pub fn record(seed: u64, nprog: usize, out: &str) {
    let mut rng = Lcg::new(seed);
    let mut t = TraceOut::new(out);
    for _ in 0..nprog {
        // construction: six ways
        let src: Vec<f64> = (0..rng.range(0, 7)).map(|_| rng.range(-9, 10) as f64).collect();
        let (how, mut v): (&str, Vector) = match rng.below(6) {
            0 => ("new", Vector::new(src.clone())),
            1 => ("from", Vector::from(src.clone())),
            2 => ("from_iter", Vector::from_iter(src.iter().copied())),
            3 => ("zeros", Vector::zeros(src.len())),
            4 => ("ones", Vector::ones(src.len())),
            _ => ("default", Vector::default()),
        };
        t.emit(json!({"op": "new", "how": how, "src": projs(&src, 1), "x": vj(&v), "out": "ok"}));
        for _ in 0..rng.range(1, 25) {
            let n = v.len() as i64;
            let (op, a): (&str, Vec<i64>) = match rng.below(20) {
                0 | 1 => ("push", vec![rng.range(-9, 10)]),
                2 => ("pop", vec![]),
                3 => ("truncate", vec![rng.range(0, n + 2)]),
                4 => ("insert", vec![rng.range(0, n + 2), rng.range(-9, 10)]),
                5 => ("remove", vec![rng.range(0, n + 1)]),
                6 => ("set", vec![rng.range(0, n + 1), rng.range(-9, 10)]),
                7 => ("get", vec![rng.range(0, n + 1)]),
                8 => ("clear", vec![]),
                9 => ("extend", (0..rng.range(0, 4)).map(|_| rng.range(-9, 10)).collect()),
                10 => ("sort", vec![]),
                11 => ("sorted", vec![]),
                12 => ("diff", vec![]),
                13 => ("iter_collect", vec![]),
                14 => ("iter_mut_add", vec![rng.range(-3, 4)]),
                15 => ("into_iter_sum", vec![]),
                16 => ("eq", if rng.below(2) == 0 { v.iter().map(|x| *x as i64).collect() } else { let mut w: Vec<i64> = v.iter().map(|x| *x as i64).collect(); match rng.below(3) { 0 => { w.push(1); } 1 => { w.pop(); } _ => { if !w.is_empty() { let k = rng.below(w.len() as u64) as usize; w[k] += 1; } } } w }),
                17 => ("len", vec![]),
                18 => ("to_matrix", vec![]),
                _ => ("reshape", vec![[-1, 1, 2, 3, 0][rng.below(5) as usize], [-1, 1, 2, 3][rng.below(4) as usize]]),
            };
            if n > 40 && (op == "push" || op == "extend" || op == "insert") { continue; }
            let mut ret = json!({"t": "none"});
            let ok = guard(|| {
                match op {
                    "push" => { v.push(a[0] as f64); }
                    "pop" => { let r = v.pop(); ret = json!({"t": "opt", "v": r.map(|x| vec![proj(x, 1)]).unwrap_or_default()}); }
                    "truncate" => { v.truncate(a[0] as usize); }
                    "insert" => { v.insert(a[0] as usize, a[1] as f64); }
                    "remove" => { let r = v.remove(a[0] as usize); ret = json!({"t": "num", "v": proj(r, 1)}); }
                    "set" => { v[a[0] as usize] = a[1] as f64; }
                    "get" => { let r = v[a[0] as usize]; ret = json!({"t": "num", "v": proj(r, 1)}); }
                    "clear" => { v.clear(); }
                    "extend" => { v.extend(a.iter().map(|x| *x as f64)); }
                    "sort" => { v.sort(); }
                    "sorted" => { ret = json!({"t": "vec", "v": vj(&v.sorted())}); }
                    "diff" => { ret = json!({"t": "vec", "v": vj(&v.diff())}); }
                    "iter_collect" => { let w: Vector = (&v).into_iter().copied().collect(); ret = json!({"t": "vec", "v": vj(&w)}); }
                    "iter_mut_add" => { for e in &mut v { *e += a[0] as f64; } }
                    "into_iter_sum" => { let s: f64 = v.clone().into_iter().sum(); ret = json!({"t": "num", "v": proj(s, 1)}); }
                    "eq" => { let w = Vector::new(a.iter().map(|x| *x as f64).collect::<Vec<f64>>()); ret = json!({"t": "bool", "v": v == w}); }
                    "len" => { ret = json!({"t": "num", "v": v.len()}); }
                    "to_matrix" => { let m = v.clone().to_matrix(); ret = json!({"t": "mat", "v": mat_json(&m)}); }
                    _ => { let m = v.reshape(a[0] as i32, a[1] as i32); ret = json!({"t": "mat", "v": mat_json(&m)}); }
                }
            }).is_some();
            if !ok { ret = json!({"t": "none"}); }
            t.emit(json!({"op": op, "a": a, "out": if ok { "ok" } else { "panic" }, "x": vj(&v), "ret": ret}));
        }
    }
    t.finish();
}
