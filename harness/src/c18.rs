//! C18: distribution objects under histories of constructor / setter / bulk-update calls
//! (spec/Dist.tla). P2 walks every path of the spec's transition table up to a depth bound on the
//! real objects; P3 records random histories with observation fingerprints for TLC to validate.
use crate::common::*;
use crate::dist::*;
use serde_json::{json, Value};
use std::collections::HashMap;

#[derive(Clone)]
struct Succ {
    act: Value,
    op: String,
    i: usize,
    v: i64,
    ps: Vec<i64>,
    out_ok: bool,
    posts: Vec<Vec<i64>>,
}
type Table = HashMap<(String, Vec<i64>), Vec<Succ>>;

fn load(cases: &str) -> (Table, Vec<(String, Vec<i64>)>) {
    let mut t: Table = HashMap::new();
    let mut order = vec![];
    for_each_line(cases, |line| {
        let kind = line["kind"].as_str().unwrap().to_string();
        let p = ints(&line["p"]);
        let succ = line["succ"].as_array().unwrap().iter().map(|s| Succ {
            act: s["act"].clone(),
            op: s["act"]["op"].as_str().unwrap().to_string(),
            i: s["act"]["i"].as_u64().unwrap() as usize,
            v: s["act"]["v"].as_i64().unwrap(),
            ps: ints(&s["act"]["ps"]),
            out_ok: s["out"] == "ok",
            posts: s["ps"].as_array().unwrap().iter().map(ints).collect(),
        }).collect();
        order.push((kind.clone(), p.clone()));
        t.insert((kind, p), succ);
    });
    order.sort();
    (t, order)
}

fn apply(o: &mut D, kind: &str, s: &Succ) -> bool {
    if s.op == "set" {
        let v = if int_field(kind, s.i - 1) { s.v as f64 } else { s.v as f64 / 4.0 };
        o.set(s.i - 1, v)
    } else {
        o.update(&params_of(kind, &s.ps))
    }
}

struct Walker<'a> {
    t: &'a Table,
    v: Verdicts,
    twins: HashMap<(String, Vec<i64>), Vec<String>>,
    depth: usize,
    seed: u64,
}

impl<'a> Walker<'a> {
    fn twin(&mut self, kind: &str, p: &[i64]) -> Vec<String> {
        let key = (kind.to_string(), p.to_vec());
        if let Some(x) = self.twins.get(&key) {
            return x.clone();
        }
        // the twin is constructed AND observed in a thread of its own: whatever the thread of the object under test has drawn, cached
        // or constructed before plays no part in what a fresh object shows
        let (k2, p2, sd) = (kind.to_string(), params_of(kind, p), self.seed);
        let o = std::thread::spawn(move || { let d = D::new(&k2, &p2).expect("twin of a valid tuple"); observe(&d, sd) }).join().expect("twin thread");
        self.twins.insert(key, o.clone());
        o
    }
    fn walk(&mut self, obj: &D, kind: &str, p: &[i64], d: usize, path: &mut Vec<Value>) {
        let succ = match self.t.get(&(kind.to_string(), p.to_vec())) {
            Some(s) => s.clone(),
            None => return, // state outside the emitted table (cannot happen for a closed grid)
        };
        for s in succ.iter() {
            let mut o2 = obj.clone();
            let ok = apply(&mut o2, kind, s);
            let obs = observe(&o2, self.seed);
            let mut matched: Option<Vec<i64>> = None;
            for c in s.posts.iter() {
                if self.twin(kind, c) == obs {
                    matched = Some(c.clone());
                    break;
                }
            }
            let good = ok == s.out_ok && matched.is_some();
            let class = format!("{}{} {}", s.op, if s.op == "set" { format!("{}", s.i) } else { String::new() },
                                if s.out_ok { "valid" } else { "invalid" });
            path.push(s.act.clone());
            if !good {
                let exp_obs: Vec<Vec<String>> = s.posts.iter().map(|c| self.twin(kind, c)).collect();
                let diff: Vec<String> = exp_obs.get(0).map(|e| e.iter().zip(obs.iter()).filter(|(a, b)| a != b)
                    .map(|(a, b)| format!("twin {} / object {}", a, b)).collect()).unwrap_or_default();
                let case = json!({"kind": kind, "start": path_start(path), "history": path.clone(), "pre": p,
                                  "expect": {"out": if s.out_ok { "ok" } else { "panic" }, "params_any_of": s.posts}});
                self.v.check(false, kind, &class, &case, json!({"out": if ok { "ok" } else { "panic" }, "differs": diff}));
            } else {
                if self.v.checked % 100000 == 11 {
                    self.v.sample(json!({"kind": kind, "pre": p, "history": path.clone(), "post": matched}));
                }
                self.v.check(true, kind, &class, &Value::Null, Value::Null);
                if d + 1 < self.depth {
                    let m = matched.unwrap();
                    self.walk(&o2, kind, &m, d + 1, path);
                }
            }
            path.pop();
        }
    }
}
fn path_start(_p: &[Value]) -> Value {
    Value::Null
}

pub fn replay(cases: &str, verdicts: &str, depth: usize) {
    let (t, order) = load(cases);
    let seed = std::env::var("VERIF_SEED").ok().and_then(|s| s.parse().ok()).unwrap_or(1u64) * 7919 + 13;
    let mut w = Walker { t: &t, v: Verdicts::new(verdicts, "C18"), twins: HashMap::new(), depth, seed };
    // Default::default() is a distribution object like any other: observationally identical to the freshly constructed object of SOME
    // parameter tuple (the documented default or any other tuple of the grid) - density, moments, Debug rendering and seeded stream
    {
        let defaults: [(&str, Vec<i64>); 13] = [("Normal", vec![0, 4]), ("Gamma", vec![4, 4]), ("Beta", vec![4, 4]), ("ChiSquared", vec![1]), ("T", vec![4]), ("Pareto", vec![4, 4]),
            ("Gumbel", vec![0, 4]), ("Exponential", vec![4]), ("Uniform", vec![0, 4]), ("DiscreteUniform", vec![0, 1]), ("Poisson", vec![4]), ("Binomial", vec![1, 2]), ("Bernoulli", vec![2])];
        for (kind, dp) in defaults.iter() {
            let obs = D::default_of(kind).map(|d| observe(&d, seed));
            let mut cands: Vec<Vec<i64>> = vec![dp.clone()];
            cands.extend(order.iter().filter(|(k, _)| k == kind).map(|(_, p)| p.clone()));
            let hit = obs.as_ref().and_then(|o| cands.iter().find(|c| &w.twin(kind, c) == o).cloned());
            let diff: Vec<String> = match &obs { Some(o) => w.twin(kind, dp).iter().zip(o.iter()).filter(|(a, b)| a != b).map(|(a, b)| format!("new(documented default) {} / default() {}", a, b)).collect(), None => vec!["panic".into()] };
            w.v.check(hit.is_some(), kind, "default() is some fresh object", &json!({"kind": kind}), json!({"differs_from_documented_default": diff}));
        }
    }
    // location-scale laws in other units: the seeded stream of Normal(mu s, sigma s) (Gumbel likewise) is s times the stream of
    // Normal(mu, sigma) for s = 2^-70 and 2^40 - draws of a law with a tiny but positive scale are not a point mass
    for kind in ["Normal", "Gumbel"] {
        for (mu, sg) in [(0.0f64, 1.0f64), (10.0, 2.0), (-3.0, 0.5)] {
            let base = D::new(kind, &[mu, sg]).and_then(|d| d.stream(seed, 16));
            for e in [-70i32, 40] {
                let f = 2f64.powi(e);
                let sc = D::new(kind, &[mu * f, sg * f]).and_then(|d| d.stream(seed, 16));
                let ok = match (&base, &sc) { (Some(a), Some(b)) => a.len() == b.len() && a.iter().zip(b).all(|(x, y)| (f64::from_bits(*x) * f).to_bits() == *y) && b.iter().any(|y| f64::from_bits(*y) != mu * f), _ => false };
                w.v.check(ok, kind, "stream in other units", &json!({"kind": kind, "mu": mu, "scale": sg, "units_log2": e}), json!({"unit": base.as_ref().map(|a| a.iter().take(3).map(|x| f64::from_bits(*x)).collect::<Vec<_>>()), "scaled": sc.as_ref().map(|a| a.iter().take(3).map(|x| f64::from_bits(*x)).collect::<Vec<_>>())}));
            }
        }
    }
    for (kind, p) in order.iter() {
        w.v.cases += 1;
        let obj = match D::new(kind, &params_of(kind, p)) {
            Some(o) => o,
            None => {
                let case = json!({"kind": kind, "new": p});
                w.v.check(false, kind, "new valid", &case, json!("panic"));
                continue;
            }
        };
        // reproducibility and independence from other live objects
        let s1 = obj.stream(seed, 24);
        let s2 = obj.stream(seed, 24);
        alea::set_seed(seed);
        let others: Vec<Option<D>> = KINDS.iter().map(|k| D::new(k, &if arity(k) == 1 { vec![2.0] } else if *k == "Binomial" { vec![5.0, 0.5] } else { vec![1.0, 2.0] })).collect();
        let s3 = guard(|| (0..24).map(|_| obj.sample().to_bits()).collect::<Vec<u64>>());
        drop(others);
        let okr = s1 == s2 && s1 == s3;
        w.v.check(okr, kind, "stream reproducible", &json!({"kind": kind, "p": p}), json!({"same_seed_twice": s1 == s2, "with_other_objects": s1 == s3}));
        // large requests: the same seed gives the same 40 000 draws, and their beginning is the stream of a small request
        if w.v.cases % 5 == 1 {
            let big = |n: usize| { alea::set_seed(seed); guard(|| obj.sample_n(n).iter().map(|x| x.to_bits()).collect::<Vec<u64>>()) };
            let (b1, b2, small) = (big(40000), big(40000), big(24));
            let okb = match (&b1, &b2, &small) { (Some(a), Some(b), Some(c)) => a.len() == 40000 && a == b && a[..24] == c[..], _ => false };
            w.v.check(okb, kind, "large request reproducible", &json!({"kind": kind, "p": p, "n": 40000}), json!({"twice_equal": b1 == b2, "prefix_of_small": b1.as_ref().map(|a| Some(&a[..24.min(a.len())]) == small.as_ref().map(|c| &c[..]))}));
        }
        let mut path = vec![json!({"op": "new", "kind": kind, "ps": p})];
        w.walk(&obj, kind, p, 0, &mut path);
    }
    w.v.finish();
}

/// P3: random histories drawn from the spec's action lists; every event carries the outcome and
/// the fingerprint of everything observable about the object afterwards.
pub fn record(cases: &str, seed: u64, nhist: usize, out: &str) {
    let (t, order) = load(cases);
    let mut rng = Lcg::new(seed);
    let fseed = seed * 7919 + 13;
    let mut tr = TraceOut::new(out);
    // pool: one freshly constructed object per valid tuple of the grid
    for (kind, p) in order.iter() {
        let d = D::new(kind, &params_of(kind, p));
        match d {
            Some(d) => tr.emit(json!({"op": "fresh", "kind": kind, "ps": p, "out": "ok", "fp": fingerprint(&d, fseed)})),
            None => tr.emit(json!({"op": "fresh", "kind": kind, "ps": p, "out": "panic", "fp": ""})),
        }
    }
    for h in 0..nhist {
        let (kind, p) = &order[(h * 7 + rng.below(order.len() as u64) as usize) % order.len()];
        let acts = &t[&(kind.clone(), p.clone())];
        // constructor: sometimes with an invalid tuple taken from the update actions of the grid
        let ctor: Vec<i64> = if rng.below(4) == 0 {
            let ups: Vec<&Succ> = acts.iter().filter(|s| s.op == "update").collect();
            ups[rng.below(ups.len() as u64) as usize].ps.clone()
        } else {
            p.clone()
        };
        let mut obj = match D::new(kind, &params_of(kind, &ctor)) {
            Some(o) => {
                tr.emit(json!({"op": "new", "kind": kind, "ps": ctor, "out": "ok", "fp": fingerprint(&o, fseed)}));
                o
            }
            None => {
                tr.emit(json!({"op": "new", "kind": kind, "ps": ctor, "out": "panic", "fp": ""}));
                continue;
            }
        };
        let len = rng.range(1, 20);
        for _ in 0..len {
            let s = &acts[rng.below(acts.len() as u64) as usize];
            let ok = apply(&mut obj, kind, s);
            tr.emit(json!({"op": s.op, "kind": kind, "i": s.i, "v": s.v, "ps": s.ps, "out": if ok { "ok" } else { "panic" },
                           "fp": fingerprint(&obj, fseed)}));
        }
    }
    tr.finish();
}

/// extreme magnitudes (spec/MC_DistExtreme.tla): constructor, setter and bulk update accept exactly the valid values
pub fn replay_extreme(cases: &str, verdicts: &str) {
    let mut v = Verdicts::new(verdicts, "C18");
    for_each_line(cases, |c| {
        v.cases += 1;
        let kind = c["kind"].as_str().unwrap();
        let i = c["i"].as_u64().unwrap() as usize - 1;
        let (s, e) = (c["s"].as_i64().unwrap() as f64, c["e"].as_i64().unwrap() as i32);
        if c["special"].is_string() { special_case(&mut v, &c); return; }
        let val = s * if e < -1022 { 2f64.powi(-1022) * 2f64.powi(e + 1022) } else { 2f64.powi(e) };
        let base = params_of(kind, &ints(&c["base"]));
        let mut p = base.clone();
        p[i] = val;
        let fresh = D::new(kind, &p);
        // what a fresh object of these parameters shows when constructed and observed in a thread of its own (density probes, moments,
        // stream): an object moved here by a setter / bulk update shows the same, whatever this thread has evaluated before
        let fresh_obs: Option<Vec<String>> = { let (k2, p2) = (kind.to_string(), p.clone()); std::thread::spawn(move || D::new(&k2, &p2).map(|d| observe(&d, 4242))).join().ok().flatten() };
        // verdict "alike" (the smallest subnormal): whatever the constructor decides, setter and bulk update decide the same,
        // and an accepted value leaves the object equal to the fresh one
        let alike = c["valid"].as_str() == Some("alike");
        let valid = if alike { fresh.is_some() } else { c["valid"].as_bool().unwrap() };
        let mag = if s == 0.0 { "zero" } else if e < -1022 { "denormal" } else if e < 0 { "tiny" } else { "huge" };
        let class = format!("extreme {} {}", mag, if alike { "alike" } else if valid { "valid" } else { "invalid" });
        let id = json!({"kind": kind, "field": i + 1, "value": fj(val), "base": fjs(&base), "valid": c["valid"]});
        v.check(fresh.is_some() == valid, kind, &format!("new {}", class), &id, json!(fresh.is_some()));
        if let Some(mut o) = D::new(kind, &base) {
            let before = o.debug();
            let ok = o.set(i, val);
            let same = match (&fresh, valid) { (Some(f), true) => o.debug() == f.debug() && (!ok || fresh_obs.as_ref().map(|fo| &observe(&o, 4242) == fo).unwrap_or(true)), (_, false) => o.debug() == before, _ => true };
            v.check(ok == valid && same, kind, &format!("set{} {}", i + 1, class), &id, json!({"accepted": ok, "state_as_expected": same, "debug": o.debug()}));
            // two tiny values in a row (the value, then three times it - closer to one another than machine epsilon in absolute terms): the
            // second setter call is honoured like the first
            if ok && valid && s > 0.0 && e < -50 && e > -1070 {
                let v2 = val * 3.0; let mut p2 = p.clone(); p2[i] = v2;
                let twin2: Option<Vec<String>> = { let (k2, q2) = (kind.to_string(), p2.clone()); std::thread::spawn(move || D::new(&k2, &q2).map(|d| observe(&d, 4242))).join().ok().flatten() };
                let _ = observe(&o, 4242);
                let ok2 = o.set(i, v2);
                let same2 = match &twin2 { Some(t) => ok2 && &observe(&o, 4242) == t, None => true };
                v.check(same2, kind, &format!("set{} two tiny values in a row", i + 1), &json!({"kind": kind, "field": i + 1, "first": fj(val), "second": fj(v2), "base": fjs(&base)}), json!({"accepted": ok2}));
            }
        }
        if let Some(mut o) = D::new(kind, &base) {
            let before = o.debug();
            let ok = o.update(&p);
            let same = match (&fresh, valid) { (Some(f), true) => o.debug() == f.debug(), (_, false) => o.debug() == before, _ => true };
            v.check(ok == valid && same, kind, &format!("update {}", class), &id, json!({"accepted": ok, "state_as_expected": same, "debug": o.debug()}));
        }
    });
    v.finish();
}

/// NaN and the infinities: the specification fixes the verdict where the constraint decides it (+-inf against a
/// one-sided bound) and otherwise demands only that constructor, setter and bulk update decide ALIKE
fn special_case(v: &mut Verdicts, c: &Value) {
    let kind = c["kind"].as_str().unwrap();
    let i = c["i"].as_u64().unwrap() as usize - 1;
    let sp = c["special"].as_str().unwrap();
    let val = match sp { "nan" => f64::NAN, "pinf" => f64::INFINITY, _ => f64::NEG_INFINITY };
    let base = params_of(kind, &ints(&c["base"]));
    let mut p = base.clone();
    p[i] = val;
    let id = json!({"kind": kind, "field": i + 1, "value": sp, "base": fjs(&base), "expect": c["valid"]});
    let ctor = D::new(kind, &p).is_some();
    let set = D::new(kind, &base).map(|mut o| o.set(i, val));
    let upd = D::new(kind, &base).map(|mut o| o.update(&p));
    let alike = set == Some(ctor) && upd == Some(ctor);
    v.check(alike, kind, &format!("entry points alike {}", sp), &id, json!({"new": ctor, "set": set, "update": upd}));
    if let Some(exp) = c["valid"].as_bool() {
        v.check(ctor == exp, kind, &format!("new {} {}", sp, if exp { "valid" } else { "invalid" }), &id, json!(ctor));
    }
}
