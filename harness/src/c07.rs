//! C07: quadrature (spec/Quad.tla).
use crate::common::*;
use compute::prelude::*;
use serde_json::{json, Value};

fn poly(c: &[f64]) -> impl Fn(f64) -> f64 + '_ {
    move |x| c.iter().rev().fold(0.0, |acc, k| acc * x + k)
}
fn scale_of(c: &[f64], a: f64, b: f64) -> f64 {
    // magnitude scale of the integral: (|b - a| + tiny) * sum |c_k| max(|a|,|b|)^k
    let m = a.abs().max(b.abs());
    let s: f64 = c.iter().enumerate().map(|(k, v)| v.abs() * m.powi(k as i32)).sum();
    ((b - a).abs() * s).max(1e-300)
}

pub fn replay(cases: &str, verdicts: &str) {
    let mut v = Verdicts::new(verdicts, "C07");
    for_each_line(cases, |c| {
        v.cases += 1;
        if v.cases % 200 == 1 { v.sample(c.clone()); }
        let fam = c["fam"].as_str().unwrap();
        if fam == "samples" {
            let y = f64s(&c["y"]);
            let xq = f64s(&c["x"]);
            let exact = num(&c["exact"]);
            let d = c["dx"].as_i64().unwrap();
            let g = if !xq.is_empty() {
                let x: Vec<f64> = xq.iter().map(|t| t / 4.0).collect();
                guard(|| trapezoid(&y, Some(&x), None))
            } else if d == 0 {
                guard(|| trapezoid(&y, None, None))
            } else {
                guard(|| trapezoid(&y, None, Some(d as f64 / 4.0)))
            };
            let class = format!("{} n{}", if !xq.is_empty() { if xq.windows(2).all(|w| w[1] - w[0] == xq[1] - xq[0]) { "uniform-x" } else { "nonuniform-x" } } else if d == 0 { "unit-spacing" } else { "dx" },
                                if y.len() <= 3 { "<=3" } else { ">3" });
            v.check(g.map(|g| g == exact).unwrap_or(false), "trapezoid", &class, &c, json!({"got": g, "exact": exact}));
            return;
        }
        let p = f64s(&c["p"]);
        let (a, b) = (num(&c["a"]), num(&c["b"]));
        let deg = p.len() - 1;
        let sc = scale_of(&p, a, b);
        let ends = if a == b { "empty" } else if a > b { "reversed" } else { "forward" };
        let big = if a.abs() > 100.0 || b.abs() > 100.0 { " big" } else { "" };
        let f = poly(&p);
        let close = |g: f64, e: f64| g.is_finite() && (g - e).abs() <= sc * 2f64.powi(-40);
        match fam {
            "trapz" => {
                let n = c["n"].as_u64().unwrap() as usize;
                let rule = num(&c["rule"]);
                let g = guard(|| trapz(&f, a, b, n));
                let class = format!("deg{} {}{} n{}", deg.min(3), ends, big, if n == 1 { "=1" } else if n <= 12 { "<=12" } else { ">12" });
                // the composite rule's own exact value pins every weight (for degree <= 1 it is the exact integral)
                v.check(g.map(|g| close(g, rule)).unwrap_or(false), "trapz", &class, &c, json!({"got": g, "rule": rule}));
                for e in [-60i32, 30] {
                    let s = 2f64.powi(e);
                    let gs = guard(|| trapz(|x| f(x / s), a * s, b * s, n));
                    v.check(gs.map(|g| g.is_finite() && (g - rule * s).abs() <= sc * s * 2f64.powi(-40)).unwrap_or(false), "trapz axis-rescaled", &class, &json!({"case": c, "scale_log2": e}), json!({"got": gs, "rule_times_s": rule * s}));
                }
                // swapped limits change the sign; linearity in the integrand
                let g2 = guard(|| trapz(&f, b, a, n));
                v.check(match (g, g2) { (Some(x), Some(y)) => close(y, -x), _ => false }, "trapz sign", &class, &c, json!({"fwd": g, "rev": g2}));
                let g3 = guard(|| trapz(|x| 3.0 * f(x) + 2.0, a, b, n));
                let gc = guard(|| trapz(|_| 2.0, a, b, n));
                v.check(match (g, g3, gc) { (Some(x), Some(y), Some(z)) => (y - (3.0 * x + z)).abs() <= 4.0 * sc.max((b - a).abs() * 2.0) * 2f64.powi(-40), _ => false }, "trapz linear", &class, &c, json!({"f": g, "3f+2": g3, "2": gc}));
            }
            "romberg_deep" => {
                let nmax = c["nmax"].as_u64().unwrap() as usize;
                let exact = num(&c["exact"]);
                let g = guard(|| romberg(&f, a, b, 0.0, nmax));
                v.check(g.map(|g| g.is_finite() && (g - exact).abs() <= sc * 2f64.powi(-36)).unwrap_or(false), "romberg", &format!("deg{} {} eps=0 deep-budget{}", deg, ends, if nmax >= 17 { ">=17" } else { "<17" }), &c, json!({"got": g, "exact": exact}));
            }
            "romberg" => {
                let eps = num(&c["eps"]);
                let nmax = c["nmax"].as_u64().unwrap() as usize;
                let class = format!("deg{} {} eps{} nmax{}", deg, ends, if eps == 0.0 { "=0" } else { ">0" }, nmax);
                let g = guard(|| romberg(&f, a, b, eps, nmax));
                if c["judged"].as_bool().unwrap() {
                    let rule = num(&c["rule"]);
                    v.check(g.map(|g| close(g, rule)).unwrap_or(false), "romberg", &class, &c, json!({"got": g, "rule": rule, "level": c["level"]}));
                }
                // the rule has no memory (QSpec: the value is a function of integrand, limits, tolerance and budget): in a thread of its
                // own, after calls with smaller and then growing level budgets (and, separately, after a larger one), the call returns
                // bit for bit what it returns first thing in a fresh thread - and what the specification demands
                {
                    let after = |warm: &[usize]| -> Option<f64> {
                        std::thread::scope(|s| s.spawn(|| {
                            for w in warm { let _ = guard(|| romberg(&f, a, b, 0.0, *w)); }
                            guard(|| romberg(&f, a, b, eps, nmax))
                        }).join().ok().flatten())
                    };
                    let fresh = after(&[]);
                    let grown = after(&[2, 3, nmax.saturating_sub(1).max(2)]);
                    let shrunk = after(&[nmax + 3]);
                    let same = |x: Option<f64>, y: Option<f64>| match (x, y) { (Some(x), Some(y)) => x.to_bits() == y.to_bits() || (x.is_nan() && y.is_nan()), (None, None) => true, _ => false };
                    let mut ok = same(fresh, grown) && same(fresh, shrunk);
                    if c["judged"].as_bool().unwrap() {
                        let rule = num(&c["rule"]);
                        ok &= [fresh, grown, shrunk].iter().all(|g| g.map(|g| close(g, rule)).unwrap_or(false));
                    }
                    v.check(ok, "romberg after calls with other level budgets", &class, &c, json!({"fresh_thread": fresh, "after_growing_budgets": grown, "after_larger_budget": shrunk}));
                }
                if eps == 0.0 {
                    let g2 = guard(|| romberg(&f, b, a, eps, nmax));
                    v.check(match (g, g2) { (Some(x), Some(y)) => close(y, -x), _ => false }, "romberg sign", &class, &c, json!({"fwd": g, "rev": g2}));
                }
            }
            _ => {
                let exact = num(&c["exact"]);
                let class = format!("deg{} {}{}", if deg <= 9 { "<=9" } else { "10..19" }, ends, big);
                let g = guard(|| quad5(&f, a, b));
                v.check(g.map(|g| close(g, exact)).unwrap_or(false), "quad5", &class, &c, json!({"got": g, "exact": exact}));
                let g2 = guard(|| quad5(&f, b, a));
                v.check(match (g, g2) { (Some(x), Some(y)) => close(y, -x), _ => false }, "quad5 sign", &class, &c, json!({"fwd": g, "rev": g2}));
                // the axis in other units: int_{as}^{bs} f(x / s) dx = s int_a^b f (s = 2^-60, 2^30; exact rescaling of nodes and weights)
                for e in [-60i32, 30] {
                    let s = 2f64.powi(e);
                    let gs = guard(|| quad5(|x| f(x / s), a * s, b * s));
                    v.check(gs.map(|g| g.is_finite() && (g - exact * s).abs() <= sc * s * 2f64.powi(-40)).unwrap_or(false), "quad5 axis-rescaled", &class, &json!({"case": c, "scale_log2": e}), json!({"got": gs, "exact_times_s": exact * s}));
                }
                let g3 = guard(|| quad5(|x| 3.0 * f(x) + 2.0, a, b));
                v.check(match (g, g3) { (Some(x), Some(y)) => (y - (3.0 * x + 2.0 * (b - a))).abs() <= 4.0 * sc.max((b - a).abs() * 2.0) * 2f64.powi(-40), _ => false }, "quad5 linear", &class, &c, json!({"f": g, "3f+2": g3}));
            }
        }
    });
    let _ = Value::Null;
    v.finish();
}
