//! C11: factorisations (spec/Linalg.tla, Trace_Linalg.tla). The harness only runs and records;
//! every certificate is evaluated by TLC on the recorded (rationalised) factors.
use crate::common::*;
use compute::prelude::*;
use serde_json::{json, Value};

fn same_bits(a: &[f64], b: &[f64]) -> bool {
    a.len() == b.len() && a.iter().zip(b).all(|(x, y)| x.to_bits() == y.to_bits() || (x.is_nan() && y.is_nan()))
}
fn is_sym(a: &[f64], n: usize) -> bool {
    (0..n).all(|i| (0..n).all(|j| a[i * n + j] == a[j * n + i]))
}

fn emit_for(t: &mut TraceOut, a: &[f64], n: usize, cls: &str, spd: bool) {
    let am = mk(Vector::new(a.to_vec()), n, n);
    let aj = projs(a, 1);
    // LU: slice level and Matrix level
    let s = guard(|| lu(a));
    let m = guard(|| am.lu());
    match (&s, &m) {
        (Some((lus, ps)), Some((lum, pm))) => {
            let same = same_bits(lus, &lum.data) && ps == pm;
            t.emit(json!({"kind": "lu", "cls": cls, "n": n, "a": aj, "out": "ok", "lu": projrs_scaled(lus, 4096), "piv": ps, "same": same}));
            // the same matrix in other units (far from unit scale): pivots and L unchanged, U scaled, bit for bit
            for e in [-600i32, 560] {
                let f = 2f64.powi(e);
                let a2: Vec<f64> = a.iter().map(|v| v * f).collect();
                let am2 = mk(Vector::new(a2.clone()), n, n);
                let want: Vec<f64> = lus.iter().enumerate().map(|(q, v)| if q / n > q % n { *v } else { v * f }).collect();
                let s2 = guard(|| lu(&a2));
                let m2 = guard(|| am2.lu());
                t.emit(json!({"kind": "lu_scaled", "cls": cls, "n": n, "a": aj, "scale_log2": e, "slice_ok": s2.is_some(), "matrix_ok": m2.is_some(),
                              "slice_is_scaled_factor": s2.as_ref().map(|(l, p)| same_bits(l, &want) && p == ps).unwrap_or(false),
                              "matrix_is_scaled_factor": m2.as_ref().map(|(l, p)| same_bits(&l.data, &want) && p == pm).unwrap_or(false)}));
            }
            let d1 = guard(|| am.det());
            let d2 = guard(|| lum.lu_det(pm));
            for (name, d) in [("Matrix::det", d1), ("Matrix::lu_det", d2)] {
                match d {
                    // residual relative to Hadamard's bound (a singular matrix has determinant exactly 0, computed as ~1e-16)
                    Some(d) => { let had: f64 = (0..n).map(|i| a[i * n..(i + 1) * n].iter().map(|v| v * v).sum::<f64>().sqrt()).product();
                                 t.emit(json!({"kind": "det", "cls": cls, "call": name, "n": n, "a": aj, "out": "ok", "det": projr_scaled_by(d, 4096, had)})) }
                    None => t.emit(json!({"kind": "det", "cls": cls, "call": name, "n": n, "a": aj, "out": "panic", "det": projr(0.0, 1)})),
                }
            }
        }
        _ => t.emit(json!({"kind": "lu", "cls": cls, "n": n, "a": aj, "out": "panic", "lu": [], "piv": [], "same": false})),
    }
    if is_sym(a, n) {
        let cs = guard(|| cholesky(a));
        let cm = guard(|| am.cholesky());
        if spd {
            match (&cs, &cm) {
                (Some(ls), Some(lm)) => {
                    // the factor may be irrational (sqrt 2): the reconstruction L L^T is logged as an observation
                    let llt = matmul(ls, ls, n, n, false, true);
                    t.emit(json!({"kind": "chol", "cls": cls, "n": n, "a": aj, "out": "ok", "l": projrs_scaled(ls, 4096),
                                  "llt": projrs_scaled(&llt, 64), "same": same_bits(ls, &lm.data)}))
                }
                _ => t.emit(json!({"kind": "chol", "cls": cls, "n": n, "a": aj, "out": "panic", "l": [], "llt": [], "same": false})),
            }
            // the same matrix in other units: A 2^(2e) has the factor L 2^e, bit for bit, at slice and Matrix level (e = -40, 30 and, far from unit scale, -300, 280)
            if let Some(ls) = &cs {
                for e in [-40i32, 30, -300, 280] {
                    let a2: Vec<f64> = a.iter().map(|v| v * 2f64.powi(2 * e)).collect();
                    let am2 = mk(Vector::new(a2.clone()), n, n);
                    let c2 = guard(|| cholesky(&a2));
                    let m2 = guard(|| am2.cholesky());
                    let want: Vec<f64> = ls.iter().map(|v| v * 2f64.powi(e)).collect();
                    t.emit(json!({"kind": "chol_scaled", "cls": cls, "n": n, "a": aj, "scale_log2": 2 * e, "slice_ok": c2.is_some(), "matrix_ok": m2.is_some(),
                                  "slice_is_scaled_factor": c2.as_ref().map(|l| same_bits(l, &want)).unwrap_or(false),
                                  "matrix_is_scaled_factor": m2.as_ref().map(|l| same_bits(&l.data, &want)).unwrap_or(false)}));
                }
            }
            // symmetric up to the last bit: one entry above (then below) the diagonal moved by one ulp - still symmetric by the code's own
            // relative test. Which triangle is read is part of the contract shared by the two levels (LSpec: Chol reads a[i][j], j <= i):
            // the slice-level and the Matrix-level routine agree on acceptance and return the same factor, bit for bit
            if n >= 2 {
                for (r, cidx, tag) in [(0usize, n - 1, "upper"), (n - 1, 0usize, "lower"), (0, 1, "upper"), (1, 0, "lower")] {
                    let mut a2 = a.to_vec();
                    let e = a2[r * n + cidx];
                    if e == 0.0 || !e.is_finite() { continue; }
                    a2[r * n + cidx] = f64::from_bits(e.to_bits() + 1);
                    let am2 = mk(Vector::new(a2.clone()), n, n);
                    let c2 = guard(|| cholesky(&a2));
                    let m2 = guard(|| am2.cholesky());
                    t.emit(json!({"kind": "chol_nearsym", "cls": cls, "call": tag, "n": n, "a": aj, "moved": [r, cidx], "slice_ok": c2.is_some(), "matrix_ok": m2.is_some(),
                                  "same": match (&c2, &m2) { (Some(l), Some(m)) => same_bits(l, &m.data), (None, None) => true, _ => false }}));
                }
            }
        } else {
            // not positive definite: must be rejected, never a (non-finite) factor
            let fac = |l: &Option<Vec<f64>>| match l { Some(l) => (projrs_scaled(l, 4096), projrs_scaled(&matmul(l, l, n, n, false, true), 64)), None => (json!([]), json!([])) };
            let (l1, llt1) = fac(&cs);
            let (l2, llt2) = fac(&cm.as_ref().map(|m| m.data.to_vec()));
            t.emit(json!({"kind": "reject", "cls": cls, "call": "cholesky (slice)", "n": n, "a": aj, "out": if cs.is_none() { "panic" } else { "ok" }, "l": l1, "llt": llt1}));
            t.emit(json!({"kind": "reject", "cls": cls, "call": "Matrix::cholesky", "n": n, "a": aj, "out": if cm.is_none() { "panic" } else { "ok" }, "l": l2, "llt": llt2}));
        }
    }
}

fn tri_events(t: &mut TraceOut, rng: &mut Lcg, n: usize) {
    // integer lower / upper triangular systems with planted integer solution
    let mut l = vec![0.0; n * n];
    for i in 0..n { for j in 0..=i { l[i * n + j] = if i == j { [1.0, -1.0, 2.0, -2.0][rng.below(4) as usize] } else { rng.range(-3, 3) as f64 }; } }
    let u = transpose(&l, n);
    let x: Vec<f64> = (0..n).map(|_| rng.range(-5, 5) as f64 * 2.0).collect();
    let bl = matmul(&l, &x, n, n, false, false);
    let bu = matmul(&u, &x, n, n, false, false);
    let lm = mk(Vector::new(l.clone()), n, n);
    let um = mk(Vector::new(u.clone()), n, n);
    let runs: Vec<(&str, &Vec<f64>, &Vec<f64>, Option<Vec<f64>>)> = vec![
        ("forward_substitution (slice)", &l, &bl, guard(|| forward_substitution(&l, &bl))),
        ("Matrix::forward_substitution", &l, &bl, guard(|| lm.forward_substitution(&bl).to_vec())),
        ("backward_substitution (slice)", &u, &bu, guard(|| backward_substitution(&u, &bu))),
        ("Matrix::backward_substitution", &u, &bu, guard(|| um.backward_substitution(&bu).to_vec())),
    ];
    for (name, tm, b, got) in runs {
        match got {
            Some(g) => t.emit(json!({"kind": "tri", "call": name, "n": n, "a": projs(tm, 1), "b": projs(b, 1), "out": "ok", "x": projrs_scaled(&g, 64)})),
            None => t.emit(json!({"kind": "tri", "call": name, "n": n, "a": projs(tm, 1), "b": projs(b, 1), "out": "panic", "x": []})),
        }
    }
    // lu_solve / cholesky_solve at slice and Matrix level: A = L L^T (SPD, integer), b = A x
    let a = matmul(&l, &u, n, n, false, false);
    let b = matmul(&a, &x, n, n, false, false);
    let am = mk(Vector::new(a.clone()), n, n);
    let bv = Vector::new(b.clone());
    let runs2: Vec<(&str, Option<Vec<f64>>)> = vec![
        ("lu + lu_solve (slice)", guard(|| { let (f, p) = lu(&a); lu_solve(&f, &p, &b) })),
        ("Matrix::lu + lu_solve(&Vector)", guard(|| { let (f, p) = am.lu(); f.lu_solve(&p, &bv).to_vec() })),
        ("cholesky + cholesky_solve (slice)", guard(|| { let f = cholesky(&a); cholesky_solve(&f, &b) })),
        ("Matrix::cholesky + cholesky_solve(&Vector)", guard(|| { let f = am.cholesky(); f.cholesky_solve(&bv).to_vec() })),
    ];
    for (name, got) in runs2 {
        match got {
            Some(g) => t.emit(json!({"kind": "tri", "call": name, "n": n, "a": projs(&a, 1), "b": projs(&b, 1), "out": "ok", "x": projrs_scaled(&g, 64)})),
            None => t.emit(json!({"kind": "tri", "call": name, "n": n, "a": projs(&a, 1), "b": projs(&b, 1), "out": "panic", "x": []})),
        }
    }
}

/// Inputs: every matrix TLC enumerated (cases file) + random integer matrices of order <= 4.
pub fn record(cases: &str, seed: u64, nrand: usize, out: &str) {
    let mut t = TraceOut::new(out);
    for_each_line(cases, |c| {
        let n = c["n"].as_u64().unwrap() as usize;
        let a = f64s(&c["a"]);
        let cls = c["cls"].as_str().unwrap();
        emit_for(&mut t, &a, n, cls, cls == "spd");
    });
    let mut rng = Lcg::new(seed);
    for k in 0..nrand {
        let n = rng.range(1, 4) as usize;
        tri_events(&mut t, &mut rng, n);
        // random small integer matrices (entries +-3); SPD as L0 L0^T with |L0| <= 2
        if k % 5 == 4 && n >= 2 {
            // symmetric with positive diagonal; sometimes two equal rows/columns (singular, possibly indefinite)
            let mut a = vec![0.0; n * n];
            for i in 0..n { for j in i..n { let v = if i == j { rng.range(1, 3) as f64 } else { rng.range(-2, 2) as f64 }; a[i * n + j] = v; a[j * n + i] = v; } }
            if rng.below(2) == 0 {
                // make rows (and columns) 0 and 1 equal, keeping symmetry
                for j in 2..n { a[n + j] = a[j]; a[j * n + 1] = a[j * n]; }
                a[1] = a[0]; a[n] = a[0]; a[n + 1] = a[0];
            }
            emit_for(&mut t, &a, n, "random-symmetric", false);
        } else if k % 2 == 0 {
            let a: Vec<f64> = (0..n * n).map(|_| rng.range(-3, 3) as f64).collect();
            let sym = is_sym(&a, n);
            if !sym { emit_for(&mut t, &a, n, "random", false); }
        } else {
            let mut l0 = vec![0.0; n * n];
            for i in 0..n { for j in 0..=i { l0[i * n + j] = if i == j { rng.range(1, 2) as f64 } else { rng.range(-2, 2) as f64 }; } }
            let a = matmul(&l0, &l0, n, n, false, true);
            emit_for(&mut t, &a, n, "random-spd", true);
        }
    }
    let _ = Value::Null;
    t.finish();
}
