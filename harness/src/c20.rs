//! C20: covariance kernels (spec/Kernels.tla).
use crate::common::*;
use compute::prelude::*;
use serde_json::{json, Value};

fn close(g: f64, e: f64) -> bool {
    g.is_finite() && (g - e).abs() <= 2f64.powi(-40) * e.abs().max(1e-300)
}

/// the four container forms of the matrix kernel
fn gram_forms<K>(k: &K, x: &[f64], y: &[f64]) -> Vec<(&'static str, Option<Matrix>)>
where K: Kernel<Vector, Matrix> + for<'a> Kernel<&'a Vector, Matrix> + Kernel<Matrix, Matrix> + for<'a> Kernel<&'a Matrix, Matrix> {
    let (vx, vy) = (Vector::new(x.to_vec()), Vector::new(y.to_vec()));
    // matrices of points in a non-trivial shape when the count allows it
    let shape = |n: usize| if n % 2 == 0 && n > 0 { (2, n / 2) } else { (1, n) };
    let (sx, sy) = (shape(x.len()), shape(y.len()));
    let (mx, my) = (mk(vx.clone(), sx.0, sx.1), mk(vy.clone(), sy.0, sy.1));
    vec![
        ("Vector", guard(|| <K as Kernel<Vector, Matrix>>::forward(k, vx.clone(), vy.clone()))),
        ("&Vector", guard(|| <K as Kernel<&Vector, Matrix>>::forward(k, &vx, &vy))),
        ("Matrix", guard(|| <K as Kernel<Matrix, Matrix>>::forward(k, mx.clone(), my.clone()))),
        ("&Matrix", guard(|| <K as Kernel<&Matrix, Matrix>>::forward(k, &mx, &my))),
    ]
}

fn judge_gram(v: &mut Verdicts, name: &str, class: &str, c: &Value, forms: Vec<(&'static str, Option<Matrix>)>, exp: &[f64], nx: usize, ny: usize, var: f64) {
    for (form, g) in forms {
        let ok = g.as_ref().map(|m| m.nrows == nx && m.ncols == ny && m.data.len() == nx * ny
            && m.data.iter().zip(exp).all(|(a, b)| close(*a, *b)) && m.data.iter().all(|a| *a <= var * (1.0 + 2f64.powi(-40)))).unwrap_or(false);
        v.check(ok, &format!("{} matrix-form {}", name, form), class, c, json!(g.as_ref().map(|m| json!({"shape": [m.nrows, m.ncols], "data": fjs(&m.data)}))));
    }
}

pub fn replay(cases: &str, verdicts: &str) {
    let mut v = Verdicts::new(verdicts, "C20");
    for_each_line(cases, |c| {
        v.cases += 1;
        if v.cases % 200 == 1 { v.sample(c.clone()); }
        let var = num(&c["v"]);
        let alpha = num(&c["alpha"]);
        let l = num(&c["l"]);
        let rq = guard(|| RQKernel::new(var, alpha, l)).expect("valid parameters");
        let rbf = guard(|| RBFKernel::new(var, l)).expect("valid parameters");
        if c["fam"] == "scalar" {
            // axioms on a sorted distance grid (incl. large magnitudes), both kernels, by value and by reference
            // distances: a fine grid in units of the length scale (any shortcut for small distances shows as a jump),
            // then coarser and far out
            let ds: Vec<f64> = (0..=128).map(|k| k as f64 / 256.0 * l).chain((5..=64).map(|k| k as f64 / 8.0 * l.max(1.0))).chain([16.0 * l.max(1.0), 100.0 * l.max(1.0), 1e3, 2e3]).collect();
            let mut ds = ds; ds.sort_by(|a, b| a.partial_cmp(b).unwrap()); ds.dedup();
            for base in [0.0, -3.5, 999.0, -1000.0] {
                let mut prev_rq = f64::INFINITY; let mut prev_rbf = f64::INFINITY;
                let (mut mono, mut le, mut pos, mut sym, mut refeq) = (true, true, true, true, true);
                let mut worst = json!(null);
                for d in ds.iter() {
                    let (x, y) = (base, base + d);
                    let a = <RQKernel as Kernel<f64, f64>>::forward(&rq, x, y);
                    let b = <RBFKernel as Kernel<f64, f64>>::forward(&rbf, x, y);
                    if !(a <= prev_rq && b <= prev_rbf) { mono = false; worst = json!({"x": x, "y": y, "rq": a, "rbf": b}); }
                    if !(a <= var && b <= var) { le = false; worst = json!({"x": x, "y": y, "rq": a, "rbf": b}); }
                    let t = d * d / (2.0 * l * l);
                    // positivity is judged where the true value is representable (it underflows to 0 far out)
                    let rq_log = -alpha * (1.0 + t / alpha).ln();
                    if !((a > 0.0 || rq_log < -700.0) && (b > 0.0 || t > 700.0)) { pos = false; worst = json!({"x": x, "y": y, "rq": a, "rbf": b}); }
                    if a.to_bits() != <RQKernel as Kernel<f64, f64>>::forward(&rq, y, x).to_bits() || b.to_bits() != <RBFKernel as Kernel<f64, f64>>::forward(&rbf, y, x).to_bits() { sym = false; }
                    if a.to_bits() != <RQKernel as Kernel<&f64, f64>>::forward(&rq, &x, &y).to_bits() || b.to_bits() != <RBFKernel as Kernel<&f64, f64>>::forward(&rbf, &x, &y).to_bits() { refeq = false; }
                    prev_rq = a; prev_rbf = b;
                }
                let cls = if base.abs() > 100.0 { "large-magnitude" } else { "moderate" };
                v.check(mono, "scalar non-increasing", cls, &c, worst.clone());
                v.check(le, "scalar <= variance", cls, &c, worst.clone());
                v.check(pos, "scalar positive", cls, &c, worst.clone());
                v.check(sym, "scalar symmetric", cls, &c, json!(null));
                v.check(refeq, "scalar by-reference", cls, &c, json!(null));
                let z_rq = <RQKernel as Kernel<f64, f64>>::forward(&rq, base, base);
                let z_rbf = <RBFKernel as Kernel<f64, f64>>::forward(&rbf, base, base);
                v.check(z_rq == var && z_rbf == var, "scalar zero-distance", cls, &c, json!([z_rq, z_rbf]));
            }
            // matrix form on nearby points of large magnitude with this length scale equals the scalar form
            // ... and on moderately close points (a tenth of the length scale apart)
            let xs = [1000.1, 1000.1 + 1e-5, -999.5, 0.25, 1000.1, 0.25 + 0.1 * l, 7.0];
            let ys = [1000.1, -999.5 + 2e-6, 3.0, 0.25 + 0.05 * l, 7.0 + 0.013 * l];
            let e_rq: Vec<f64> = xs.iter().flat_map(|x| ys.iter().map(move |y| (*x, *y))).map(|(x, y)| <RQKernel as Kernel<f64, f64>>::forward(&rq, x, y)).collect();
            let e_rbf: Vec<f64> = xs.iter().flat_map(|x| ys.iter().map(move |y| (*x, *y))).map(|(x, y)| <RBFKernel as Kernel<f64, f64>>::forward(&rbf, x, y)).collect();
            let lc = if l < 0.6 { "short-length-scale" } else { "long-length-scale" };
            for (form, g) in gram_forms(&rq, &xs, &ys) {
                let ok = g.as_ref().map(|m| m.nrows == xs.len() && m.ncols == ys.len() && m.data.iter().zip(&e_rq).all(|(a, b)| (a - b).abs() <= 1e-9 * var) && m.data.iter().all(|a| *a <= var)).unwrap_or(false);
                v.check(ok, &format!("RQ matrix-form {}", form), &format!("large-magnitude-nearby {}", lc), &c, json!(g.as_ref().map(|m| fjs(&m.data))));
            }
            for (form, g) in gram_forms(&rbf, &xs, &ys) {
                let ok = g.as_ref().map(|m| m.nrows == xs.len() && m.ncols == ys.len() && m.data.iter().zip(&e_rbf).all(|(a, b)| (a - b).abs() <= 1e-9 * var) && m.data.iter().all(|a| *a <= var)).unwrap_or(false);
                v.check(ok, &format!("RBF matrix-form {}", form), &format!("large-magnitude-nearby {}", lc), &c, json!(g.as_ref().map(|m| fjs(&m.data))));
            }
            // large point sets (53 x 47 = 2491 entries, not a multiple of any power-of-two block; and 64 x 64): the matrix form is the
            // scalar form at every entry, in all four containers - spread over a few length scales so that the values are not flat
            for (nx, ny) in [(53usize, 47usize), (64, 64), (1, 2500)] {
                let px: Vec<f64> = (0..nx).map(|i| -1.0 + 0.11 * l * i as f64).collect();
                let py: Vec<f64> = (0..ny).map(|j| 0.3 * l - 0.07 * l * (j % 97) as f64).collect();
                let e_rq: Vec<f64> = px.iter().flat_map(|x| py.iter().map(move |y| (*x, *y))).map(|(x, y)| <RQKernel as Kernel<f64, f64>>::forward(&rq, x, y)).collect();
                let e_rbf: Vec<f64> = px.iter().flat_map(|x| py.iter().map(move |y| (*x, *y))).map(|(x, y)| <RBFKernel as Kernel<f64, f64>>::forward(&rbf, x, y)).collect();
                for (kname, forms, e) in [("RQ", gram_forms(&rq, &px, &py), &e_rq), ("RBF", gram_forms(&rbf, &px, &py), &e_rbf)] {
                    for (form, g) in forms {
                        let bad = g.as_ref().map(|m| if m.nrows != nx || m.ncols != ny || m.data.len() != nx * ny { 0 } else { m.data.iter().zip(e.iter()).position(|(a, b)| !((a - b).abs() <= 1e-9 * var)).map(|p| p as i64).unwrap_or(-1) }).unwrap_or(0);
                        v.check(bad == -1, &format!("{} matrix-form {}", kname, form), &format!("large-point-sets {}x{}", nx, ny), &json!({"case": c, "nx": nx, "ny": ny}), json!({"first_bad_entry": bad}));
                    }
                }
            }
            // parameter validation
            for (bv, ba, bl) in [(0.0, 1.0, 1.0), (-1.0, 1.0, 1.0), (1.0, 0.0, 1.0), (1.0, 1.0, 0.0), (1.0, 1.0, -2.0)] {
                let g = guard(|| { RQKernel::new(bv, ba, bl); });
                v.check(g.is_none(), "RQKernel::new", "invalid-parameter", &json!([bv, ba, bl]), json!(g.is_some()));
                if ba == 1.0 { let g = guard(|| { RBFKernel::new(bv, bl); }); v.check(g.is_none(), "RBFKernel::new", "invalid-parameter", &json!([bv, bl]), json!(g.is_some())); }
            }
            return;
        }
        let x = f64s(&c["X"]);
        let y = f64s(&c["Y"]);
        let e_rq = f64s(&c["rq"]);
        let e_rbf: Vec<f64> = f64s(&c["rbf_t"]).iter().map(|t| (-t).exp() * var).collect();
        let class = format!("alpha{} points{}", alpha, x.len());
        // scalar form entry by entry
        let mut ok_rq = true; let mut ok_rbf = true; let mut worst = json!(null);
        for (i, xi) in x.iter().enumerate() { for (j, yj) in y.iter().enumerate() {
            let a = <RQKernel as Kernel<f64, f64>>::forward(&rq, *xi, *yj);
            let b = <RBFKernel as Kernel<f64, f64>>::forward(&rbf, *xi, *yj);
            if !close(a, e_rq[i * y.len() + j]) { ok_rq = false; worst = json!({"x": xi, "y": yj, "got": a, "exp": e_rq[i * y.len() + j]}); }
            if !close(b, e_rbf[i * y.len() + j]) { ok_rbf = false; worst = json!({"x": xi, "y": yj, "got": b, "exp": e_rbf[i * y.len() + j]}); }
        } }
        v.check(ok_rq, "RQ scalar-form", &class, &c, worst.clone());
        v.check(ok_rbf, "RBF scalar-form", &class, &c, worst.clone());
        judge_gram(&mut v, "RQ", &class, &c, gram_forms(&rq, &x, &y), &e_rq, x.len(), y.len(), var);
        judge_gram(&mut v, "RBF", &class, &c, gram_forms(&rbf, &x, &y), &e_rbf, x.len(), y.len(), var);
        // two DIFFERENT point sets of EQUAL size (square but not a Gram matrix): y' = the first |X| points of Y
        let yq = &y[..x.len()];
        let sub = |e: &[f64]| -> Vec<f64> { (0..x.len()).flat_map(|i| e[i * y.len()..i * y.len() + x.len()].to_vec()).collect() };
        judge_gram(&mut v, "RQ", &format!("{} equal-size-sets", class), &c, gram_forms(&rq, &x, yq), &sub(&e_rq), x.len(), x.len(), var);
        judge_gram(&mut v, "RBF", &format!("{} equal-size-sets", class), &c, gram_forms(&rbf, &x, yq), &sub(&e_rbf), x.len(), x.len(), var);
        // every leading sub-rectangle: the first kx points of X against the first ky points of Y - a single point against a set
        // (either side) is a column / a row of the table, not a special case
        for kx in 1..=x.len() { for ky in 1..=y.len() {
            if (kx, ky) == (x.len(), y.len()) || (kx > 1 && ky > 1 && kx != ky + 1 && !(kx == x.len() && ky == 2)) { continue; }
            let subr = |e: &[f64]| -> Vec<f64> { (0..kx).flat_map(|i| e[i * y.len()..i * y.len() + ky].to_vec()).collect() };
            let cl = format!("{} {}", class, if kx == 1 && ky == 1 { "point-vs-point" } else if ky == 1 { "set-vs-point" } else if kx == 1 { "point-vs-set" } else { "sub-rectangle" });
            judge_gram(&mut v, "RQ", &cl, &c, gram_forms(&rq, &x[..kx], &y[..ky]), &subr(&e_rq), kx, ky, var);
            judge_gram(&mut v, "RBF", &cl, &c, gram_forms(&rbf, &x[..kx], &y[..ky]), &subr(&e_rbf), kx, ky, var);
        } }
        // a sequence of calls on permuted point sets (no state may survive between calls): reversed first argument = reversed rows
        {
            let xr: Vec<f64> = x.iter().rev().cloned().collect();
            let rev_rows = |e: &[f64]| -> Vec<f64> { (0..x.len()).rev().flat_map(|i| e[i * y.len()..(i + 1) * y.len()].to_vec()).collect() };
            let _warm = gram_forms(&rq, &x, &y);
            judge_gram(&mut v, "RQ", &format!("{} after-permuted-call", class), &c, gram_forms(&rq, &xr, &y), &rev_rows(&e_rq), x.len(), y.len(), var);
            let _warm = gram_forms(&rbf, &x, &y);
            judge_gram(&mut v, "RBF", &format!("{} after-permuted-call", class), &c, gram_forms(&rbf, &xr, &y), &rev_rows(&e_rbf), x.len(), y.len(), var);
        }
        // Gram matrix of one point set with itself: symmetric bit for bit, diagonal = variance
        for (form, g) in gram_forms(&rq, &x, &x).into_iter().chain(gram_forms(&rbf, &x, &x)) {
            let n = x.len();
            let ok = g.as_ref().map(|m| m.nrows == n && m.ncols == n && (0..n).all(|i| m.data[i * n + i] == var && (0..n).all(|j| m.data[i * n + j].to_bits() == m.data[j * n + i].to_bits()))).unwrap_or(false);
            v.check(ok, &format!("Gram symmetric {}", form), &class, &c, json!(g.as_ref().map(|m| fjs(&m.data))));
        }
    });
    v.finish();
}
