//! C04: element-wise arithmetic, maps and reductions (spec/Elementwise.tla).
use crate::common::*;
use compute::prelude::*;
use serde_json::{json, Value};

const SPECIALS: [f64; 12] = [0.0, -0.0, f64::INFINITY, f64::NEG_INFINITY, f64::NAN, 5e-324, -1.1125369292536007e-308,
    1.0, -1.5, 1e308, 3.0, 0.1];

fn lenclass(n: usize) -> &'static str {
    if n == 0 { "n=0" } else if n < 8 { "n<8" } else if n % 8 == 0 { "n%8=0" } else { "n>8,n%8!=0" }
}
fn same_bits(a: &[f64], b: &[f64]) -> bool {
    a.len() == b.len() && a.iter().zip(b).all(|(x, y)| x.to_bits() == y.to_bits() || (x.is_nan() && y.is_nan()))
}
fn sc(op: &str, x: f64, y: f64) -> f64 {
    match op { "add" => x + y, "sub" => x - y, "mul" => x * y, _ => x / y }
}

macro_rules! bin {
    ($op:expr, $a:expr, $b:expr) => {
        match $op { "add" => $a + $b, "sub" => $a - $b, "mul" => $a * $b, _ => $a / $b }
    };
}
macro_rules! assign {
    ($op:expr, $a:expr, $b:expr) => {
        match $op { "add" => $a += $b, "sub" => $a -= $b, "mul" => $a *= $b, _ => $a /= $b }
    };
}

/// All ownership variants of one (container, form): returns (variant name, result data or None on panic,
/// shape if a matrix, operands-unchanged flag).
fn run_forms(cont: &str, form: &str, op: &str, l: &[f64], r: &[f64], s: f64, shape: (usize, usize), rshape: (usize, usize))
    -> Vec<(String, Option<(Vec<f64>, (usize, usize))>, bool)> {
    let mut out = vec![];
    if cont == "Vector" {
        let a = Vector::new(l.to_vec());
        let b = Vector::new(r.to_vec());
        let keep = |a2: &Vector, b2: &Vector| same_bits(a2, l) && same_bits(b2, r);
        let pack = |v: Option<Vector>| v.map(|v| { let n = v.len(); (v.to_vec(), (1, n)) });
        match form {
            "vv" => {
                out.push(("own.own".into(), pack(guard(|| bin!(op, a.clone(), b.clone()))), true));
                out.push(("ref.ref".into(), pack(guard(|| bin!(op, &a, &b))), keep(&a, &b)));
                out.push(("own.ref".into(), pack(guard(|| bin!(op, a.clone(), &b))), keep(&a, &b)));
                out.push(("ref.own".into(), pack(guard(|| bin!(op, &a, b.clone()))), keep(&a, &b)));
            }
            "vs" => {
                out.push(("own".into(), pack(guard(|| bin!(op, a.clone(), s))), true));
                out.push(("ref".into(), pack(guard(|| bin!(op, &a, s))), keep(&a, &b)));
            }
            "sv" => {
                out.push(("own".into(), pack(guard(|| bin!(op, s, a.clone()))), true));
                out.push(("ref".into(), pack(guard(|| bin!(op, s, &a))), keep(&a, &b)));
            }
            "assign_vv" => {
                out.push(("rhs-own".into(), pack(guard(|| { let mut x = a.clone(); assign!(op, x, b.clone()); x })), true));
                out.push(("rhs-ref".into(), pack(guard(|| { let mut x = a.clone(); assign!(op, x, &b); x })), keep(&a, &b)));
            }
            _ => {
                out.push(("scalar".into(), pack(guard(|| { let mut x = a.clone(); assign!(op, x, s); x })), true));
            }
        }
    } else {
        let a = mk(Vector::new(l.to_vec()), shape.0, shape.1);
        let b = mk(Vector::new(r.to_vec()), rshape.0, rshape.1);
        let keep = |a2: &Matrix, b2: &Matrix| same_bits(&a2.data, l) && same_bits(&b2.data, r) && a2.nrows == shape.0 && b2.ncols == rshape.1;
        let pack = |v: Option<Matrix>| v.map(|m| (m.data.to_vec(), (m.nrows, m.ncols)));
        match form {
            "vv" => {
                out.push(("own.own".into(), pack(guard(|| bin!(op, a.clone(), b.clone()))), true));
                out.push(("ref.ref".into(), pack(guard(|| bin!(op, &a, &b))), keep(&a, &b)));
                out.push(("own.ref".into(), pack(guard(|| bin!(op, a.clone(), &b))), keep(&a, &b)));
                out.push(("ref.own".into(), pack(guard(|| bin!(op, &a, b.clone()))), keep(&a, &b)));
            }
            "vs" => {
                out.push(("own".into(), pack(guard(|| bin!(op, a.clone(), s))), true));
                out.push(("ref".into(), pack(guard(|| bin!(op, &a, s))), keep(&a, &b)));
            }
            "sv" => {
                out.push(("own".into(), pack(guard(|| bin!(op, s, a.clone()))), true));
                out.push(("ref".into(), pack(guard(|| bin!(op, s, &a))), keep(&a, &b)));
            }
            "assign_vv" => {
                out.push(("rhs-own".into(), pack(guard(|| { let mut x = a.clone(); assign!(op, x, b.clone()); x })), true));
                out.push(("rhs-ref".into(), pack(guard(|| { let mut x = a.clone(); assign!(op, x, &b); x })), keep(&a, &b)));
            }
            _ => {
                out.push(("scalar".into(), pack(guard(|| { let mut x = a.clone(); assign!(op, x, s); x })), true));
            }
        }
    }
    out
}

fn unary_names() -> Vec<&'static str> {
    vec!["ln", "ln_1p", "log10", "log2", "exp", "exp2", "exp_m1", "sin", "cos", "tan", "sinh", "cosh", "tanh", "asin", "acos",
         "atan", "asinh", "acosh", "atanh", "sqrt", "cbrt", "abs", "floor", "ceil", "to_radians", "to_degrees", "recip", "round", "signum"]
}
macro_rules! un {
    ($name:expr, $x:expr) => {
        match $name {
            "ln" => $x.ln(), "ln_1p" => $x.ln_1p(), "log10" => $x.log10(), "log2" => $x.log2(), "exp" => $x.exp(), "exp2" => $x.exp2(),
            "exp_m1" => $x.exp_m1(), "sin" => $x.sin(), "cos" => $x.cos(), "tan" => $x.tan(), "sinh" => $x.sinh(), "cosh" => $x.cosh(),
            "tanh" => $x.tanh(), "asin" => $x.asin(), "acos" => $x.acos(), "atan" => $x.atan(), "asinh" => $x.asinh(), "acosh" => $x.acosh(),
            "atanh" => $x.atanh(), "sqrt" => $x.sqrt(), "cbrt" => $x.cbrt(), "abs" => $x.abs(), "floor" => $x.floor(), "ceil" => $x.ceil(),
            "to_radians" => $x.to_radians(), "to_degrees" => $x.to_degrees(), "recip" => $x.recip(), "round" => $x.round(),
            "signum" => $x.signum(), _ => panic!("unary {}", $name),
        }
    };
}

pub fn replay(cases: &str, verdicts: &str) {
    let mut v = Verdicts::new(verdicts, "C04");
    for_each_line(cases, |c| {
        v.cases += 1;
        let fam = c["fam"].as_str().unwrap();
        let n = c["n"].as_u64().unwrap() as usize;
        let lc = lenclass(n);
        if v.cases % 150 == 2 {
            v.sample(c.clone());
        }
        match fam {
            "binary" => {
                let (l, r, s) = (f64s(&c["l"]), f64s(&c["r"]), num(&c["s"]));
                let op = c["op"].as_str().unwrap();
                let form = c["form"].as_str().unwrap();
                let exp_panic = c["panic"].as_bool().unwrap();
                let exp = f64s(&c["exp"]);
                let mut conts: Vec<(&str, (usize, usize), (usize, usize), bool, Vec<f64>)> = vec![("Vector", (1, n), (1, r.len()), exp_panic, r.clone())];
                for sh in c["shapes"].as_array().unwrap() {
                    let sh = ints(sh);
                    let (rr, cc) = (sh[0] as usize, sh[1] as usize);
                    if r.len() == n {
                        conts.push(("Matrix", (rr, cc), (rr, cc), false, r.clone()));
                        // same size, different shape: shapes must agree
                        if rr != cc && form == "assign_vv" {
                            conts.push(("Matrix", (rr, cc), (cc, rr), true, r.clone()));
                        }
                    } else if form == "assign_vv" {
                        conts.push(("Matrix", (rr, cc), (1, r.len()), true, r.clone()));
                    }
                }
                for (cont, shape, rshape, want_panic, rdat) in conts {
                    for (variant, got, kept) in run_forms(cont, form, op, &l, &rdat, s, shape, rshape) {
                        let ok = match (&got, want_panic) {
                            (None, true) => true,
                            (Some((d, sh)), false) => all_eq(d, &exp) && d.len() == n && (cont == "Vector" || *sh == shape) && kept,
                            _ => false,
                        };
                        let class = format!("{} {} {} {}", op, lc, if want_panic { if rshape.0 * rshape.1 == n { "shape-mismatch" } else { "len-mismatch" } } else { "ok" },
                                            if cont == "Matrix" { if shape.0 == 1 || shape.1 == 1 { "line" } else { "2d" } } else { "" });
                        let obs = json!({"got": got.as_ref().map(|(d, sh)| json!({"data": fjs(d), "shape": [sh.0, sh.1]})), "operands_unchanged": kept,
                                         "lhs_shape": [shape.0, shape.1], "rhs_shape": [rshape.0, rshape.1]});
                        v.check(ok, &format!("{} {} {}", cont, form, variant), &class, &c, obs);
                    }
                }
            }
            "special" => {
                let form = c["form"].as_str().unwrap();
                let li: Vec<f64> = ints(&c["l"]).iter().map(|i| SPECIALS[*i as usize]).collect();
                let ri: Vec<f64> = ints(&c["r"]).iter().map(|i| SPECIALS[*i as usize]).collect();
                let s = SPECIALS[c["s"].as_i64().unwrap() as usize];
                let pairs: Vec<Vec<i64>> = c["exp"].as_array().unwrap().iter().map(ints).collect();
                for op in ["add", "sub", "mul", "div"] {
                    let exp: Vec<f64> = pairs.iter().map(|p| sc(op, SPECIALS[p[0] as usize], SPECIALS[p[1] as usize])).collect();
                    for cont in ["Vector", "Matrix"] {
                        if cont == "Matrix" && n == 0 { continue; }
                        let shape = if n % 2 == 0 && n > 0 { (2, n / 2) } else { (1, n) };
                        for (variant, got, kept) in run_forms(cont, form, op, &li, &ri, s, shape, shape) {
                            let ok = match &got { Some((d, _)) => same_bits(d, &exp) && kept, None => false };
                            v.check(ok, &format!("{} {} {}", cont, form, variant), &format!("{} {} special-values", op, lc), &c,
                                    json!(got.as_ref().map(|(d, _)| fjs(d))));
                        }
                    }
                }
            }
            "quarter" => {
                // ordinary values q/4 (ties of both parities and signs among them): the integer-valued maps have the EXACT meaning the
                // spec gives (round: ties away from zero); every map is the scalar method bit for bit, in Vector and every Matrix shape
                let q = ints(&c["q"]);
                let x: Vec<f64> = q.iter().map(|t| *t as f64 / 4.0).collect();
                let vx = Vector::new(x.clone());
                let shapes: Vec<(usize, usize)> = c["shapes"].as_array().unwrap().iter().map(|s| { let s = ints(s); (s[0] as usize, s[1] as usize) }).collect();
                for (name, key) in [("floor", "floor"), ("ceil", "ceil"), ("round", "round"), ("signum", "signum"), ("abs", "abs4")] {
                    let exp: Vec<f64> = ints(&c[key]).iter().map(|t| if key == "abs4" { *t as f64 / 4.0 } else { *t as f64 }).collect();
                    let g = guard(|| un!(name, vx).to_vec());
                    let ok = g.as_ref().map(|d| d.len() == exp.len() && d.iter().zip(&exp).all(|(a, b)| a == b)).unwrap_or(false);
                    v.check(ok, &format!("Vector.{} on quarters (exact meaning)", name), lc, &c, json!(g.as_ref().map(|d| fjs(d))));
                    if let Some(sh) = shapes.last() {
                        let m = mk(vx.clone(), sh.0, sh.1);
                        let g = guard(|| un!(name, m));
                        let ok = g.as_ref().map(|r| r.data.len() == exp.len() && r.data.iter().zip(&exp).all(|(a, b)| a == b) && r.nrows == sh.0 && r.ncols == sh.1).unwrap_or(false);
                        v.check(ok, &format!("Matrix.{} on quarters (exact meaning)", name), lc, &c, json!(g.as_ref().map(|d| fjs(&d.data))));
                    }
                }
                for name in unary_names() {
                    let exp: Vec<f64> = x.iter().map(|t| { let t: f64 = *t; un!(name, t) }).collect();
                    let g = guard(|| un!(name, vx).to_vec());
                    v.check(g.as_ref().map(|d| same_bits(d, &exp)).unwrap_or(false) && same_bits(&vx, &x), &format!("Vector.{} on quarters", name), lc, &c, json!(g.as_ref().map(|d| fjs(d))));
                    if let Some(sh) = shapes.first() {
                        let m = mk(vx.clone(), sh.0, sh.1);
                        let g = guard(|| un!(name, m));
                        let ok = g.as_ref().map(|r| same_bits(&r.data, &exp) && r.nrows == sh.0 && r.ncols == sh.1).unwrap_or(false);
                        v.check(ok, &format!("Matrix.{} on quarters", name), lc, &c, json!(g.as_ref().map(|d| fjs(&d.data))));
                    }
                }
            }
            "unary" => {
                let x: Vec<f64> = ints(&c["x"]).iter().map(|i| SPECIALS[*i as usize]).collect();
                let vx = Vector::new(x.clone());
                let mut shapes: Vec<(usize, usize)> = c["shapes"].as_array().unwrap().iter().map(|s| { let s = ints(s); (s[0] as usize, s[1] as usize) }).collect();
                shapes.truncate(3);
                for name in unary_names() {
                    let exp: Vec<f64> = x.iter().map(|t| { let t: f64 = *t; un!(name, t) }).collect();
                    let g = guard(|| un!(name, vx).to_vec());
                    v.check(g.as_ref().map(|d| same_bits(d, &exp)).unwrap_or(false) && same_bits(&vx, &x), &format!("Vector.{}", name), lc, &c, json!(g.as_ref().map(|d| fjs(d))));
                    for sh in shapes.iter() {
                        let m = mk(vx.clone(), sh.0, sh.1);
                        let g = guard(|| un!(name, m));
                        let ok = g.as_ref().map(|r| same_bits(&r.data, &exp) && r.nrows == sh.0 && r.ncols == sh.1).unwrap_or(false);
                        v.check(ok, &format!("Matrix.{}", name), lc, &c, json!(g.as_ref().map(|d| fjs(&d.data))));
                    }
                }
                // "every length": once per run the 29 maps on a vector of 70001 elements (beyond any block / thread threshold), bit for bit
                if n == 16 {
                    let big: Vec<f64> = (0..70001).map(|i| ((i * 37 % 1001) as f64 - 500.0) / 64.0 + 0.013).collect();
                    let vb = Vector::new(big.clone());
                    for name in unary_names() {
                        let exp: Vec<f64> = big.iter().map(|t| { let t: f64 = *t; un!(name, t) }).collect();
                        let g = guard(|| un!(name, vb).to_vec());
                        let bad = g.as_ref().map(|d| if d.len() != exp.len() { 0 } else { d.iter().zip(&exp).position(|(a, b)| a.to_bits() != b.to_bits() && !(a.is_nan() && b.is_nan())).map(|p| p as i64).unwrap_or(-1) }).unwrap_or(0);
                        v.check(bad == -1, &format!("Vector.{} length 70001", name), "long", &json!({"n": 70001}), json!({"first_bad_position": bad}));
                        let m = mk(vb.clone(), 70001, 1);
                        let gm = guard(|| un!(name, m).data.to_vec());
                        let badm = gm.as_ref().map(|d| if d.len() != exp.len() { 0 } else { d.iter().zip(&exp).position(|(a, b)| a.to_bits() != b.to_bits() && !(a.is_nan() && b.is_nan())).map(|p| p as i64).unwrap_or(-1) }).unwrap_or(0);
                        v.check(badm == -1, &format!("Matrix.{} length 70001", name), "long", &json!({"n": 70001}), json!({"first_bad_position": badm}));
                    }
                }
                for k in [-1i32, 0, 1, 2, 3, 4] {
                    let exp: Vec<f64> = x.iter().map(|t| f64::powi(*t, k)).collect();
                    let g = guard(|| vx.powi(k).to_vec());
                    v.check(g.as_ref().map(|d| same_bits(d, &exp)).unwrap_or(false), &format!("Vector.powi({})", k), lc, &c, json!(g.as_ref().map(|d| fjs(d))));
                    if let Some(sh) = shapes.last() {
                        let m = mk(vx.clone(), sh.0, sh.1);
                        let g = guard(|| m.powi(k));
                        let ok = g.as_ref().map(|r| same_bits(&r.data, &exp) && r.nrows == sh.0 && r.ncols == sh.1).unwrap_or(false);
                        v.check(ok, &format!("Matrix.powi({})", k), lc, &c, json!(g.as_ref().map(|d| fjs(&d.data))));
                    }
                }
                // real exponents on operands that are not small integers (x * 1.1 + 0.3): whole-number, negative, large and
                // beyond-i32 exponents must still be the scalar powf, bit for bit
                {
                    let y: Vec<f64> = x.iter().map(|t| t * 1.1 + 0.3).collect();
                    let vy = Vector::new(y.clone());
                    for e in [3.0f64, 5.0, -2.0, -0.5, 100.0, -171.0, 3e9, 0.0] {
                        let exp: Vec<f64> = y.iter().map(|t| f64::powf(*t, e)).collect();
                        let g = guard(|| vy.powf(e).to_vec());
                        v.check(g.as_ref().map(|d| same_bits(d, &exp)).unwrap_or(false), &format!("Vector.powf({}) non-integer operands", e), lc, &c, json!(g.as_ref().map(|d| fjs(d))));
                        if let Some(sh) = shapes.last() {
                            let m = mk(vy.clone(), sh.0, sh.1);
                            let g = guard(|| m.powf(e));
                            let ok = g.as_ref().map(|r| same_bits(&r.data, &exp) && r.nrows == sh.0 && r.ncols == sh.1).unwrap_or(false);
                            v.check(ok, &format!("Matrix.powf({}) non-integer operands", e), lc, &c, json!(g.as_ref().map(|d| fjs(&d.data))));
                        }
                    }
                    // (the ends of the exponent's range are exponents like any other: x.powi(i32::MIN) is a value, not a panic)
                    for k in [-3i32, 5, 17, -1024, 1075, i32::MAX, i32::MIN + 1, i32::MIN] {
                        let exp: Vec<f64> = y.iter().map(|t| f64::powi(*t, k)).collect();
                        let g = guard(|| vy.powi(k).to_vec());
                        v.check(g.as_ref().map(|d| same_bits(d, &exp)).unwrap_or(false), &format!("Vector.powi({}) non-integer operands", k), lc, &c, json!(g.as_ref().map(|d| fjs(d))));
                    }
                }
                for e in [0.5f64, 2.0, 2.5, 3.0] {
                    let exp: Vec<f64> = x.iter().map(|t| f64::powf(*t, e)).collect();
                    let g = guard(|| vx.powf(e).to_vec());
                    v.check(g.as_ref().map(|d| same_bits(d, &exp)).unwrap_or(false), &format!("Vector.powf({})", e), lc, &c, json!(g.as_ref().map(|d| fjs(d))));
                    if let Some(sh) = shapes.last() {
                        let m = mk(vx.clone(), sh.0, sh.1);
                        let g = guard(|| m.powf(e));
                        let ok = g.as_ref().map(|r| same_bits(&r.data, &exp) && r.nrows == sh.0 && r.ncols == sh.1).unwrap_or(false);
                        v.check(ok, &format!("Matrix.powf({})", e), lc, &c, json!(g.as_ref().map(|d| fjs(&d.data))));
                    }
                }
                // negation (owned operand)
                let exp: Vec<f64> = x.iter().map(|t| -t).collect();
                let g = guard(|| (-vx.clone()).to_vec());
                v.check(g.as_ref().map(|d| same_bits(d, &exp)).unwrap_or(false), "Vector.neg", lc, &c, json!(g.as_ref().map(|d| fjs(d))));
                if let Some(sh) = shapes.last() {
                    let m = mk(vx.clone(), sh.0, sh.1);
                    let g = guard(|| -m);
                    let ok = g.as_ref().map(|r| same_bits(&r.data, &exp) && r.nrows == sh.0 && r.ncols == sh.1).unwrap_or(false);
                    v.check(ok, "Matrix.neg", lc, &c, json!(g.as_ref().map(|d| fjs(&d.data))));
                }
            }
            "reduce" => {
                let (x, y, p) = (f64s(&c["x"]), f64s(&c["y"]), f64s(&c["p"]));
                let vx = Vector::new(x.clone());
                let chk = |v: &mut Verdicts, name: &str, g: Option<f64>, e: f64| {
                    let ok = g.map(|g| g == e).unwrap_or(false);
                    v.check(ok, name, lc, &c, json!({"got": g, "expected": e}));
                };
                let es = num(&c["sum"]);
                chk(&mut v, "sum", guard(|| sum(&x)), es);
                chk(&mut v, "Vector.sum", guard(|| vx.sum()), es);
                let ep = num(&c["prod"]);
                chk(&mut v, "prod", guard(|| prod(&p)), ep);
                chk(&mut v, "Vector.prod", guard(|| Vector::new(p.clone()).prod()), ep);
                chk(&mut v, "dot", guard(|| dot(&x, &y)), num(&c["dot"]));
                let en = num(&c["sumsq"]).sqrt();
                chk(&mut v, "norm", guard(|| norm(&x)), en);
                chk(&mut v, "Vector.norm", guard(|| vx.norm()), en);
                let shapes: Vec<Vec<i64>> = c["shapes"].as_array().unwrap().iter().map(ints).collect();
                let infn = f64s(&c["infnorms"]);
                for (k, sh) in shapes.iter().enumerate() {
                    let m = mk(vx.clone(), sh[0] as usize, sh[1] as usize);
                    chk(&mut v, "inf_norm", guard(|| inf_norm(&x, sh[0] as usize)), infn[k]);
                    chk(&mut v, "Matrix.inf_norm", guard(|| m.inf_norm()), infn[k]);
                    chk(&mut v, "Matrix.sum", guard(|| m.sum()), es);
                    chk(&mut v, "Matrix.norm", guard(|| m.norm()), en);
                }
                // IEEE special values in a sum: an infinity at position k makes the sum that infinity, two infinities of opposite
                // sign or a NaN make it NaN, an overflowing partial sum of finite terms is +-inf - wherever in the vector they sit
                if n >= 1 {
                    for k in [0usize, n / 2, n - 1] {
                        for (sv, name) in [(f64::INFINITY, "+inf"), (f64::NEG_INFINITY, "-inf"), (f64::NAN, "nan")] {
                            let mut xs = x.clone(); xs[k] = sv;
                            let g = guard(|| sum(&xs));
                            let gm = guard(|| mean(&xs));
                            let ok = |g: Option<f64>| g.map(|g| if sv.is_nan() { g.is_nan() } else { g == sv }).unwrap_or(false);
                            v.check(ok(g) && ok(gm) && ok(guard(|| Vector::new(xs.clone()).sum())), "sum / mean with a special value", &format!("{} {}", lc, name), &json!({"case": c, "position": k, "value": name}), json!({"sum": g.map(fj), "mean": gm.map(fj)}));
                        }
                        if n >= 2 {
                            let mut xs = x.clone(); xs[k] = f64::INFINITY; xs[(k + 1) % n] = f64::NEG_INFINITY;
                            let g = guard(|| sum(&xs));
                            v.check(g.map(|g| g.is_nan()).unwrap_or(false), "sum with both infinities", lc, &json!({"case": c, "position": k}), json!(g.map(fj)));
                            let mut xs = x.clone(); xs[k] = f64::MAX; xs[(k + 1) % n] = f64::MAX;
                            let g = guard(|| sum(&xs));
                            v.check(g == Some(f64::INFINITY), "sum overflowing", lc, &json!({"case": c, "position": k}), json!(g.map(fj)));
                        }
                    }
                }
                if n >= 1 {
                    // log-domain reductions: constant input of any magnitude; shift identity; definition on small data
                    for cst in [-10000.0f64, -3.5, 0.0, 700.0, 10000.0] {
                        let xc = vec![cst; n];
                        chk(&mut v, "logmeanexp const", guard(|| logmeanexp(&xc)), cst);
                        chk(&mut v, "logsumexp const", guard(|| logsumexp(&xc)), (n as f64).ln() + cst);
                        chk(&mut v, "Vector.logsumexp const", guard(|| Vector::new(xc.clone()).logsumexp()), (n as f64).ln() + cst);
                    }
                    let naive = x.iter().map(|t| t.exp()).sum::<f64>().ln();
                    let g = guard(|| logsumexp(&x));
                    v.check(g.map(|g| (g - naive).abs() <= 1e-12 * naive.abs().max(1.0)).unwrap_or(false), "logsumexp definition", lc, &c, json!({"got": g, "naive": naive}));
                    let g2 = guard(|| logmeanexp(&x));
                    let naive2 = (x.iter().map(|t| t.exp()).sum::<f64>() / n as f64).ln();
                    v.check(g2.map(|g| (g - naive2).abs() <= 1e-12 * naive2.abs().max(1.0)).unwrap_or(false), "logmeanexp definition", lc, &c, json!({"got": g2, "naive": naive2}));
                    let xs: Vec<f64> = x.iter().map(|t| t + 10000.0).collect();
                    let g3 = guard(|| logsumexp(&xs));
                    v.check(match (g, g3) { (Some(a), Some(b)) => b.is_finite() && (b - a - 10000.0).abs() <= 1e-9, _ => false }, "logsumexp shift", lc, &c, json!({"base": g, "shifted": g3}));
                }
            }
            _ => panic!("family {}", fam),
        }
    });
    v.finish();
}

/// P3: random lengths up to `maxlen`, random integer operands, random form/operator/container/variant.
pub fn record(seed: u64, nev: usize, out: &str, maxlen: i64) {
    let mut rng = Lcg::new(seed);
    let mut t = TraceOut::new(out);
    let forms = ["vv", "vs", "sv", "assign_vv", "assign_vs"];
    let ops = ["add", "sub", "mul", "div"];
    // a few long operands (the property quantifies over lengths up to 1e4): around 1024, between multiples of 256, 4100, 10000
    let long = [1024usize, 1025, 1100, 1279, 2049, 4100, 10000, 1030, 1536, 5000];
    for ev in 0..(nev + long.len()) {
        let n = if ev >= nev { long[ev - nev] } else if rng.below(5) == 0 { rng.range(0, 16) as usize } else { rng.range(0, maxlen) as usize };
        let form = if ev >= nev { forms[(ev - nev) % 5] } else { forms[rng.below(5) as usize] };
        let op = ops[rng.below(4) as usize];
        let dr: i64 = if (form == "vv" || form == "assign_vv") && rng.below(6) == 0 { if rng.below(2) == 0 { 1 } else { -1 } } else { 0 };
        let rn = (n as i64 + dr).max(0) as usize;
        // non-zero operands: the exact-rational meaning of "div" is defined for non-zero divisors only
        // (division by zero is covered by the special-value family of P2)
        let l: Vec<f64> = (0..n).map(|_| { let x = rng.range(1, 99) as f64; if rng.below(2) == 0 { x } else { -x } }).collect();
        let r: Vec<f64> = (0..rn).map(|_| { let x = rng.range(1, 64) as f64; if rng.below(2) == 0 { x } else { -x } }).collect();
        let s = rng.range(1, 9) as f64;
        let cont = if n > 0 && (rng.below(2) == 0 || ev >= nev + 5) { "Matrix" } else { "Vector" };
        // a random factorisation for the matrix container
        let mut rows = 1;
        if cont == "Matrix" { let divs: Vec<usize> = (1..=n).filter(|d| n % d == 0).collect(); rows = divs[rng.below(divs.len() as u64) as usize]; }
        let shape = (rows, if rows > 0 { n / rows.max(1) } else { 0 });
        let rshape = if rn == n { shape } else { (1, rn) };
        let variants = run_forms(cont, form, op, &l, &r, s, shape, rshape);
        let (variant, got, kept) = &variants[rng.below(variants.len() as u64) as usize];
        let skip_mismatch_matrix_vv = cont == "Matrix" && form == "vv" && rn != n; // broadcast semantics: judged by C12
        if skip_mismatch_matrix_vv { continue; }
        match got {
            Some((d, sh)) => t.emit(json!({"cont": cont, "form": form, "variant": variant, "op": op, "l": projs(&l, 1), "r": projs(&r, 1), "s": s as i64,
                "out": "ok", "data": projrs(d, 128), "shape": [sh.0, sh.1], "lshape": [shape.0, shape.1], "kept": kept})),
            None => t.emit(json!({"cont": cont, "form": form, "variant": variant, "op": op, "l": projs(&l, 1), "r": projs(&r, 1), "s": s as i64,
                "out": "panic", "data": [], "shape": [0, 0], "lshape": [shape.0, shape.1], "kept": true})),
        }
    }
    t.finish();
}
