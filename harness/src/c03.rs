//! C03: samplers draw from the law they describe (spec/Samplers.tla, Trace_Samplers.tla, spec/ref/dist.ndjson).
use crate::common::*;
use crate::dist::*;
use compute::prelude::*;
use serde_json::{json, Value};
use std::sync::mpsc;
use std::time::Duration;

fn regime(kind: &str, p: &[f64]) -> String {
    match kind {
        "Gamma" => format!("shape{}", if p[0] < 1.0 / 3.0 { "<1/3" } else if p[0] < 1.0 { "<1" } else { ">=1" }),
        "Beta" => format!("shapes{}", if p[0] < 1.0 || p[1] < 1.0 { " some<1" } else { ">=1" }),
        "ChiSquared" => format!("dof{}", if p[0] < 2.0 { "=1" } else if p[0] == 2.0 { "=2" } else { ">2" }),
        "T" => format!("dof{}", if p[0] < 2.0 / 3.0 { "<2/3" } else if p[0] < 2.0 { "<2" } else { ">=2" }),
        "Poisson" => format!("rate{}", if p[0] < 10.0 { "<10" } else if p[0] < 150.0 { ">=10" } else { ">=150" }),
        "Binomial" => { let (n, pr) = (p[0], p[1]); if n == 0.0 || pr == 0.0 || pr == 1.0 { "shortcut".into() } else {
            format!("{}{}", if n * pr.min(1.0 - pr) <= 30.0 { "inversion" } else { "btpe" }, if pr > 0.5 { " flipped" } else { "" }) } }
        "Uniform" | "DiscreteUniform" => if p[0] == p[1] { "equal-bounds".into() } else { "interval".into() },
        "Normal" => if p[1] == 0.0 { "sigma=0".into() } else { "sigma>0".into() },
        "Bernoulli" => if p[0] == 0.0 || p[0] == 1.0 { "shortcut".into() } else { "interior".into() },
        _ => "any".into(),
    }
}

fn in_support(x: f64, sup: &Value, discrete: bool) -> bool {
    let lo_ok = match sup["lo"].as_str() { Some(_) => x > f64::NEG_INFINITY, None => { let lo = num(&sup["lo"]); if sup["lo_open"].as_bool().unwrap() { x > lo } else { x >= lo } } };
    let hi_ok = match sup["hi"].as_str() { Some(_) => x < f64::INFINITY, None => { let hi = num(&sup["hi"]); if sup["hi_open"].as_bool().unwrap() { x < hi } else { x <= hi } } };
    lo_ok && hi_ok && x.is_finite() && (!discrete || x == x.trunc())
}

fn run_with_timeout<T: Send + 'static, F: FnOnce() -> T + Send + 'static>(f: F, secs: u64) -> Result<Option<T>, ()> {
    // Ok(Some) = returned, Ok(None) = panicked, Err = did not return in time (the thread is left behind)
    let (tx, rx) = mpsc::channel();
    std::thread::spawn(move || { let r = guard(f); let _ = tx.send(r); });
    match rx.recv_timeout(Duration::from_secs(secs)) { Ok(r) => Ok(r), Err(_) => Err(()) }
}

pub fn record(cases: &str, table: &str, seed: u64, n: usize, out: &str) {
    let mut rows: Vec<Value> = vec![];
    for_each_line(table, |r| rows.push(r));
    let normal_row = rows[0].clone();
    let mut t = TraceOut::new(out);
    let limit = 30 + (n as u64) / 20000;
    for_each_line(cases, |c| {
        if c["kind"] == "MVN" { if c["q"].as_i64().unwrap() == 0 { mvn_event(&mut t, &c, &normal_row, seed, n); } return; }
        let row = rows[c["row"].as_u64().unwrap() as usize - 1].clone();
        let kind = c["kind"].as_str().unwrap().to_string();
        let q = ints(&c["p"]);
        let params = params_of(&kind, &q);
        let sup = c["support"].clone();
        let discrete = c["discrete"].as_bool().unwrap();
        let pts: Vec<(f64, f64)> = row["pts"].as_array().unwrap().iter().map(|p| (p["xn"].as_i64().unwrap() as f64 / p["xd"].as_i64().unwrap() as f64, p["cdf"].as_str().unwrap().parse::<f64>().unwrap())).collect();
        let reg = regime(&kind, &params);
        let s = seed.wrapping_mul(2654435761).wrapping_add(c["row"].as_u64().unwrap() * 97 + 1);
        // the object is built three ways: freshly, and - with fewer draws - from another table row of the same kind moved to
        // these parameters by the bulk update / by the setters (a sampler that caches derived quantities must follow)
        let other: Option<Vec<f64>> = rows.iter().filter(|r| r["kind"] == c["kind"] && r["p"] != c["p"]).map(|r| params_of(&kind, &ints(&r["p"])))
            .nth((c["row"].as_u64().unwrap() % 3) as usize).or_else(|| rows.iter().filter(|r| r["kind"] == c["kind"] && r["p"] != c["p"]).map(|r| params_of(&kind, &ints(&r["p"]))).next());
        let mut builds: Vec<(&str, usize)> = vec![("fresh", n)];
        if other.is_some() { builds.push(("update", n.min(40000))); builds.push(("setters", n.min(40000))); }
        for (via, nn) in builds {
            let (kind2, params2, sup2, pts2, other2) = (kind.clone(), params.clone(), sup.clone(), pts.clone(), other.clone());
            let via2 = via.to_string();
            let res = run_with_timeout(move || {
                let d = match via2.as_str() {
                    "fresh" => D::new(&kind2, &params2).expect("valid parameters"),
                    "update" => { let mut o = D::new(&kind2, &other2.unwrap()).expect("valid parameters"); assert!(o.update(&params2), "update to valid parameters rejected"); o }
                    _ => { let o0 = D::new(&kind2, &other2.unwrap()).expect("valid parameters"); let mut a = o0.clone();
                           if (0..params2.len()).all(|i| a.set(i, params2[i])) { a } else { let mut b = o0.clone(); assert!((0..params2.len()).rev().all(|i| b.set(i, params2[i])), "setters to valid parameters rejected"); b } }
                };
                alea::set_seed(s);
                let xs = d.sample_n(nn);
                let count_ok = xs.len() == nn;
                let support_ok = xs.iter().all(|x| in_support(*x, &sup2, false));
                let integer_ok = !discrete || xs.iter().all(|x| *x == x.trunc());
                let mut sorted = xs.to_vec();
                sorted.sort_by(|a, b| a.partial_cmp(b).unwrap_or(std::cmp::Ordering::Equal));
                let cnt: Vec<i64> = pts2.iter().map(|(t, _)| sorted.partition_point(|x| *x <= *t) as i64).collect();
                // reproducibility: same seed, same stream (first 64 draws, bit for bit)
                alea::set_seed(s);
                let again = d.sample_n(64);
                let repro_ok = again.iter().zip(xs.iter()).all(|(a, b)| a.to_bits() == b.to_bits());
                let m = d.sample_matrix(3, 5);
                let shape_ok = m.nrows == 3 && m.ncols == 5 && m.data.len() == 15 && m.data.iter().all(|x| in_support(*x, &sup2, discrete));
                (count_ok, support_ok, integer_ok, repro_ok, shape_ok, cnt)
            }, limit);
            let nf: Vec<i64> = pts.iter().map(|(_, f)| (f * nn as f64).round() as i64).collect();
            let regv = if via == "fresh" { reg.clone() } else { format!("{} via-{}", reg, via) };
            let base = json!({"kind": kind, "p": q, "regime": regv, "n": nn, "seed": s});
            let mut ev = base.as_object().unwrap().clone();
            match res {
                Ok(Some((count_ok, support_ok, integer_ok, repro_ok, shape_ok, cnt))) => {
                    ev.insert("out".into(), json!("ok")); ev.insert("count_ok".into(), json!(count_ok)); ev.insert("support_ok".into(), json!(support_ok));
                    ev.insert("integer_ok".into(), json!(integer_ok)); ev.insert("repro_ok".into(), json!(repro_ok)); ev.insert("shape_ok".into(), json!(shape_ok));
                    ev.insert("cnt".into(), json!(cnt)); ev.insert("nF".into(), json!(nf));
                }
                other => {
                    ev.insert("out".into(), json!(if other.is_err() { "timeout" } else { "panic" }));
                    for k in ["count_ok", "support_ok", "integer_ok", "repro_ok", "shape_ok"] { ev.insert(k.into(), json!(false)); }
                    ev.insert("cnt".into(), json!([])); ev.insert("nF".into(), json!([]));
                }
            }
            t.emit(Value::Object(ev));
        }
    });
    // bulk requests beyond 2^20 draws: exactly the requested count / shape (cheap laws only)
    for (k, kind) in ["Normal", "Uniform", "Exponential"].iter().enumerate() {
        let kind2 = kind.to_string();
        let nn = (1usize << 20) + 3;
        let res = run_with_timeout(move || {
            let d = D::new(&kind2, &if kind2 == "Exponential" { vec![2.0] } else { vec![0.0, 1.0] }).expect("valid parameters");
            alea::set_seed(5 + k as u64);
            let xs = d.sample_n(nn);
            let m = d.sample_matrix(1500, 1000);
            (xs.len() == nn, xs.iter().all(|x| x.is_finite()), m.nrows == 1500 && m.ncols == 1000 && m.data.len() == 1_500_000)
        }, limit);
        let mut ev = json!({"kind": kind, "p": [], "regime": "bulk request > 2^20", "n": nn, "seed": 5 + k}).as_object().unwrap().clone();
        let (o, c, sup, sh) = match res { Ok(Some((c, sup, sh))) => ("ok", c, sup, sh), Err(_) => ("timeout", false, false, false), _ => ("panic", false, false, false) };
        ev.insert("out".into(), json!(o)); ev.insert("count_ok".into(), json!(c)); ev.insert("support_ok".into(), json!(sup)); ev.insert("shape_ok".into(), json!(sh));
        ev.insert("integer_ok".into(), json!(true)); ev.insert("repro_ok".into(), json!(true)); ev.insert("cnt".into(), json!([])); ev.insert("nF".into(), json!([]));
        t.emit(Value::Object(ev));
    }
    // binomial laws with a huge number of trials and a success probability within 2^-22 of 0 or 1 (spec/ref/binom_tiny.ndjson)
    let tiny_path = std::path::Path::new(table).parent().unwrap().join("binom_tiny.ndjson");
    let mut tiny_rows: Vec<Value> = vec![];
    if tiny_path.exists() { for_each_line(tiny_path.to_str().unwrap(), |r| tiny_rows.push(r)); }
    for (k, r) in tiny_rows.iter().enumerate() {
        let nt = r["n"].as_u64().unwrap();
        let mut p = r["pn"].as_f64().unwrap() / 2f64.powi(r["pe"].as_i64().unwrap() as i32);
        let flip = r["flip"].as_bool().unwrap();
        if flip { p = 1.0 - p; }
        let pts: Vec<(f64, f64)> = r["pts"].as_array().unwrap().iter().map(|q| (q["k"].as_f64().unwrap(), q["cdf"].as_str().unwrap().parse::<f64>().unwrap())).collect();
        let nn = n.min(50000);
        let pts2 = pts.clone();
        let res = run_with_timeout(move || {
            let d = Binomial::new(nt, p);
            alea::set_seed(900 + k as u64);
            let xs = d.sample_n(nn);
            let mut sorted = xs.to_vec();
            sorted.sort_by(|a, b| a.partial_cmp(b).unwrap_or(std::cmp::Ordering::Equal));
            (xs.len() == nn, xs.iter().all(|x| *x >= 0.0 && *x <= nt as f64), xs.iter().all(|x| *x == x.trunc()),
             pts2.iter().map(|(t, _)| sorted.partition_point(|x| *x <= *t) as i64).collect::<Vec<i64>>())
        }, limit);
        let nf: Vec<i64> = pts.iter().map(|(_, f)| (f * nn as f64).round() as i64).collect();
        let mut ev = json!({"kind": "Binomial", "p": [nt, p], "regime": if flip { "huge n, p within 2^-22 of 1" } else { "huge n, p within 2^-22 of 0" }, "n": nn, "seed": 900 + k}).as_object().unwrap().clone();
        match res {
            Ok(Some((c, sup, int, cnt))) => { ev.insert("out".into(), json!("ok")); ev.insert("count_ok".into(), json!(c)); ev.insert("support_ok".into(), json!(sup)); ev.insert("integer_ok".into(), json!(int));
                ev.insert("repro_ok".into(), json!(true)); ev.insert("shape_ok".into(), json!(true)); ev.insert("cnt".into(), json!(cnt)); ev.insert("nF".into(), json!(nf)); }
            other => { ev.insert("out".into(), json!(if other.is_err() { "timeout" } else { "panic" }));
                for key in ["count_ok", "support_ok", "integer_ok", "repro_ok", "shape_ok"] { ev.insert(key.into(), json!(false)); } ev.insert("cnt".into(), json!([])); ev.insert("nF".into(), json!([])); }
        }
        t.emit(Value::Object(ev));
    }
    // degenerate but valid continuous uniform laws (lower = upper): every draw is the single support point; reached by the
    // constructor, by a setter and by the bulk update
    for (k, cpt) in [0.0f64, 2.5, -1000.0].iter().enumerate() {
        for via in ["fresh", "setter", "update"] {
            let c0 = *cpt;
            let via2 = via.to_string();
            let nn = 1000usize;
            let res = run_with_timeout(move || {
                let d = match via2.as_str() {
                    "fresh" => Uniform::new(c0, c0),
                    "setter" => { let mut u = Uniform::new(c0 - 3.0, c0); u.set_lower(c0); u }
                    _ => { let mut u = Uniform::new(c0 + 1.0, c0 + 2.0); u.update(&[c0, c0]); u }
                };
                alea::set_seed(77 + k as u64);
                let xs = d.sample_n(nn);
                let one = d.sample();
                let m = d.sample_matrix(2, 3);
                (xs.len() == nn, xs.iter().all(|x| *x == c0) && one == c0, m.nrows == 2 && m.ncols == 3 && m.data.iter().all(|x| *x == c0),
                 vec![xs.iter().filter(|x| **x <= c0 - 1.0).count() as i64, xs.iter().filter(|x| **x <= c0).count() as i64])
            }, limit);
            let mut ev = json!({"kind": "Uniform", "p": [c0, c0], "regime": format!("degenerate equal bounds via-{}", via), "n": nn, "seed": 77 + k}).as_object().unwrap().clone();
            match res {
                Ok(Some((count_ok, support_ok, shape_ok, cnt))) => {
                    ev.insert("out".into(), json!("ok")); ev.insert("count_ok".into(), json!(count_ok)); ev.insert("support_ok".into(), json!(support_ok));
                    ev.insert("integer_ok".into(), json!(true)); ev.insert("repro_ok".into(), json!(true)); ev.insert("shape_ok".into(), json!(shape_ok));
                    ev.insert("cnt".into(), json!(cnt)); ev.insert("nF".into(), json!([0, nn]));
                }
                other => {
                    ev.insert("out".into(), json!(if other.is_err() { "timeout" } else { "panic" }));
                    for k in ["count_ok", "support_ok", "integer_ok", "repro_ok", "shape_ok"] { ev.insert(k.into(), json!(false)); }
                    ev.insert("cnt".into(), json!([])); ev.insert("nF".into(), json!([]));
                }
            }
            t.emit(Value::Object(ev));
        }
    }

    t.finish();
}

/// the same covariance structure at three scales (L times 1, 2^-22, 2^14): sampling must not contain an absolute jitter / floor
fn mvn_event(t: &mut TraceOut, c: &Value, normal_row: &Value, seed: u64, n: usize) {
    for (k, e) in [0i32, -22, 14].iter().enumerate() { mvn_event_scaled(t, c, normal_row, seed, if k == 0 { n } else { n.min(80000) }, *e); }
}
fn mvn_event_scaled(t: &mut TraceOut, c: &Value, normal_row: &Value, seed: u64, n: usize, scale_log2: i32) {
    let d = c["d"].as_u64().unwrap() as usize;
    let mu = f64s(&c["mu"]);
    let f = 2f64.powi(scale_log2);
    let sigma: Vec<f64> = c["sigma"].as_array().unwrap().iter().flat_map(|r| f64s(r)).map(|v| v * f * f).collect();
    let l: Vec<Vec<f64>> = c["L"].as_array().unwrap().iter().map(|r| f64s(r).iter().map(|v| v * f).collect()).collect();
    let reg = if scale_log2 == 0 { format!("d{}", d) } else if scale_log2 < 0 { format!("d{} tiny-covariance", d) } else { format!("d{} huge-covariance", d) };
    let pts: Vec<(f64, f64)> = normal_row["pts"].as_array().unwrap().iter().map(|p| (p["xn"].as_i64().unwrap() as f64 / p["xd"].as_i64().unwrap() as f64, p["cdf"].as_str().unwrap().parse::<f64>().unwrap())).collect();
    let n = n / 2;
    let s = seed.wrapping_mul(40503).wrapping_add(d as u64);
    let (mu2, sigma2, l2, pts2) = (mu.clone(), sigma.clone(), l.clone(), pts.clone());
    let res = run_with_timeout(move || {
        let m = MVN::new(mu2.clone(), Matrix::new(sigma2, d as i32, d as i32));
        alea::set_seed(s);
        let xs = m.sample_n(n);
        let shape_ok = xs.nrows == n && xs.ncols == d && xs.data.len() == n * d;
        // whiten with the driver's L (forward substitution) and project
        let mut series: Vec<Vec<f64>> = vec![Vec::with_capacity(n); d + 2];
        for r in 0..n {
            let x = &xs.data[r * d..(r + 1) * d];
            let mut z = vec![0.0; d];
            for i in 0..d { let mut a = x[i] - mu2[i]; for k in 0..i { a -= l2[i][k] * z[k]; } z[i] = a / l2[i][i]; }
            for i in 0..d { series[i].push(z[i]); }
            series[d].push(z.iter().sum::<f64>() / (d as f64).sqrt());
            series[d + 1].push(z.iter().enumerate().map(|(i, v)| if i % 2 == 0 { *v } else { -*v }).sum::<f64>() / (d as f64).sqrt());
        }
        let finite = xs.data.iter().all(|v| v.is_finite());
        let mut cnt = vec![];
        for sr in series.iter_mut() { sr.sort_by(|a, b| a.partial_cmp(b).unwrap_or(std::cmp::Ordering::Equal)); for (t, _) in pts2.iter() { cnt.push(sr.partition_point(|x| *x <= *t) as i64); } }
        alea::set_seed(s);
        let again = m.sample_n(8);
        let repro_ok = again.data.iter().zip(xs.data.iter()).all(|(a, b)| a.to_bits() == b.to_bits());
        (shape_ok, finite, repro_ok, cnt)
    }, 60);
    let nf: Vec<i64> = (0..d + 2).flat_map(|_| pts.iter().map(|(_, f)| (f * n as f64).round() as i64)).collect();
    match res {
        Ok(Some((shape_ok, finite, repro_ok, cnt))) => t.emit(json!({"kind": "MVN", "p": [d], "regime": reg, "n": n, "seed": s, "out": "ok", "count_ok": shape_ok, "shape_ok": shape_ok,
            "support_ok": finite, "integer_ok": true, "repro_ok": repro_ok, "cnt": cnt, "nF": nf})),
        other => t.emit(json!({"kind": "MVN", "p": [d], "regime": reg, "n": n, "seed": s, "out": if other.is_err() { "timeout" } else { "panic" }, "count_ok": false, "shape_ok": false,
            "support_ok": false, "integer_ok": false, "repro_ok": false, "cnt": [], "nF": []})),
    }
}
