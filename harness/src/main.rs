mod common;
mod c01;
mod c02;
mod c03;
mod c04;
mod c05;
mod c06;
mod c07;
mod c08;
mod c09;
mod c10;
mod c11;
mod c12;
mod c13;
mod c14;
mod c15;
mod c16;
mod c17;
mod c18;
mod c19;
mod c20;
mod dist;
mod x01;
mod x02;
mod x03;
mod x04;
mod x05;

fn main() {
    common::silence_panics();
    let args: Vec<String> = std::env::args().collect();
    if args.len() < 2 {
        eprintln!("usage: vh replay <prop> <cases> <verdicts> | vh record <sub> <seed> <n> <trace>");
        std::process::exit(2);
    }
    match args[1].as_str() {
        "replay" => {
            let (prop, cases, verd) = (&args[2], &args[3], &args[4]);
            match prop.as_str() {
                "C01" => c01::replay(cases, verd),
                "C02" => c02::replay(cases, verd, &args[5]),
                "C04" => c04::replay(cases, verd),
                "C05" => c05::replay(cases, verd),
                "C06" => c06::replay(cases, verd),
                "C07" => c07::replay(cases, verd),
                "C08" => c08::replay(cases, verd),
                "C09" => c09::replay(cases, verd),
                "C10" => c10::replay(cases, verd),
                "C12" => c12::replay(cases, verd),
                "C13" => c13::replay(cases, verd),
                "C14" => c14::replay(cases, verd),
                "C15" => c15::replay(cases, verd),
                "C16" => c16::replay(cases, verd),
                "C17" => c17::replay(cases, verd, args.get(5)),
                "C20" => c20::replay(cases, verd),
                "X01" => x01::replay(cases, verd),
                "X04" => x04::replay(cases, verd),
                "C18" if args.get(5).map(|s| s == "extreme").unwrap_or(false) => c18::replay_extreme(cases, verd),
                "C18" => c18::replay(cases, verd, args.get(5).and_then(|s| s.parse().ok()).unwrap_or(2)),
                _ => {
                    eprintln!("no replay table for {}", prop);
                    std::process::exit(2)
                }
            }
        }
        "record" => {
            let sub = &args[2];
            let seed: u64 = args[3].parse().unwrap();
            let n: usize = args[4].parse().unwrap();
            let out = &args[5];
            match sub.as_str() {
                "C01" => c01::record(seed, n, out),
                "X02" => x02::record(seed, n, out),
                "X03" => x03::record(seed, n, out),
                "X05" => x05::record(seed, n, out),
                "C03" => { c03::record(&args[6], &args[7], seed, n, out); std::process::exit(0) }
                "C04" => c04::record(seed, n, out, args.get(6).and_then(|s| s.parse().ok()).unwrap_or(300)),
                "C05" => c05::record(seed, n, out, args.get(6).and_then(|s| s.parse().ok()).unwrap_or(12)),
                "C09" => { let _ = (seed, n); c09::record(&args[6], out) }
                "C06" => c06::record(seed, n, out),
                "C08" => c08::record(seed, n, out, args.get(6).and_then(|s| s.parse().ok()).unwrap_or(200)),
                "C11" => c11::record(&args[6], seed, n, out),
                "C10" => c10::record(seed, n, out),
                "C13" => c13::record(seed, n, out),
                "C14" => c14::record(seed, n, out),
                "C12" => c12::record(seed, n, out, args.get(6).and_then(|s| s.parse().ok()).unwrap_or(16)),
                "C15" => c15::record(seed, n, out),
                "C18" => c18::record(&args[6], seed, n, out),
                "C19" => c19::record(seed, n, out, args.get(6).and_then(|s| s.parse().ok()).unwrap_or(2000)),
                _ => {
                    let _ = (seed, n, out);
                    eprintln!("no recorder for {}", sub);
                    std::process::exit(2)
                }
            }
        }
        _ => {
            eprintln!("unknown subcommand");
            std::process::exit(2)
        }
    }
}
