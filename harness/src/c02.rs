//! C02: densities, mass functions, mean and variance (spec/DistMoments.tla + spec/ref/dist.ndjson).
use crate::common::*;
use crate::dist::*;
use compute::prelude::*;
use serde_json::{json, Value};

const EULER_GAMMA: f64 = 0.577_215_664_901_532_9;

fn ext_matches(obs: f64, e: &Value, scale: f64) -> bool {
    match e["t"].as_str().unwrap() {
        "rat" => { let v = num(&e["v"]); obs.is_finite() && (obs - v).abs() <= 2f64.powi(-40) * v.abs().max(scale * 1e-3).max(1e-300) || (v == 0.0 && obs == 0.0) }
        "inf" => obs == f64::INFINITY,
        "nan" => obs.is_nan(),
        "gumbel_mean" => { let v = num(&e["mu"]) + num(&e["beta"]) * EULER_GAMMA; (obs - v).abs() <= 2f64.powi(-40) * v.abs().max(1.0) }
        "gumbel_var" => { let b = num(&e["beta"]); let v = std::f64::consts::PI.powi(2) / 6.0 * b * b; (obs - v).abs() <= 2f64.powi(-40) * v }
        _ => false,
    }
}

/// 10-point Gauss-Legendre on [a, b]
fn gl10<F: Fn(f64) -> f64>(f: &F, a: f64, b: f64) -> f64 {
    const X: [f64; 5] = [0.148_874_338_981_631_21, 0.433_395_394_129_247_19, 0.679_409_568_299_024_41, 0.865_063_366_688_984_51, 0.973_906_528_517_171_72];
    const W: [f64; 5] = [0.295_524_224_714_752_87, 0.269_266_719_309_996_36, 0.219_086_362_515_982_04, 0.149_451_349_150_580_59, 0.066_671_344_308_688_138];
    let (m, r) = (0.5 * (a + b), 0.5 * (b - a));
    (0..5).map(|i| W[i] * (f(m + r * X[i]) + f(m - r * X[i]))).sum::<f64>() * r
}
/// composite rule over panel edges
fn integrate<F: Fn(f64) -> f64>(f: &F, edges: &[f64]) -> f64 {
    edges.windows(2).map(|w| gl10(f, w[0], w[1])).sum()
}
/// panel edges dense around `centre` with geometric growth out to lo / hi
fn edges(lo: f64, hi: f64, centre: f64, unit: f64) -> Vec<f64> {
    let mut e = vec![centre];
    let mut step = unit / 16.0;
    let mut x = centre;
    while x < hi { x = (x + step).min(hi); e.push(x); step *= 1.25; }
    let mut left = vec![];
    step = unit / 16.0; x = centre;
    while x > lo { x = (x - step).max(lo); left.push(x); step *= 1.25; }
    left.reverse();
    left.extend(e);
    // grade the mesh geometrically toward both ends (non-smooth end-point behaviour x^(a-1))
    let mut out = left;
    for k in 1..48 { let w = (out[1] - out[0]).min(unit) * 0.5f64.powi(k); out.push(lo + w); let w2 = unit * 0.5f64.powi(k); if hi - w2 > lo { out.push(hi - w2); } }
    out.sort_by(|a, b| a.partial_cmp(b).unwrap());
    out.dedup();
    out
}

pub fn replay(cases: &str, verdicts: &str, table: &str) {
    let mut rows: Vec<Value> = vec![];
    for_each_line(table, |r| rows.push(r));
    let mut v = Verdicts::new(verdicts, "C02");
    let mut worst: std::collections::BTreeMap<String, f64> = Default::default();
    for_each_line(cases, |c| {
        v.cases += 1;
        if v.cases % 20 == 1 { v.sample(json!({"kind": c["kind"], "p": c["p"], "mean": c["mean"], "var": c["var"]})); }
        if c["kind"] == "MVN" { mvn_case(&mut v, &c); return; }
        let row = &rows[c["row"].as_u64().unwrap() as usize - 1];
        let kind = c["kind"].as_str().unwrap();
        let q = ints(&c["p"]);
        let params = params_of(kind, &q);
        let ident = json!({"kind": kind, "p": q});
        let d = match D::new(kind, &params) { Some(d) => d, None => { v.check(false, kind, "constructor", &ident, json!("panic")); return; } };
        let sd_scale = { let s = d.var(); if s.is_finite() && s > 0.0 { s.sqrt() } else { 1.0 } };
        v.check(ext_matches(d.mean(), &c["mean"], sd_scale), kind, &format!("mean {}", c["mean"]["t"].as_str().unwrap()), &ident, json!({"got": fj(d.mean()), "expected": c["mean"]}));
        v.check(ext_matches(d.var(), &c["var"], sd_scale * sd_scale), kind, &format!("var {}", c["var"]["t"].as_str().unwrap()), &ident, json!({"got": fj(d.var()), "expected": c["var"]}));
        let pts = row["pts"].as_array().unwrap();
        // the same parameter setting reached through the bulk update and through the setters, starting from every other
        // table row of the kind: density, mean and variance are those of the freshly constructed object
        for other in rows.iter().filter(|r| r["kind"] == c["kind"] && r["p"] != c["p"]) {
            let q0 = ints(&other["p"]);
            // two objects of the kind evaluated side by side (this row's, the other row's, alternately at the same points): each answers as
            // if it were alone - the reference sweep of the other object is taken in a thread of its own
            {
                let xs: Vec<f64> = pts.iter().take(14).map(|p| p["xn"].as_i64().unwrap() as f64 / p["xd"].as_i64().unwrap() as f64).collect();
                let (k2, p2, xs2) = (kind.to_string(), params_of(kind, &q0), xs.clone());
                let alone = std::thread::spawn(move || D::new(&k2, &p2).map(|o| xs2.iter().map(|x| o.pf(*x)).collect::<Vec<Option<f64>>>())).join().ok().flatten();
                if let (Some(alone), Some(o0)) = (alone, D::new(kind, &params_of(kind, &q0))) {
                    let side: Vec<Option<f64>> = xs.iter().map(|x| { let _ = d.pf(*x); o0.pf(*x) }).collect();
                    let same = side.iter().zip(&alone).all(|(a, b)| match (a, b) { (Some(a), Some(b)) => a.to_bits() == b.to_bits() || (a.is_nan() && b.is_nan()), (None, None) => true, _ => false });
                    v.check(same, kind, "density evaluated side by side with another object", &json!({"kind": kind, "this": q, "other": q0}), json!({"side_by_side": side.iter().map(|g| g.map(fj)).collect::<Vec<_>>(), "alone": alone.iter().map(|g| g.map(fj)).collect::<Vec<_>>()}));
                }
            }
            for via in ["update", "setters"] {
                let mut o = match D::new(kind, &params_of(kind, &q0)) { Some(o) => o, None => continue };
                let reached = if via == "update" { o.update(&params) } else {
                    // field order that keeps intermediate tuples valid is not known in general: try both orders
                    let mut a = o.clone();
                    let fwd = (0..params.len()).all(|i| a.set(i, params[i]));
                    if fwd { o = a; true } else { (0..params.len()).rev().all(|i| o.set(i, params[i])) }
                };
                if !reached { if via == "update" { v.check(false, kind, "reached via update", &json!({"kind": kind, "from": q0, "to": q}), json!("panic")); } continue; }
                let same = pts.iter().all(|p| { let x = p["xn"].as_i64().unwrap() as f64 / p["xd"].as_i64().unwrap() as f64;
                    match (d.pf(x), o.pf(x)) { (Some(a), Some(b)) => a.to_bits() == b.to_bits() || (a - b).abs() <= 1e-12 * a.abs(), (None, None) => true, _ => false } })
                    && (d.mean() == o.mean() || (d.mean().is_nan() && o.mean().is_nan())) && (d.var() == o.var() || (d.var().is_nan() && o.var().is_nan()));
                v.check(same, kind, &format!("density after {}", via), &json!({"kind": kind, "from": q0, "to": q}), json!(null));
            }
        }
        let ins = c["insupport"].as_array().unwrap();
        let pmf = c["pmf"].as_array().unwrap();
        let refs: Vec<f64> = pts.iter().map(|p| { let s = p["pdf"].as_str().unwrap(); if s == "inf" { f64::INFINITY } else { s.parse().unwrap() } }).collect();
        let peak = refs.iter().filter(|x| x.is_finite()).fold(0.0f64, |m, x| m.max(*x));
        for (j, p) in pts.iter().enumerate() {
            let x = p["xn"].as_i64().unwrap() as f64 / p["xd"].as_i64().unwrap() as f64;
            let refp = refs[j];
            let inside = ins[j].as_bool().unwrap();
            let g = d.pf(x);
            let pid = json!({"kind": kind, "p": q, "x": x, "ref": fj(refp)});
            // the point 0 written as -0.0 is the same point: same density, same log-density
            if x == 0.0 {
                let gn = d.pf(-0.0);
                let same = match (g, gn) { (Some(a), Some(b)) => a == b || (a.is_nan() && b.is_nan()), (None, None) => true, _ => false };
                let samel = d.is_discrete() || match (d.ln_pf(0.0), d.ln_pf(-0.0)) { (Some(a), Some(b)) => a == b || (a.is_nan() && b.is_nan()), (None, None) => true, _ => false };
                v.check(same && samel, kind, "pdf at -0.0 = pdf at 0", &pid, json!({"at_zero": g.map(fj), "at_negative_zero": gn.map(fj)}));
            }
            if c["boundary"][j].as_bool().unwrap() {
                v.check(g.map(|g| g >= 0.0 && !g.is_nan()).unwrap_or(false), kind, "pdf support-end-point", &pid, json!(g.map(fj)));
                // whatever convention the density follows at an end point, the log-density is its logarithm
                if !d.is_discrete() {
                    if let Some(gv) = g {
                        let lg = d.ln_pf(x);
                        let ok = match lg { Some(l) => if gv == 0.0 { l == f64::NEG_INFINITY } else if gv.is_infinite() { l == f64::INFINITY } else { (l - gv.ln()).abs() <= 1e-9 * (1.0 + gv.ln().abs()) }, None => false };
                        v.check(ok, kind, "ln_pdf = ln(pdf) support-end-point", &pid, json!({"pdf": fj(gv), "ln_pdf": lg.map(fj)}));
                    }
                }
                // a closed end of the documented support with a finite textbook value is a point of the support like any other
                if c["closed_end"][j].as_bool().unwrap_or(false) && refp.is_finite() {
                    let ok = g.map(|g| if refp == 0.0 { g == 0.0 } else { ((g - refp) / refp).abs() <= 1e-9 }).unwrap_or(false);
                    v.check(ok, kind, "pdf closed-end-point", &pid, json!(g.map(fj)));
                    if let (Some(g), Some(lg)) = (g, d.ln_pf(x)) {
                        if g > 0.0 { v.check((lg - g.ln()).abs() <= 1e-9 * (1.0 + g.ln().abs()), kind, "ln_pdf = ln(pdf) closed-end-point", &pid, json!({"ln_pdf": fj(lg), "ln(pdf)": fj(g.ln())})); }
                    }
                }
                continue;
            }
            if !inside {
                let side = if refs[..j].iter().any(|r| *r > 0.0) { "outside-right" } else { "outside-left" };
                v.check(g == Some(0.0), kind, &format!("pdf {}", side), &pid, json!(g.map(fj)));
                // the log-density is the logarithm of the density there too: -inf, not 0, NaN or a panic
                if !d.is_discrete() {
                    let lg = d.ln_pf(x);
                    v.check(lg == Some(f64::NEG_INFINITY), kind, &format!("ln_pdf {}", side), &pid, json!(lg.map(fj)));
                }
                continue;
            }
            if refp.is_infinite() { continue; }
            let pos = if refp < peak * 1e-9 { "tail" } else { "bulk" };
            let ok = match g {
                Some(g) => g >= 0.0 && g.is_finite() && if refp < 1e-290 { g <= 1e-280 } else { ((g - refp) / refp).abs() <= 1e-9 },
                None => false,
            };
            if let Some(g) = g { if refp >= 1e-290 { let e = worst.entry(kind.to_string()).or_insert(0.0); let r = ((g - refp) / refp).abs(); if r > *e { *e = r; } } }
            v.check(ok, kind, &format!("pdf {}", pos), &pid, json!(g.map(fj)));
            if !pmf.is_empty() {
                let e = num(&pmf[j]);
                v.check(g.map(|g| (g - e).abs() <= 2f64.powi(-40) * e.max(1e-300)).unwrap_or(false), kind, "pmf exact-rational", &pid, json!(g.map(fj)));
            }
            if !d.is_discrete() {
                if let (Some(g), Some(lg)) = (g, d.ln_pf(x)) {
                    if g > 1e-300 {
                        v.check((lg - g.ln()).abs() <= 1e-9 * (1.0 + g.ln().abs()), kind, "ln_pdf = ln(pdf)", &pid, json!({"ln_pdf": fj(lg), "ln(pdf)": fj(g.ln())}));
                    }
                }
            }
            if let D::Normal(n) = &d {
                let refc: f64 = p["cdf"].as_str().unwrap().parse().unwrap();
                let gc = guard(|| n.cdf(x));
                v.check(gc.map(|gc| (gc - refc).abs() <= 1.5e-7).unwrap_or(false), kind, "cdf", &pid, json!(gc.map(fj)));
                // location-scale law in other units: N(s mu, s sigma) at s x has the same cdf and 1/s times the density (s = 2^-60, 2^40)
                for e in [-60i32, 40] {
                    let f = 2f64.powi(e);
                    let ns = Normal::new(params[0] * f, params[1] * f);
                    let gcs = guard(|| ns.cdf(x * f));
                    let gps = guard(|| ns.pdf(x * f) * f);
                    let ok = gcs.map(|g| (g - refc).abs() <= 1.5e-7).unwrap_or(false)
                        && gps.map(|g| if refp < 1e-290 { g <= 1e-280 } else { ((g - refp) / refp).abs() <= 1e-9 }).unwrap_or(false);
                    v.check(ok, kind, if e < 0 { "cdf / pdf tiny-units" } else { "cdf / pdf huge-units" }, &pid, json!({"cdf": gcs.map(fj), "pdf_times_s": gps.map(fj)}));
                }
            }
        }
        // discrete uniform laws on supports far wider than any table row (N up to 2^62 points): mass 1/N at the ends and in the middle,
        // 0 outside, mean (a+b)/2, variance (N^2 - 1)/12 - evaluated here in 128-bit integers / f64 from the closed forms of DistMoments
        if kind == "DiscreteUniform" && q[0] == 0 && q[1] == 1 {
            for (lo, hi) in [(-(1i64 << 31), (1i64 << 31) - 1), (0i64, 1i64 << 32), (-(1i64 << 40), 1i64 << 40), (-(1i64 << 61), 1i64 << 61), (1024i64, 1i64 << 62)] {
                let wid = json!({"kind": kind, "lower": lo.to_string(), "upper": hi.to_string()});
                match D::new(kind, &[lo as f64, hi as f64]) {
                    Some(w) => {
                        let nn = (hi as i128 - lo as i128 + 1) as f64;
                        let (em, ev) = ((lo as i128 + hi as i128) as f64 / 2.0, (nn * nn - 1.0) / 12.0);
                        let okm = guard(|| (w.mean() - em).abs() <= 1e-12 * em.abs().max(1.0) && (w.var() - ev).abs() <= 1e-12 * ev);
                        v.check(okm == Some(true), kind, "mean / var wide-support", &wid, json!({"mean": guard(|| w.mean()).map(fj), "var": guard(|| w.var()).map(fj), "expected": [em, ev]}));
                        let okp = [lo as f64, hi as f64, ((lo as i128 + hi as i128) / 2) as f64].iter().all(|x| w.pf(*x).map(|g| (g * nn - 1.0).abs() <= 1e-12).unwrap_or(false))
                            && w.pf(lo as f64 - (nn * 1e-3).max(1.0)) == Some(0.0) && w.pf(hi as f64 + (nn * 1e-3).max(1.0)) == Some(0.0);
                        v.check(okp, kind, "pmf wide-support", &wid, json!(w.pf(lo as f64).map(fj)));
                    }
                    None => v.check(false, kind, "constructor wide-support", &wid, json!("panic")),
                }
            }
        }
        // total mass and the first two moments of the implementation's own density / mass function
        let (m, s2) = (d.mean(), d.var());
        if d.is_discrete() {
            if m.is_finite() && s2.is_finite() {
                let hi = (m + 60.0 * s2.sqrt() + 60.0) as i64;
                let lo = (m - 60.0 * s2.sqrt() - 10.0).min(-5.0) as i64;
                let mut mass = 0.0; let mut m1 = 0.0; let mut m2 = 0.0; let mut bad = false;
                for k in lo..=hi { match d.pf(k as f64) { Some(w) => { if w < 0.0 { bad = true; } mass += w; m1 += w * k as f64; m2 += w * (k as f64 - m).powi(2); } None => bad = true } }
                let tol = 1e-9;
                v.check(!bad && (mass - 1.0).abs() <= tol, kind, "sum pmf = 1", &ident, json!(fj(mass)));
                v.check(!bad && (m1 - m).abs() <= tol * (1.0 + m.abs()), kind, "mean = first moment", &ident, json!({"sum": fj(m1), "mean()": fj(m)}));
                v.check(!bad && (m2 - s2).abs() <= tol * (1.0 + s2), kind, "var = central moment", &ident, json!({"sum": fj(m2), "var()": fj(s2)}));
            }
        } else {
            // integration window: the support where bounded, otherwise far enough into exponential tails
            let f = |x: f64| d.pf(x).unwrap_or(f64::NAN);
            let singular = match kind { "Gamma" | "Beta" | "ChiSquared" => params.iter().take(if kind == "Beta" { 2 } else { 1 }).any(|a| (if kind == "ChiSquared" { *a / 2.0 } else { *a }) < 1.0), _ => false };
            let heavy = match kind { "T" => params[0] <= 4.0, "Pareto" => params[0] <= 4.0, _ => false };
            if !singular && !heavy && m.is_finite() && s2.is_finite() && s2 > 0.0 {
                let sd = s2.sqrt();
                let (lo, hi) = match kind {
                    "Uniform" => (params[0], params[1]),
                    "Beta" => (0.0, 1.0),
                    "Gamma" | "ChiSquared" | "Exponential" => (0.0, m + 80.0 * sd),
                    "Pareto" => (params[1], params[1] * 1e12),
                    "T" => (-1e9, 1e9),
                    "Gumbel" => (m - 30.0 * sd, m + 80.0 * sd),
                    _ => (m - 40.0 * sd, m + 40.0 * sd),
                };
                let centre = if kind == "Pareto" { params[1] * 1.0000001 } else { m.max(lo + 1e-9 * sd).min(hi - 1e-9 * sd) };
                let e = edges(lo, hi, centre, sd);
                let mass = integrate(&f, &e);
                let m1 = integrate(&|x| x * f(x), &e);
                let m2 = integrate(&|x| (x - m).powi(2) * f(x), &e);
                let tol = if kind == "T" || kind == "Pareto" { 1e-5 } else { 1e-7 };
                v.check((mass - 1.0).abs() <= tol, kind, "integral pdf = 1", &ident, json!(fj(mass)));
                v.check((m1 - m).abs() <= tol * (sd + m.abs()), kind, "mean = first moment", &ident, json!({"integral": fj(m1), "mean()": fj(m)}));
                v.check((m2 - s2).abs() <= 10.0 * tol * s2, kind, "var = central moment", &ident, json!({"integral": fj(m2), "var()": fj(s2)}));
            }
        }
    });
    if std::env::var("VH_CALIBRATE").is_ok() { for (k, e) in worst { eprintln!("worst {} {:e}", k, e); } }
    v.finish();
}

fn mvn_case(v: &mut Verdicts, c: &Value) {
    let d = c["d"].as_u64().unwrap() as usize;
    let mu = f64s(&c["mu"]);
    let sigma: Vec<f64> = c["sigma"].as_array().unwrap().iter().flat_map(|r| f64s(r)).collect();
    let x = f64s(&c["x"]);
    let detl = num(&c["detL"]);
    let q = num(&c["q"]);
    let class = format!("d{}", d);
    let made = guard(|| MVN::new(mu.clone(), Matrix::new(sigma.clone(), d as i32, d as i32)));
    let m = match made { Some(m) => m, None => { v.check(false, "MVN", "constructor", c, json!("panic")); return; } };
    let peak = (2.0 * std::f64::consts::PI).powf(-(d as f64) / 2.0) / detl.abs();
    let e = peak * (-q / 2.0).exp();
    let g = guard(|| (&m).pdf(&x));
    // far in the tails (q beyond ~1400) the density leaves the f64 range while the log-density stays an ordinary number
    let far = e < 1e-290;
    v.check(g.map(|g| if far { g >= 0.0 && g <= 1e-280 } else { ((g - e) / e).abs() <= 1e-10 }).unwrap_or(false), "MVN", &format!("pdf {}{}", class, if far { " far-tail" } else { "" }), c, json!({"got": g, "expected": e}));
    let gl = guard(|| (&m).ln_pdf(&x));
    let le = peak.ln() - q / 2.0;
    v.check(gl.map(|gl| (gl - le).abs() <= 1e-10 * (1.0 + le.abs())).unwrap_or(false), "MVN", &format!("ln_pdf {}{}", class, if far { " far-tail" } else { "" }), c, json!({"got": gl, "expected": le}));
    let gm = guard(|| (&m).mean().to_vec());
    v.check(gm.as_ref().map(|g| all_eq(g, &mu)).unwrap_or(false), "MVN", "mean", c, json!(gm));
    let gv = guard(|| (&m).var().data.to_vec());
    v.check(gv.as_ref().map(|g| all_eq(g, &sigma)).unwrap_or(false), "MVN", "var", c, json!(gv));
    if d == 1 {
        // dimension 1 is the univariate normal
        let n = Normal::new(mu[0], sigma[0].sqrt());
        v.check(g.map(|g| if far { n.pdf(x[0]) <= 1e-280 } else { ((g - n.pdf(x[0])) / g).abs() <= 1e-12 }).unwrap_or(false), "MVN", "pdf d1 = Normal", c, json!({"mvn": g, "normal": n.pdf(x[0])}));
    }
}
