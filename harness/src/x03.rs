//! X03: life cycle of model / optimizer objects (spec/Models.tla, spec/Trace_Models.tla).
use crate::common::*;
use compute::prelude::*;
use serde_json::{json, Value};

fn fnv(h: &mut u64, bytes: &[u8]) { for b in bytes { *h ^= *b as u64; *h = h.wrapping_mul(0x100000001b3); } *h ^= 0xff; *h = h.wrapping_mul(0x100000001b3); }
struct Fp(u64);
impl Fp {
    fn new() -> Self { Fp(0xcbf29ce484222325) }
    fn s(&mut self, s: &str) { fnv(&mut self.0, s.as_bytes()); }
    fn f(&mut self, xs: &[f64]) { for x in xs { fnv(&mut self.0, &x.to_bits().to_le_bytes()); } fnv(&mut self.0, b"|"); }
    fn hex(&self) -> String { format!("{:016x}", self.0) }
}

fn fam(code: i64) -> ExponentialFamily {
    match code { 1 => ExponentialFamily::Gaussian, 2 => ExponentialFamily::Bernoulli, 3 => ExponentialFamily::Poisson,
                 4 => ExponentialFamily::QuasiPoisson, 5 => ExponentialFamily::Gamma, _ => ExponentialFamily::Exponential }
}
const N: usize = 10;
fn glm_x(d: i64) -> Vec<f64> {
    let t: Vec<f64> = match d { 1 => vec![-1.0, -0.75, -0.5, -0.25, 0.0, 0.125, 0.25, 0.5, 0.75, 1.0], 2 => vec![0.5, -0.5, 1.0, -1.0, 0.25, 0.0, -0.25, 0.75, -0.75, 0.125],
                                 _ => vec![-1.0, -0.5, 0.0, 0.5, 1.0, -0.75, -0.25, 0.25, 0.75, 0.125] };
    let mut x = vec![];
    for (i, v) in t.iter().enumerate() { x.push(1.0); x.push(*v); if d == 3 { x.push(if i % 2 == 0 { 0.5 } else { -0.5 }); } }
    x
}
fn glm_y(f: i64, d: i64) -> Vec<f64> {
    let base: [f64; N] = match d { 1 => [0.0, 1.0, 0.0, 2.0, 1.0, 3.0, 1.0, 2.0, 4.0, 3.0], 2 => [2.0, 0.0, 3.0, 1.0, 1.0, 2.0, 0.0, 4.0, 1.0, 1.0], _ => [1.0, 0.0, 2.0, 1.0, 3.0, 0.0, 1.0, 2.0, 2.0, 1.0] };
    base.iter().map(|v| match f { 2 => if *v >= 2.0 { 1.0 } else { 0.0 }, 5 | 6 => v + 0.5, 1 => v - 1.25, _ => *v }).collect()
}
fn wts(code: i64) -> Option<Vec<f64>> {
    match code { 0 => None, 1 => Some((0..N).map(|i| 1.0 + (i % 2) as f64).collect()), 2 => Some((0..N).map(|i| if i % 3 == 0 { 3.0 } else { 1.0 }).collect()), _ => Some(vec![1.0; 7]) }
}
fn offs(code: i64) -> Option<Vec<f64>> {
    match code { 0 => None, 1 => Some((0..N).map(|i| 0.125 * (i % 4) as f64 - 0.125).collect()), _ => Some(vec![0.0; 7]) }
}
fn alpha_of(c: i64) -> f64 { match c { 0 => 0.0, 1 => 0.5, _ => 2.0 } }
fn tol_of(c: i64) -> f64 { match c { 3 => 1e-3, 5 => 1e-5, _ => 1e-8 } }
fn coefset(v: i64) -> Vec<f64> { if v == 1 { vec![0.5, -0.25] } else { vec![0.125, 0.25, -0.125] } }
fn pred_x(code: i64) -> Vec<f64> { if code == 1 { vec![1.0, -0.5, 1.0, 0.0, 1.0, 0.5, 1.0, 2.0] } else { vec![1.0, 0.0, 0.5, 1.0, 1.0, -0.5, 1.0, -1.0, 0.5] } }
fn poly_data(d: i64) -> (Vec<f64>, Vec<f64>) {
    let x: Vec<f64> = (0..8).map(|i| match d { 1 => i as f64 * 0.5 - 1.5, 2 => (i * i) as f64 * 0.125 - 2.0, _ => 3.0 - i as f64 }).collect();
    let y: Vec<f64> = x.iter().enumerate().map(|(i, t)| 1.0 + 0.5 * t - 0.25 * t * t + if i % 3 == 0 { 0.375 } else { -0.125 } * d as f64).collect();
    (x, y)
}
fn series(d: i64) -> Vec<f64> {
    let mut s = vec![0.5 * d as f64, -0.25, 0.75];
    for i in 3..30 { let e = (((i * 7 + d as usize * 3) % 11) as f64 - 5.0) * 0.0625; let v = 0.5 * s[i - 1] - 0.25 * s[i - 2] + 0.125 * s[i - 3] + e + if d == 3 { 100.0 * 0.625 } else { 0.0 }; s.push(v); }
    s
}
fn step_of(c: i64) -> f64 { match c { 1 => 1e-3, 2 => 0.05, _ => 0.5 } }

enum M { Glm(GLM), Poly(PolynomialRegressor), Ar(AR), Adam(Adam), Sgd(SGD), Lm(LM) }

fn quad<'a>(p: &[Var<'a>], d: &[&[f64]]) -> Var<'a> {
    let mut s = (p[0] - d[0][0]) * (p[0] - d[0][0]) * d[1][0];
    for i in 1..p.len() { s = s + (p[i] - d[0][i]) * (p[i] - d[0][i]) * d[1][i]; }
    if p.len() >= 2 { s = s + p[0] * p[1] * 0.25; }
    s
}
fn line<'a>(p: &[Var<'a>], d: &[&[f64]]) -> Var<'a> { p[0] + p[1] * d[0][0] }

impl M {
    fn kind(&self) -> &'static str { match self { M::Glm(_) => "GLM", M::Poly(_) => "Poly", M::Ar(_) => "AR", M::Adam(_) => "Adam", M::Sgd(_) => "SGD", M::Lm(_) => "LM" } }
    fn new(kind: &str, cfg: &[i64]) -> Option<M> {
        let cfg = cfg.to_vec();
        let kind = kind.to_string();
        guard(move || match kind.as_str() {
            "GLM" => { let mut g = GLM::new(fam(cfg[0])); g.set_penalty(alpha_of(cfg[1])); g.set_tolerance(tol_of(cfg[2]));
                       if let Some(w) = wts(cfg[3]) { g.set_weights(&w); } if let Some(o) = offs(cfg[4]) { g.set_offset(&o); } M::Glm(g) }
            "Poly" => M::Poly(PolynomialRegressor::new(cfg[0] as usize - 1)),
            "AR" => M::Ar(AR::new(cfg[0] as usize)),
            "Adam" => M::Adam(if cfg[0] == 1 { Adam::default() } else { Adam::with_stepsize(step_of(cfg[0])) }),
            "SGD" => M::Sgd(SGD::new(step_of(cfg[0]), if cfg[1] == 0 { 0.0 } else { 0.5 }, cfg[2] == 1)),
            _ => M::Lm(if cfg[0] == 1 { LM::default() } else { LM::new(1e-10, 1e-10, 1e-3) }),
        })
    }
    /// setter of configuration field i (1-based); false if this kind has no such setter
    fn set(&mut self, i: usize, v: i64) -> bool {
        match self {
            M::Glm(g) => { match i { 1 => { g.family = fam(v); } 2 => { g.set_penalty(alpha_of(v)); } 3 => { g.set_tolerance(tol_of(v)); }
                                     4 => { match wts(v) { Some(w) => { g.set_weights(&w); } None => { g.weights = None; } } }
                                     _ => { match offs(v) { Some(o) => { g.set_offset(&o); } None => return false } } } true }
            M::Adam(a) => { a.set_stepsize(step_of(v)); i == 1 }
            M::Sgd(s) => { if i == 1 { s.set_stepsize(step_of(v)); true } else { false } }
            _ => false,
        }
    }
    fn set_coef(&mut self, v: i64) -> Option<usize> {
        match self {
            M::Glm(g) => { let c = coefset(v); g.set_coef(&c); Some(c.len()) }
            M::Poly(p) => { let c = coefset(v); p.coef = c.clone(); Some(c.len()) }
            M::Ar(a) => { a.coeffs = (0..a.p).map(|k| 0.25 / (k as f64 + 1.0) * v as f64).collect(); a.intercept = v as f64; Some(a.p) }
            _ => None,
        }
    }
    fn try_clone(&self) -> Option<M> {
        match self { M::Glm(g) => Some(M::Glm(g.clone())), M::Adam(a) => Some(M::Adam(a.clone())), M::Sgd(s) => Some(M::Sgd(s.clone())), M::Lm(l) => Some(M::Lm(l.clone())), _ => None }
    }
    fn fit(&mut self, cfg: &[i64], data: i64, arg: i64) -> (String, String) {
        let mut fp = Fp::new();
        let out: Option<String> = match self {
            M::Glm(g) => { let (x, y) = (glm_x(data), glm_y(cfg[0], data));
                let r = guard(|| g.fit(&x, &y, arg as usize).map_err(|e| e.to_string()));
                match r { Some(r) => { fp.s(&format!("{:?}", g)); Some(if r.is_ok() { "ok".into() } else { "err".into() }) } None => None } }
            M::Poly(p) => { let (x, y) = poly_data(data);
                match guard(|| { p.fit(&x, &y); }) { Some(_) => { fp.f(&p.coef); Some("ok".into()) } None => None } }
            M::Ar(a) => { let s = series(data);
                match guard(|| { a.fit(&s); }) { Some(_) => { fp.f(&a.coeffs); fp.f(&[a.intercept]); Some("ok".into()) } None => None } }
            M::Adam(o) => { let (c, w) = if data == 1 { (vec![1.0, -2.0], vec![1.0, 0.5]) } else { (vec![0.5, 0.25, -1.0], vec![2.0, 1.0, 0.25]) };
                let init = vec![0.0; c.len()];
                match guard(|| o.optimize(quad, &init, &[&c, &w], arg as usize).to_vec()) { Some(v) => { fp.f(&v); Some("ok".into()) } None => None } }
            M::Sgd(o) => { let (c, w) = if data == 1 { (vec![1.0, -2.0], vec![1.0, 0.5]) } else { (vec![0.5, 0.25, -1.0], vec![2.0, 1.0, 0.25]) };
                let init = vec![0.0; c.len()];
                match guard(|| o.optimize(quad, &init, &[&c, &w], arg as usize).to_vec()) { Some(v) => { fp.f(&v); Some("ok".into()) } None => None } }
            M::Lm(o) => { let (x, y) = poly_data(data);
                match guard(|| o.optimize(line, &[0.0, 0.0], &[&x, &y], arg as usize)) { Some((v, m)) => { fp.f(&v.to_vec()); fp.f(&m.data.to_vec()); Some("ok".into()) } None => None } }
        };
        match out { Some(o) => (o, fp.hex()), None => ("panic".into(), String::new()) }
    }
    fn obs(&self) -> Option<(Vec<bool>, String)> {
        let mut fp = Fp::new();
        match self {
            M::Glm(g) => {
                fp.s(&format!("{:?}", g));
                let mut st = vec![];
                let c = g.coef().map(|c| c.to_vec()); st.push(c.is_ok()); if let Ok(c) = c { fp.f(&c); }
                let d = g.deviance().map_err(|e| e.to_string()); st.push(d.is_ok()); if let Ok(d) = d { fp.f(&[d]); }
                let d = guard(|| g.dispersion().map_err(|e| e.to_string())); st.push(!matches!(d, Some(Err(_)))); if let Some(Ok(d)) = d { fp.f(&[d]); } else if d.is_none() { fp.s("panic"); }
                let d = guard(|| g.coef_covariance_matrix().map_err(|e| e.to_string())); st.push(!matches!(d, Some(Err(_)))); if let Some(Ok(d)) = d { fp.f(&d); } else if d.is_none() { fp.s("panic"); }
                let d = guard(|| g.coef_standard_error().map_err(|e| e.to_string())); st.push(!matches!(d, Some(Err(_)))); if let Some(Ok(d)) = d { fp.f(&d); } else if d.is_none() { fp.s("panic"); }
                let d = g.aic().map_err(|e| e.to_string()); st.push(d.is_ok()); if let Ok(d) = d { fp.f(&[d]); }
                let d = g.bic().map_err(|e| e.to_string()); st.push(d.is_ok()); if let Ok(d) = d { fp.f(&[d]); }
                Some((st, fp.hex()))
            }
            M::Poly(p) => { fp.s(&format!("{:?}", p)); Some((vec![], fp.hex())) }
            M::Ar(a) => { fp.s(&format!("{:?}", a)); fp.s(&format!("{}", a)); Some((vec![], fp.hex())) }
            _ => None,
        }
    }
    fn pred(&self, x: i64, n: i64) -> Option<(String, String)> {
        let mut fp = Fp::new();
        match self {
            M::Glm(g) => { let xs = pred_x(x);
                match guard(|| g.predict(&xs).map(|v| v.to_vec()).map_err(|e| e.to_string())) { Some(Ok(v)) => { fp.f(&v); Some(("ok".into(), fp.hex())) } Some(Err(_)) => Some(("err".into(), String::new())), None => Some(("panic".into(), String::new())) } }
            M::Poly(p) => { let xs = pred_x(x); match guard(|| p.predict(&xs)) { Some(v) => { fp.f(&v); Some(("ok".into(), fp.hex())) } None => Some(("panic".into(), String::new())) } }
            M::Ar(a) => { let s = series(x); match guard(|| a.predict(&s, n as usize)) { Some(v) => { fp.f(&v); Some(("ok".into(), fp.hex())) } None => Some(("panic".into(), String::new())) } }
            _ => None,
        }
    }
}

fn rand_cfg(kind: &str, rng: &mut Lcg, allow_bad: bool) -> Vec<i64> {
    let pick = |rng: &mut Lcg, xs: &[i64]| xs[rng.below(xs.len() as u64) as usize];
    match kind {
        "GLM" => vec![rng.range(1, 7), pick(rng, &[0, 0, 1, 2]), pick(rng, &[3, 5, 8]), if allow_bad { pick(rng, &[0, 0, 1, 2, 9]) } else { pick(rng, &[0, 0, 1, 2]) }, if allow_bad { pick(rng, &[0, 0, 1, 9]) } else { pick(rng, &[0, 1]) }],
        "Poly" => vec![rng.range(1, 5)],
        "AR" => vec![if allow_bad { rng.range(0, 4) } else { rng.range(1, 4) }],
        "Adam" => vec![rng.range(1, 4)],
        "SGD" => vec![rng.range(1, 4), rng.range(0, 2), rng.range(0, 2)],
        _ => vec![rng.range(1, 3)],
    }
}
fn rand_fit_arg(kind: &str, rng: &mut Lcg) -> (i64, i64) {
    let pick = |rng: &mut Lcg, xs: &[i64]| xs[rng.below(xs.len() as u64) as usize];
    match kind { "GLM" => (rng.range(1, 4), pick(rng, &[1, 3, 50])), "Poly" | "AR" => (rng.range(1, 4), 0), "LM" => (rng.range(1, 4), pick(rng, &[1, 5, 40])), _ => (rng.range(1, 3), pick(rng, &[1, 5, 40])) }
}

struct Sess { t: TraceOut, objs: Vec<(i64, M, Vec<i64>)>, next: i64 }
impl Sess {
    fn create(&mut self, kind: &str, cfg: &[i64]) -> Option<usize> {
        let id = self.next; self.next += 1;
        let m = M::new(kind, cfg);
        self.t.emit(json!({"op": "new", "id": id, "kind": kind, "cfg": cfg, "out": if m.is_some() { "ok" } else { "panic" }}));
        m.map(|m| { self.objs.push((id, m, cfg.to_vec())); self.objs.len() - 1 })
    }
    fn set(&mut self, k: usize, i: usize, v: i64) {
        let (id, m, cfg) = &mut self.objs[k];
        if m.set(i, v) { cfg[i - 1] = v; self.t.emit(json!({"op": "set", "id": *id, "i": i, "v": v, "n": 0, "out": "ok"})); }
    }
    fn set_coef(&mut self, k: usize, v: i64) {
        let (id, m, cfg) = &mut self.objs[k];
        if let Some(n) = m.set_coef(v) { if m.kind() == "Poly" { cfg[0] = n as i64; } self.t.emit(json!({"op": "set", "id": *id, "i": 0, "v": v, "n": n, "out": "ok"})); }
    }
    fn clone_of(&mut self, k: usize) -> Option<usize> {
        let c = self.objs[k].1.try_clone()?;
        let id = self.next; self.next += 1;
        let from = self.objs[k].0; let cfg = self.objs[k].2.clone();
        self.t.emit(json!({"op": "clone", "id": id, "from": from}));
        self.objs.push((id, c, cfg)); Some(self.objs.len() - 1)
    }
    fn fit(&mut self, k: usize, data: i64, arg: i64) {
        let (id, m, cfg) = &mut self.objs[k];
        let (out, fp) = m.fit(cfg, data, arg);
        self.t.emit(json!({"op": "fit", "id": *id, "data": data, "arg": arg, "out": out, "fp": fp}));
    }
    fn obs(&mut self, k: usize) {
        let (id, m, _) = &self.objs[k];
        if let Some((st, fp)) = m.obs() { self.t.emit(json!({"op": "obs", "id": *id, "status": st, "fp": fp})); }
    }
    fn pred(&mut self, k: usize, x: i64, n: i64) {
        let (id, m, _) = &self.objs[k];
        if let Some((out, fp)) = m.pred(x, n) { self.t.emit(json!({"op": "pred", "id": *id, "x": x, "n": n, "out": out, "fp": fp})); }
    }
    fn noise(&mut self, k: usize, rng: &mut Lcg, steps: u64) {
        let kind = self.objs[k].1.kind();
        for _ in 0..steps {
            match rng.below(6) {
                0 | 1 => { let c = rand_cfg(kind, rng, true); let i = rng.below(c.len() as u64) as usize; self.set(k, i + 1, c[i]); }
                2 => { let v = rng.range(1, 3); self.set_coef(k, v); }
                3 => { let (d, a) = rand_fit_arg(kind, rng); self.fit(k, d, a); }
                4 => { self.obs(k); }
                _ => { let x = rng.range(1, 3); self.pred(k, x, 5); }
            }
        }
    }
    /// bring object k to configuration `target`, field by field, in a random order
    fn steer(&mut self, k: usize, target: &[i64], rng: &mut Lcg) -> bool {
        let mut order: Vec<usize> = (0..target.len()).collect();
        for i in (1..order.len()).rev() { let j = rng.below(i as u64 + 1) as usize; order.swap(i, j); }
        for i in order { if self.objs[k].2[i] != target[i] { self.set(k, i + 1, target[i]); } }
        self.objs[k].2 == target
    }
}

pub fn record(seed: u64, rounds: usize, out: &str) {
    let mut rng = Lcg::new(seed);
    let mut s = Sess { t: TraceOut::new(out), objs: vec![], next: 1 };
    let kinds = ["GLM", "GLM", "GLM", "Poly", "AR", "Adam", "SGD", "LM"];
    for _ in 0..rounds {
        let kind = kinds[rng.below(kinds.len() as u64) as usize];
        let bad = rng.below(8) == 0;
        let target = rand_cfg(kind, &mut rng, bad);
        let (data, arg) = rand_fit_arg(kind, &mut rng);
        let px = if kind == "GLM" && rng.below(5) > 0 { if data == 3 { 2 } else { 1 } } else { rng.range(1, 3) };
        let pn = 5;
        // A: fresh object, configured directly
        let a = s.create(kind, &target);
        // B: an object with a history, steered to the same configuration
        let start = rand_cfg(kind, &mut rng, false);
        let b = s.create(kind, &start);
        let mut finals = vec![];
        if let Some(a) = a { finals.push(a); }
        if let Some(b) = b {
            let steps = rng.range(1, 7) as u64;
            s.noise(b, &mut rng, steps);
            // C: a clone taken in mid-history (where the type can be cloned), then both steered
            let c = if rng.below(2) == 0 { s.clone_of(b) } else { None };
            let steps = rng.range(0, 4) as u64;
            s.noise(b, &mut rng, steps);
            if s.steer(b, &target, &mut rng) { finals.push(b); }
            if let Some(c) = c { if s.steer(c, &target, &mut rng) { finals.push(c); } }
        }
        // same final call sequence on each: observe, fit, observe, predict - in an interleaved order
        for &k in &finals { s.obs(k); }
        for &k in &finals { s.fit(k, data, arg); }
        for &k in &finals { s.obs(k); s.pred(k, px, pn); }
        // reuse: the same fit again on A must give the same again (optimizers: leftover tape; models: warm start)
        if let Some(&k) = finals.first() { s.fit(k, data, arg); s.obs(k); }
        s.objs.clear();
    }
    s.t.finish();
}
