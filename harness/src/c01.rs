//! C01: linear systems through every entry point (spec/Linalg.tla).
use crate::common::*;
use compute::prelude::*;
use serde_json::{json, Value};

fn close_vec(obs: &[f64], exp: &[f64]) -> bool {
    let scale = exp.iter().fold(1.0f64, |m, x| m.max(x.abs()));
    obs.len() == exp.len() && obs.iter().zip(exp).all(|(o, e)| o.is_finite() && (o - e).abs() <= scale * 2f64.powi(-30))
}
fn col(b: &[f64], n: usize, k: usize, c: usize) -> Vec<f64> {
    (0..n).map(|i| b[i * k + c]).collect()
}

/// The six public entry points on (A, B): returns (name, flat row-major n x k solution or None on panic).
pub fn entry_points(a: &[f64], b: &[f64], n: usize, k: usize) -> Vec<(&'static str, Option<Vec<f64>>)> {
    let am = mk(Vector::new(a.to_vec()), n, n);
    let bm = mk(Vector::new(b.to_vec()), n, k);
    let assemble = |cols: Vec<Vec<f64>>| -> Vec<f64> { let mut out = vec![0.0; n * k]; for (c, v) in cols.iter().enumerate() { for i in 0..n { out[i * k + c] = v[i]; } } out };
    vec![
        ("solve (slice, per column)", guard(|| assemble((0..k).map(|c| solve(a, &col(b, n, k, c))).collect()))),
        ("solve_sys (slice, multi-RHS)", guard(|| solve_sys(a, b))),
        ("Matrix::solve(&Vector)", guard(|| assemble((0..k).map(|c| am.solve(&Vector::new(col(b, n, k, c))).to_vec()).collect()))),
        ("Matrix::solve(&Matrix)", guard(|| { let r = am.solve(&bm); assert_eq!((r.nrows, r.ncols), (n, k), "shape"); r.data.to_vec() })),
    ]
}
pub fn inverse_points(a: &[f64], n: usize) -> Vec<(&'static str, Option<Vec<f64>>)> {
    let am = mk(Vector::new(a.to_vec()), n, n);
    vec![
        ("invert_matrix (slice)", guard(|| invert_matrix(a))),
        ("Matrix::inv", guard(|| { let r = am.inv(); assert_eq!((r.nrows, r.ncols), (n, n), "shape"); r.data.to_vec() })),
    ]
}

pub fn replay(cases: &str, verdicts: &str) {
    let mut v = Verdicts::new(verdicts, "C01");
    for_each_line(cases, |c| {
        v.cases += 1;
        let n = c["n"].as_u64().unwrap() as usize;
        let a = f64s(&c["a"]);
        let cls = c["cls"].as_str().unwrap();
        if cls == "singular" { return; }
        let b = f64s(&c["b"]);
        let k = b.len() / n;
        let x = f64s(&c["x"]);
        let inv = f64s(&c["inv"]);
        let class = format!("{} route-{} n{}", cls, c["route"].as_str().unwrap(), n);
        if v.cases % 200 == 9 { v.sample(c.clone()); }
        for (name, got) in entry_points(&a, &b, n, k) {
            let ok = got.as_ref().map(|g| close_vec(g, &x)).unwrap_or(false);
            v.check(ok, name, &class, &c, json!(got.as_ref().map(|g| fjs(g))));
        }
        // homogeneity (Inv_SolveHomogeneous): (s A) X' = t B has X' = (t / s) X; powers of two keep the oracle exact.
        // A tiny or huge matrix, a tiny right-hand side: no absolute threshold may enter
        if v.cases % 3 == 0 {
            for (sa, sb) in [(-110i32, 0i32), (0, -60), (60, -60), (90, 200), (-600, -600), (520, 520)] {
                let (fa, fb) = (2f64.powi(sa), 2f64.powi(sb));
                let a2: Vec<f64> = a.iter().map(|t| t * fa).collect();
                let b2: Vec<f64> = b.iter().map(|t| t * fb).collect();
                let f = 2f64.powi(sb - sa);
                let x2: Vec<f64> = x.iter().map(|t| t * f).collect();
                for (name, got) in entry_points(&a2, &b2, n, k) {
                    let sc = x2.iter().fold(f, |m, t| m.max(t.abs()));
                    let ok = got.as_ref().map(|g| g.len() == x2.len() && g.iter().zip(&x2).all(|(p, q)| p.is_finite() && (p - q).abs() <= 2f64.powi(-30) * sc)).unwrap_or(false);
                    v.check(ok, name, &format!("{} scaled", class), &json!({"case": c, "scale_a_log2": sa, "scale_b_log2": sb}), json!(got.as_ref().map(|g| fjs(g))));
                }
                // two DIFFERENT tiny systems one after the other (the same equations in reversed order: same solution): the second is
                // solved on its own merits, however close - in absolute terms - its matrix is to the one just factorised
                if sa <= -600 && n >= 2 {
                    let ar: Vec<f64> = (0..n).rev().flat_map(|i| a2[i * n..(i + 1) * n].to_vec()).collect();
                    let br: Vec<f64> = (0..n).rev().flat_map(|i| b2[i * k..(i + 1) * k].to_vec()).collect();
                    for (name, got) in entry_points(&ar, &br, n, k) {
                        let sc = x2.iter().fold(f, |m, t| m.max(t.abs()));
                        let ok = got.as_ref().map(|g| g.len() == x2.len() && g.iter().zip(&x2).all(|(p, q)| p.is_finite() && (p - q).abs() <= 2f64.powi(-30) * sc)).unwrap_or(false);
                        v.check(ok, name, &format!("{} scaled, equations reversed, right after the first system", class), &json!({"case": c, "scale_a_log2": sa, "scale_b_log2": sb}), json!(got.as_ref().map(|g| fjs(g))));
                    }
                }
                let inv2: Vec<f64> = inv.iter().map(|t| t / fa).collect();
                for (name, got) in inverse_points(&a2, n) {
                    let sc = inv2.iter().fold(1.0 / fa, |m, t| m.max(t.abs()));
                    let ok = got.as_ref().map(|g| g.len() == inv2.len() && g.iter().zip(&inv2).all(|(p, q)| p.is_finite() && (p - q).abs() <= 2f64.powi(-30) * sc)).unwrap_or(false);
                    v.check(ok, name, &format!("{} scaled", class), &json!({"case": c, "scale_a_log2": sa}), json!(got.as_ref().map(|g| fjs(g))));
                }
            }
        }
        for (name, got) in inverse_points(&a, n) {
            let ok = got.as_ref().map(|g| close_vec(g, &inv)).unwrap_or(false);
            v.check(ok, name, &class, &c, json!(got.as_ref().map(|g| fjs(g))));
            // A * A^-1 = I to the same accuracy
            if let Some(g) = &got {
                let prod = matmul(&a, g, n, n, false, false);
                let okp = prod.iter().enumerate().all(|(q, p)| (p - if q / n == q % n { 1.0 } else { 0.0 }).abs() <= 2f64.powi(-30));
                v.check(okp, &format!("{} A*inv=I", name), &class, &c, fjs(&prod));
            }
        }
    });
    v.finish();
}

// ---- double-double helpers for the residual observation ----
fn two_sum(a: f64, b: f64) -> (f64, f64) { let s = a + b; let bb = s - a; (s, (a - (s - bb)) + (b - bb)) }
fn two_prod(a: f64, b: f64) -> (f64, f64) { let p = a * b; (p, a.mul_add(b, -p)) }
/// sum_k a_k * x_k - b in double-double, returned rounded to f64
fn dd_residual(arow: &[f64], xcol: &[f64], b: f64) -> f64 {
    let (mut hi, mut lo) = (-b, 0.0);
    for (a, x) in arow.iter().zip(xcol) {
        let (p, e) = two_prod(*a, *x);
        let (s, e2) = two_sum(hi, p);
        hi = s;
        lo += e + e2;
    }
    hi + lo
}
/// ceil( ||A X - B||_inf / (eps (||A||_inf ||X||_inf + ||B||_inf)) ), capped
pub fn scaled_residual(a: &[f64], x: &[f64], b: &[f64], n: usize, k: usize) -> i64 {
    if x.iter().any(|v| !v.is_finite()) { return -1; }
    let mut rmax = 0.0f64;
    for i in 0..n { for c in 0..k {
        let xc: Vec<f64> = (0..n).map(|r| x[r * k + c]).collect();
        rmax = rmax.max(dd_residual(&a[i * n..(i + 1) * n], &xc, b[i * k + c]).abs());
    } }
    let na = (0..n).map(|i| a[i * n..(i + 1) * n].iter().map(|v| v.abs()).sum::<f64>()).fold(0.0, f64::max);
    let nx = (0..n).map(|i| x[i * k..(i + 1) * k].iter().map(|v| v.abs()).sum::<f64>()).fold(0.0, f64::max);
    let nb = (0..n).map(|i| b[i * k..(i + 1) * k].iter().map(|v| v.abs()).sum::<f64>()).fold(0.0, f64::max);
    let denom = f64::EPSILON * (na * nx + nb);
    if denom == 0.0 { return if rmax == 0.0 { 0 } else { 1 << 30 }; }
    (rmax / denom).ceil().min(1e9) as i64
}

fn randn(rng: &mut Lcg) -> f64 {
    // sum of uniforms: inputs only need variety, not normality
    (0..6).map(|_| rng.below(1 << 20) as f64 / (1 << 20) as f64).sum::<f64>() - 3.0
}

/// real-valued matrix classes of the property's quantifier
fn gen_class(rng: &mut Lcg, cls: &str, n: usize) -> Vec<f64> {
    let mut a = vec![0.0; n * n];
    match cls {
        "dense" => for v in a.iter_mut() { *v = randn(rng); },
        // the same well-conditioned dense matrices at extreme uniform scales (LU is scale invariant)
        "dense-scaled-tiny" => for v in a.iter_mut() { *v = randn(rng) * 2f64.powi(-70); },
        "dense-scaled-huge" => for v in a.iter_mut() { *v = randn(rng) * 2f64.powi(70); },
        // non-symmetric, positive dominant diagonal, every entry far below machine epsilon in absolute terms
        "tiny-nonsymmetric-posdiag" => { for i in 0..n { for j in 0..n { a[i * n + j] = if i == j { (n as f64 + 2.0 + randn(rng).abs()) * 1e-19 } else { randn(rng) * 1e-19 }; } } }
        // the pivot search must take the LARGEST candidate: a tiny diagonal, one entry of order one and further small
        // candidates that still exceed the diagonal (choosing any of those costs a growth factor of 1e6)
        "pivot-trap" => { for v in a.iter_mut() { *v = randn(rng); }
                          if n >= 3 { let big = 1 + rng.below(n as u64 - 2) as usize; for i in 0..n { a[i * n] = if i == 0 { 1e-9 } else if i == big { 1.0 + randn(rng).abs() } else { 1e-6 * randn(rng) }; } } }
        "spd" => { let g: Vec<f64> = (0..n * n).map(|_| randn(rng)).collect(); let gtg = matmul(&g, &g, n, n, true, false);
                   for i in 0..n { for j in 0..n { a[i * n + j] = gtg[i * n + j] + if i == j { 1.0 } else { 0.0 }; } } }
        "sym-indef-posdiag" => { for i in 0..n { for j in i..n { let v = randn(rng) * 3.0; a[i * n + j] = v; a[j * n + i] = v; } a[i * n + i] = 0.5 + rng.below(100) as f64 / 100.0; } }
        "diagdom" => { for i in 0..n { let mut s = 0.0; for j in 0..n { if i != j { let v = randn(rng); a[i * n + j] = v; s += v.abs(); } } a[i * n + i] = (s + 1.0) * if rng.below(2) == 0 { 1.0 } else { -1.0 }; } }
        "perm-scaled-triangular" => {
            let scale = [1.0, 1e-17, 1e12, 3.0][rng.below(4) as usize];
            let mut t = vec![0.0; n * n];
            for i in 0..n { for j in i..n { t[i * n + j] = if i == j { (1.0 + rng.below(4) as f64) * scale } else { randn(rng) * scale }; } }
            let mut rows: Vec<usize> = (0..n).collect();
            for i in (1..n).rev() { let j = rng.below(i as u64 + 1) as usize; rows.swap(i, j); }
            for (i, r) in rows.iter().enumerate() { a[i * n..(i + 1) * n].copy_from_slice(&t[r * n..(r + 1) * n]); }
        }
        // genuinely ill-conditioned (not curable by row scaling): Q1 diag(sigma) Q2 with singular values graded from 1 down to 1e-10,
        // Q1, Q2 products of random plane rotations
        "svd-graded" => {
            for i in 0..n { a[i * n + i] = 10f64.powf(-10.0 * i as f64 / (n.max(2) - 1) as f64); }
            for p in 0..n { for q in (p + 1)..n {
                let (s1, c1) = (randn(rng) * 2.0).sin_cos();
                for j in 0..n { let (u, w) = (a[p * n + j], a[q * n + j]); a[p * n + j] = c1 * u - s1 * w; a[q * n + j] = s1 * u + c1 * w; }
                let (s2, c2) = (randn(rng) * 2.0).sin_cos();
                for i in 0..n { let (u, w) = (a[i * n + p], a[i * n + q]); a[i * n + p] = c2 * u - s2 * w; a[i * n + q] = s2 * u + c2 * w; }
            } }
        }
        _ => { // graded: D1 * dense * D2 with condition up to 1e10
            let d: Vec<f64> = (0..n).map(|i| 10f64.powf(-10.0 * i as f64 / (n.max(2) - 1) as f64)).collect();
            for i in 0..n { for j in 0..n { a[i * n + j] = randn(rng) * d[i] + if i == j { d[i] * 4.0 } else { 0.0 }; } }
        }
    }
    a
}

/// P3 recorder: (1) integer systems with planted integer solutions (exact certificate A X = B in TLC),
/// (2) real-valued classes of the quantifier through the scaled-residual observation.
pub fn record(seed: u64, nev: usize, out: &str) {
    let mut rng = Lcg::new(seed);
    let mut t = TraceOut::new(out);
    for _ in 0..nev {
        let n = rng.range(2, 7) as usize;
        let k = rng.range(1, 4) as usize;
        // unimodular A: product of elementary integer row operations applied to a permuted identity
        let mut a = vec![0.0; n * n];
        let mut rows: Vec<usize> = (0..n).collect();
        for i in (1..n).rev() { let j = rng.below(i as u64 + 1) as usize; rows.swap(i, j); }
        for (i, r) in rows.iter().enumerate() { a[i * n + r] = if rng.below(2) == 0 { 1.0 } else { -1.0 }; }
        for _ in 0..(2 * n) {
            let (p, q) = (rng.below(n as u64) as usize, rng.below(n as u64) as usize);
            if p == q { continue; }
            let m = rng.range(-2, 2) as f64;
            if a.iter().any(|v: &f64| v.abs() > 40.0) { break; }
            for j in 0..n { a[p * n + j] += m * a[q * n + j]; }
        }
        let sym = rng.below(4) == 0;
        if sym { a = matmul(&a, &a, n, n, true, false); } // A^T A: symmetric positive definite, still unimodular
        let xs: Vec<f64> = (0..n * k).map(|_| rng.range(-9, 9) as f64).collect();
        let b = matmul(&a, &xs, n, n, false, false);
        for (name, got) in entry_points(&a, &b, n, k) {
            match got {
                Some(g) => t.emit(json!({"kind": "exact", "entry": name, "n": n, "k": k, "a": projs(&a, 1), "b": projs(&b, 1), "out": "ok", "x": projrs_scaled(&g, 4096)})),
                None => t.emit(json!({"kind": "exact", "entry": name, "n": n, "k": k, "a": projs(&a, 1), "b": projs(&b, 1), "out": "panic", "x": []})),
            }
        }
        let mut ident = vec![0.0; n * n];
        for i in 0..n { ident[i * n + i] = 1.0; }
        for (name, got) in inverse_points(&a, n) {
            match got {
                Some(g) => t.emit(json!({"kind": "exact", "entry": name, "n": n, "k": n, "a": projs(&a, 1), "b": projs(&ident, 1), "out": "ok", "x": projrs_scaled(&g, 4096)})),
                None => t.emit(json!({"kind": "exact", "entry": name, "n": n, "k": n, "a": projs(&a, 1), "b": projs(&ident, 1), "out": "panic", "x": []})),
            }
        }
    }
    let classes = ["dense", "spd", "sym-indef-posdiag", "diagdom", "perm-scaled-triangular", "graded", "dense-scaled-tiny", "dense-scaled-huge", "tiny-nonsymmetric-posdiag", "pivot-trap", "svd-graded"];
    for e in 0..nev {
        let cls = classes[e % classes.len()];
        let n = rng.range(1, 32) as usize;
        let k = rng.range(1, 6) as usize;
        let a = gen_class(&mut rng, cls, n);
        let b: Vec<f64> = (0..n * k).map(|_| randn(&mut rng)).collect();
        for (name, got) in entry_points(&a, &b, n, k) {
            let (fin, res) = match &got { Some(g) => (g.iter().all(|v| v.is_finite()), scaled_residual(&a, g, &b, n, k)), None => (false, -1) };
            t.emit(json!({"kind": "obs", "entry": name, "cls": cls, "n": n, "k": k, "out": if got.is_some() { "ok" } else { "panic" }, "finite": fin, "resid": res}));
        }
        let mut ident = vec![0.0; n * n];
        for i in 0..n { ident[i * n + i] = 1.0; }
        for (name, got) in inverse_points(&a, n) {
            let (fin, res) = match &got { Some(g) => (g.iter().all(|v| v.is_finite()), scaled_residual(&a, g, &ident, n, n)), None => (false, -1) };
            t.emit(json!({"kind": "obs", "entry": name, "cls": cls, "n": n, "k": n, "out": if got.is_some() { "ok" } else { "panic" }, "finite": fin, "resid": res}));
        }
    }
    // more right-hand sides than unknowns (orders 1..5, up to 6 columns), right-hand sides planted from a solution of order one:
    // on an ill-conditioned matrix "multiply by the inverse" is then visibly not backward stable, elimination is
    for e in 0..nev {
        let cls = ["svd-graded", "dense", "perm-scaled-triangular", "graded", "spd", "svd-graded"][e % 6];
        let n = rng.range(1, 5) as usize;
        let k = rng.range(n as i64 + 1, 6.max(n as i64 + 1)) as usize;
        let a = gen_class(&mut rng, cls, n);
        let x0: Vec<f64> = (0..n * k).map(|_| randn(&mut rng)).collect();
        let b = matmul(&a, &x0, n, n, false, false);
        for (name, got) in entry_points(&a, &b, n, k) {
            let (fin, res) = match &got { Some(g) => (g.iter().all(|v| v.is_finite()), scaled_residual(&a, g, &b, n, k)), None => (false, -1) };
            t.emit(json!({"kind": "obs", "entry": name, "cls": format!("{} wide-rhs", cls), "n": n, "k": k, "out": if got.is_some() { "ok" } else { "panic" }, "finite": fin, "resid": res}));
        }
    }
    let _ = Value::Null;
    t.finish();
}
