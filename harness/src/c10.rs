//! C10: optimizers (spec/Optim.tla; LM against spec/PolyFit.tla's exact least squares).
use crate::common::*;
use compute::prelude::*;
use serde_json::{json, Value};
use std::cell::Cell;

fn rel_close(g: &[f64], e: &[f64], bits: i32) -> bool { rel_close_at(g, e, bits, 1.0) }
/// closeness relative to the larger of |expected| and the scale `unit` of the problem
fn rel_close_at(g: &[f64], e: &[f64], bits: i32, unit: f64) -> bool {
    g.len() == e.len() && g.iter().zip(e).all(|(a, b)| a.is_finite() && (a - b).abs() <= 2f64.powi(-bits) * b.abs().max(unit))
}

/// every way of arriving at a hyper-parameter setting gives the optimizer `new` gives: Adam's default is the published one
/// (alpha 0.001, beta1 0.9, beta2 0.999, epsilon 1e-8), `with_stepsize` changes the step size only, `set_stepsize` equals
/// construction with that step size. Judged on an objective whose gradients are of the order of epsilon itself.
fn configuration_entry_points(v: &mut Verdicts) {
    fn obj<'a>(p: &[Var<'a>], _d: &[&[f64]]) -> Var<'a> { let mut s = p[0] * p[0] * 3e-8; for i in 1..p.len() { s = s + p[i] * p[i] * (i as f64 * 2e-9) + p[i] * 1e-8; } s }
    let x0 = [1.0, -2.0, 0.5];
    let same = |a: &Option<Vec<f64>>, b: &Option<Vec<f64>>| match (a, b) { (Some(a), Some(b)) => a.iter().zip(b).all(|(x, y)| x.to_bits() == y.to_bits()), _ => false };
    for k in [1usize, 4, 25] {
        let reference = |s: f64| guard(|| Adam::new(s, 0.9, 0.999, 1e-8).optimize(obj, &x0, &[], k).to_vec());
        let d = guard(|| Adam::default().optimize(obj, &x0, &[], k).to_vec());
        v.check(same(&d, &reference(0.001)), "configuration", "Adam::default = published defaults", &json!({"k": k}), json!(d.as_ref().map(|g| fjs(g))));
        for s in [0.05, 1e-4] {
            let w = guard(|| Adam::with_stepsize(s).optimize(obj, &x0, &[], k).to_vec());
            v.check(same(&w, &reference(s)), "configuration", "Adam::with_stepsize = new(s, defaults)", &json!({"k": k, "stepsize": s}), json!(w.as_ref().map(|g| fjs(g))));
            let t = guard(|| { let mut a = Adam::new(0.3, 0.9, 0.999, 1e-8); a.optimize(obj, &x0, &[], 2); a.set_stepsize(s); a.optimize(obj, &x0, &[], k).to_vec() });
            v.check(same(&t, &reference(s)), "configuration", "Adam::set_stepsize = new(s, ..)", &json!({"k": k, "stepsize": s}), json!(t.as_ref().map(|g| fjs(g))));
            for (mu, nes) in [(0.0, false), (0.9, false), (0.5, true)] {
                let r = guard(|| SGD::new(s * 1e6, mu, nes).optimize(obj, &x0, &[], k).to_vec());
                let t = guard(|| { let mut a = SGD::new(7.0, mu, nes); a.optimize(obj, &x0, &[], 2); a.set_stepsize(s * 1e6); a.optimize(obj, &x0, &[], k).to_vec() });
                v.check(same(&t, &r), "configuration", "SGD::set_stepsize = new(s, ..)", &json!({"k": k, "stepsize": s * 1e6, "momentum": mu, "nesterov": nes}), json!(t.as_ref().map(|g| fjs(g))));
            }
        }
    }
}

pub fn replay(cases: &str, verdicts: &str) {
    let mut v = Verdicts::new(verdicts, "C10");
    if cases.contains("MC_Optim_") { configuration_entry_points(&mut v); }
    for_each_line(cases, |c| {
        v.cases += 1;
        if v.cases % 60 == 1 { v.sample(c.clone()); }
        if c.get("lm").is_some() { lm_case(&mut v, &c); return; }
        let cfg = &c["cfg"];
        let k = c["k"].as_u64().unwrap() as usize;
        let horizon = c["horizon"].as_u64().unwrap() as usize;
      // scale equivariance (Inv_ScaleEquivariant): start, linear terms / kinks and (Adam) step size multiplied by a power of
      // two move every iterate by that factor; replayed at 2^-130 and 2^90 for every third case
      // (2^600, SGD only: the iterates are representable, the value of the quadratic objective is not - the recurrence is driven by
      // gradients, which stay finite)
      for sc_log2 in [0i32, -130, 90, 600] {
        if sc_log2 != 0 && v.cases % 3 != 0 { continue; }
        if sc_log2 == 600 && cfg["opt"].as_str() != Some("sgd") { continue; }
        let sc = 2f64.powi(sc_log2);
        let scl = if sc_log2 == 0 { "" } else if sc_log2 < 0 { " tiny-scale" } else if sc_log2 == 600 { " objective-overflows" } else { " huge-scale" };
        let mut exp: Vec<f64> = f64s(&c["x"]).iter().map(|t| t * sc).collect();
        let mut x0: Vec<f64> = f64s(&cfg["x0"]).iter().map(|t| t * sc).collect();
        // an inert coordinate (no gradient ever) is put at a magnitude far beyond the others: it must stay, the others must move
        let inert = cfg["inert"].as_u64().unwrap_or(0) as usize;
        if inert > 0 && sc_log2 == 0 { x0[inert - 1] = -(2f64.powi(55)); exp[inert - 1] = -(2f64.powi(55)); }
        if inert > 0 && sc_log2 != 0 { continue; }
        let converged = c["converged"].as_bool().unwrap();
        let evals = Cell::new(0usize);
        let opt = cfg["opt"].as_str().unwrap();
        // budgets that must return this iterate: maxsteps = k, and - once converged - every larger budget
        let mut budgets = vec![k];
        if converged { budgets.push(k + 1); budgets.push(horizon + 50); }
        for budget in budgets {
            evals.set(0);
            // history of the optimizer object: fresh, or one that has already solved another problem (one parameter more, then two
            // fewer): the result is a function of the call's arguments alone
            let warm = Cell::new(false);
            let cloned = Cell::new(false);   // the call is made on a clone of the configured optimizer (a clone carries every hyper-parameter)
            let warmup = |o: &dyn Fn(&[f64])| { if warm.get() { let w: Vec<f64> = (0..x0.len() + 1).map(|i| 1.5 - i as f64).collect(); o(&w); if x0.len() >= 2 { o(&w[..x0.len() - 1]); } } };
            let run = || -> Option<Vec<f64>> {
                if opt == "sgd" {
                    let (a, b, cc) = (f64s(&cfg["a"]), f64s(&cfg["b"]).iter().map(|t| t * sc).collect::<Vec<f64>>(), num(&cfg["c"]));
                    let o = SGD::new(num(&cfg["alpha"]), num(&cfg["mu"]), cfg["nesterov"].as_bool().unwrap());
                    let o = if cloned.get() { guard(|| o.clone())? } else { o };
                    guard(|| warmup(&|w: &[f64]| { o.optimize(|p: &[Var], _d: &[&[f64]]| { let mut s = p[0] * p[0]; for i in 1..p.len() { s = s + p[i] * p[i] * (i as f64 + 1.0); } s }, w, &[], 3); }))?;
                    guard(|| o.optimize(|p: &[Var], _d: &[&[f64]]| {
                        evals.set(evals.get() + 1);
                        let mut s = p[0] * p[0] * a[0] + p[0] * b[0];
                        for i in 1..p.len() { s = s + p[i] * p[i] * a[i] + p[i] * b[i]; }
                        if p.len() >= 2 { s = s + p[0] * p[1] * cc; }
                        s
                    }, &x0, &[], budget).to_vec())
                } else {
                    let (cw, at) = (f64s(&cfg["cw"]), f64s(&cfg["at"]).iter().map(|t| t * sc).collect::<Vec<f64>>());
                    let hinge = cfg["hinge"].as_bool().unwrap_or(false);
                    let o = Adam::new(num(&cfg["alpha"]) * sc, num(&cfg["b1"]), num(&cfg["b2"]), num(&cfg["eps"]));
                    let o = if cloned.get() { guard(|| o.clone())? } else { o };
                    guard(|| warmup(&|w: &[f64]| { o.optimize(|p: &[Var], _d: &[&[f64]]| { let mut s = p[0] * p[0]; for i in 1..p.len() { s = s + p[i] * p[i] * (i as f64 + 1.0); } s }, w, &[], 3); }))?;
                    guard(|| o.optimize(|p: &[Var], _d: &[&[f64]]| {
                        evals.set(evals.get() + 1);
                        // one-sided variant: c (|x - a| + (x - a)), gradient exactly zero to the left of a
                        let term = |i: usize| if hinge { ((p[i] - at[i]).abs() + (p[i] - at[i])) * cw[i] } else { (p[i] - at[i]).abs() * cw[i] };
                        let mut s = term(0);
                        for i in 1..p.len() { s = s + term(i); }
                        s
                    }, &x0, &[], budget).to_vec())
                }
            };
            let g = run();
            let n_evals = evals.get();
            let g2 = { evals.set(0); run() };
            let class = format!("{}{} k{} {}", opt, if opt == "sgd" { format!(" {}{}", if num(&cfg["mu"]) == 0.0 { "plain" } else { "momentum" }, if cfg["nesterov"].as_bool().unwrap() { "+nesterov" } else { "" }) } else { format!(" eps{}{}{}", if num(&cfg["eps"]) == 0.0 { "=0" } else { ">0" }, if cfg["hinge"].as_bool().unwrap_or(false) { " one-sided" } else { "" }, if c["zero_grad"].as_bool().unwrap_or(false) { " zero-gradient-step" } else { "" }) + if inert > 0 { " inert-huge-coordinate" } else { "" } + if k >= 50 { " long-horizon" } else { "" } },
                                if k == 0 { "=0" } else if k == 1 { "=1" } else { ">1" }, if budget == k { "budget=k" } else { "budget>k after convergence" }) + scl;
            let ok = g.as_ref().map(|g| rel_close_at(g, &exp, 40, sc)).unwrap_or(false);
            v.check(ok, "k-th iterate", &class, &json!({"case": c, "maxsteps": budget, "scale_log2": sc_log2}), json!(g.as_ref().map(|g| fjs(g))));
            // one objective evaluation per step actually taken: stops early only once nothing changed
            v.check(n_evals == k, "objective evaluations", &class, &json!({"case": c, "maxsteps": budget}), json!({"evaluations": n_evals, "steps_in_spec": k}));
            let det = match (&g, &g2) { (Some(a), Some(b)) => a.iter().zip(b).all(|(x, y)| x.to_bits() == y.to_bits()), _ => false };
            v.check(det, "deterministic", &class, &json!({"case": c, "maxsteps": budget}), json!(null));
            if budget == k {
                warm.set(true); evals.set(0);
                let g3 = run();
                let n3 = evals.get();
                warm.set(false);
                cloned.set(true); evals.set(0);
                let g4 = run();
                cloned.set(false);
                let samec = match (&g, &g4) { (Some(a), Some(b)) => a.iter().zip(b).all(|(x, y)| x.to_bits() == y.to_bits()), _ => false };
                v.check(samec, "same result on a clone of the optimizer", &class, &json!({"case": c, "maxsteps": budget}), json!({"original": g.as_ref().map(|g| fjs(g)), "clone": g4.as_ref().map(|g| fjs(g))}));
                let same = match (&g, &g3) { (Some(a), Some(b)) => a.iter().zip(b).all(|(x, y)| x.to_bits() == y.to_bits()), _ => false };
                v.check(same && n3 == n_evals, "same result on a reused optimizer", &class, &json!({"case": c, "maxsteps": budget}), json!({"fresh": g.as_ref().map(|g| fjs(g)), "reused": g3.as_ref().map(|g| fjs(g)), "evaluations": n3}));
            }
        }
      }
    });
    v.finish();
}

fn lm_case(v: &mut Verdicts, c: &Value) {
    let x = f64s(&c["x"]);
    let y = f64s(&c["y"]);
    let coef = f64s(&c["coef"]);
    let cov = f64s(&c["cov"]);
    let p = coef.len();
    let class = format!("linear p{} {}", p, if x.iter().all(|t| t.abs() < 1.0) { "short-window" } else { "wide-window" });
    for (sname, start) in [("zero-start", vec![0.0; p]), ("poor-start", (0..p).map(|i| 50.0 - 70.0 * i as f64).collect::<Vec<f64>>())] {
        let lm = LM::new(1e-14, 1e-14, 1e-2);
        let g = guard(|| lm.optimize(|pr: &[Var], d: &[&[f64]]| {
            let t = d[0][0];
            let mut s = pr[0] + 0.0;
            let mut pw = t;
            for i in 1..pr.len() { s = s + pr[i] * pw; pw *= t; }
            s
        }, &start, &[&x, &y], 200));
        let rss = |th: &[f64]| x.iter().zip(&y).map(|(a, b)| { let f: f64 = th.iter().rev().fold(0.0, |acc, k| acc * a + k); (b - f).powi(2) }).sum::<f64>();
        match g {
            Some((th, cv)) => {
                let scale = coef.iter().fold(1.0f64, |m, t| m.max(t.abs()));
                // "reaches the least-squares solution": the parameters to 1e-7, or - where the problem is too ill-conditioned for
                // that - as far as LM's own acceptance test (a decrease of the computed RSS) can resolve: the excess
                // RSS(theta) - RSS* = d^T X^T X d (exact identity for a linear model, evaluated without cancellation) is within
                // 64 roundings of the minimal RSS (measured on the unchanged tree: <= 2)
                let excess = { let d: Vec<f64> = th.iter().zip(&coef).map(|(a, b)| a - b).collect();
                    x.iter().map(|t| { let mut pw = 1.0; let mut s = 0.0; for k in 0..d.len().min(p) { s += d[k] * pw; pw *= t; } s * s }).sum::<f64>() };
                let units = excess / (f64::EPSILON * rss(&coef)).max(1e-300);
                let okp = th.len() == p && (th.iter().zip(&coef).all(|(a, b)| (a - b).abs() <= 1e-7 * scale) || units <= 64.0);
                v.check(okp, "LM reaches least squares", &format!("{} {}", class, sname), c, json!({"theta": fjs(&th), "excess_rss_in_roundings_of_rss_min": units}));
                if std::env::var("VERIF_LM_UNITS").is_ok() { eprintln!("LMUNITS {} {} maxdev {:e} units {:e}", class, sname, th.iter().zip(&coef).map(|(a, b)| (a - b).abs()).fold(0.0f64, f64::max) / scale, units); }
                let okd = rss(&th) <= rss(&start) * (1.0 + 1e-12);
                v.check(okd, "LM descends", &format!("{} {}", class, sname), c, json!({"rss_start": rss(&start), "rss_end": rss(&th)}));
                let cs = cov.iter().fold(0.0f64, |m, t| m.max(t.abs())).max(1e-300);
                let okc = cv.nrows == p && cv.ncols == p && cv.data.iter().zip(&cov).all(|(a, b)| (a - b).abs() <= 1e-6 * cs);
                v.check(okc, "LM covariance", &format!("{} {}", class, sname), c, json!(fjs(&cv.data)));
            }
            None => v.check(false, "LM reaches least squares", &format!("{} {}", class, sname), c, json!("panic")),
        }
    }
    // the optimizer object has no memory: a second problem solved on the same object (after one with another parameter count)
    // gives bit for bit what a fresh object gives
    {
        fn line<'a>(pr: &[Var<'a>], d: &[&[f64]]) -> Var<'a> { let t = d[0][0]; let mut s = pr[0] + 0.0; let mut pw = t; for i in 1..pr.len() { s = s + pr[i] * pw; pw *= t; } s }
        let start = vec![0.0; p];
        let fresh = guard(|| LM::new(1e-14, 1e-14, 1e-2).optimize(line, &start, &[&x, &y], 200));
        let reused = guard(|| { let lm = LM::new(1e-14, 1e-14, 1e-2); lm.optimize(line, &vec![1.0; p + 1], &[&x, &y], 3); lm.optimize(line, &start, &[&x, &y], 200) });
        let same = match (&fresh, &reused) { (Some((a, ca)), Some((b, cb))) => a.iter().zip(b.iter()).all(|(u, w)| u.to_bits() == w.to_bits()) && ca.data.iter().zip(cb.data.iter()).all(|(u, w)| u.to_bits() == w.to_bits() || (u.is_nan() && w.is_nan())), _ => false };
        v.check(same, "same result on a reused optimizer", &format!("LM {}", class), c, json!({"fresh": fresh.as_ref().map(|g| fjs(&g.0)), "reused": reused.as_ref().map(|g| fjs(&g.0))}));
    }
    // default stopping tolerances from a start whose norm is a thousand times the solution's: the small-step test must follow the
    // CURRENT parameters (a threshold frozen at the start would stop 1e-3 early)
    {
        let start: Vec<f64> = (0..p).map(|i| if i % 2 == 0 { 1000.0 } else { -1000.0 }).collect();
        let lm = LM::default();
        let g = guard(|| lm.optimize(|pr: &[Var], d: &[&[f64]]| {
            let t = d[0][0];
            let mut s = pr[0] + 0.0;
            let mut pw = t;
            for i in 1..pr.len() { s = s + pr[i] * pw; pw *= t; }
            s
        }, &start, &[&x, &y], 200));
        let scale = coef.iter().fold(1.0f64, |m, t| m.max(t.abs()));
        let dev = g.as_ref().map(|(th, _)| th.iter().zip(&coef).map(|(a, b)| (a - b).abs()).fold(0.0f64, f64::max) / scale);
        v.check(dev.map(|d| d <= 2e-5).unwrap_or(false), "LM reaches least squares", &format!("{} huge-start default-tolerances", class), c, json!({"max_rel_dev": dev}));
    }
}

fn noise(rng: &mut Lcg) -> f64 { (0..6).map(|_| rng.below(1 << 20) as f64 / (1 << 20) as f64).sum::<f64>() - 3.0 }

/// P3 (relational observation): Levenberg-Marquardt on exponential and logistic curve fits never returns parameters
/// with a larger residual sum of squares than the start, and reports a p x p covariance.
pub fn record(seed: u64, nev: usize, out: &str) {
    let mut main_rng = Lcg::new(seed);
    let mut t = TraceOut::new(out);
    // after the random events: budget sweeps. Six non-linear problems (exponential / logistic, mildly poor start so that steps are
    // accepted), each run with every step budget 1..8 - the budget then runs out on an accepted step for several of them, and
    // whatever the budget the covariance must be the one AT THE RETURNED POINT and the RSS must not exceed the start's
    // (six more from the fixed far-off starts that force rejected steps: a proposal accepted after a rejection is still measured
    // against the current point)
    let sweeps = 12 * 8;
    for e in 0..(nev + sweeps) {
        let sweep = e >= nev;
        let mut sub = Lcg::new(7000 + (e.saturating_sub(nev) / 8) as u64);
        let rng: &mut Lcg = if sweep { &mut sub } else { &mut main_rng };
        let n = rng.range(5, 60) as usize;
        let kind = if sweep { ["exponential", "logistic"][((e - nev) / 16) % 2] } else { ["exponential", "logistic", "linear-short-window", "logistic-growth"][e % 4] };
        let one_sided = sweep && (e - nev) / 8 >= 6;      // abscissae 0..5: the far-off starts then overshoot by orders of magnitude
        let x: Vec<f64> = (0..n).map(|i| match kind { _ if one_sided => 5.0 * i as f64 / n as f64, "linear-short-window" => 0.05 + 0.3 * i as f64 / n as f64, "logistic-growth" => 20.0 * i as f64 / n as f64, _ => -2.0 + 4.0 * i as f64 / n as f64 }).collect();
        let truth = if kind == "logistic-growth" { [rng.range(30, 60) as f64 / 10.0, rng.range(10, 20) as f64 / 10.0, rng.range(80, 120) as f64 / 10.0] }
                    else { [rng.range(-15, 15) as f64 / 10.0, rng.range(2, 15) as f64 / 10.0, rng.range(-10, 10) as f64 / 10.0] };
        let ns = [0.0, 0.01, 0.2][rng.below(3) as usize];
        // "logistic-growth": L e^z / (1 + e^z), z = k (x - x0), written so that an overshooting trial step gives inf / inf
        let model = |th: &[f64], a: f64| -> f64 { match kind { "exponential" => th[0] * (th[1] * a).exp(), "logistic" => th[0] / (1.0 + (-(th[1] * a + th[2])).exp()),
            "logistic-growth" => { let ez = ((a - th[2]) * th[1]).exp(); th[0] * ez / (ez + 1.0) }, _ => th[0] * a } };
        let p = match kind { "exponential" => 2, "logistic" | "logistic-growth" => 3, _ => 1 };
        // the response in other units (amplitude parameter, noise and start scaled alike): descent, finiteness and the covariance
        // certificate are unit-free, so no absolute threshold may enter the gain ratio or the stopping tests
        let ysc = if sweep { rng.below(4); 1.0 } else { [1.0, 1.0, 2f64.powi(-30), 2f64.powi(25)][rng.below(4) as usize] };
        let mut truth = truth; truth[0] *= ysc;
        // the far-off sweeps use fixed textbook problems (growth 2 e^(0.8 x) and a logistic step at x = 2.5 on the window 0..5)
        if one_sided { truth = if kind == "exponential" { [2.0, 0.8, 0.0] } else { [3.0, 2.0, -5.0] }; }
        let y: Vec<f64> = x.iter().map(|a| model(&truth, *a) + ns * ysc * noise(&mut *rng)).collect();
        // poor starts: perturbed truth, or a fixed far-off point (wrong sign of the rate, wrong scale) that forces rejected steps
        let start: Vec<f64> = if kind == "logistic-growth" {
            // tiny amplitude and flat slope: the first weakly damped steps overshoot
            vec![[0.01, 0.05, 0.1][rng.below(3) as usize], [0.1, 0.05, 0.2][rng.below(3) as usize], rng.range(2, 9) as f64]
        } else { match if sweep { rng.below(4); if (e - nev) / 8 < 6 { 3 } else { ((e - nev) / 8) as u64 % 2 } } else { rng.below(4) } {
            0 => match kind { "exponential" => vec![5.0, -1.0], "logistic" => vec![1.0, 0.5, 0.0], _ => vec![40.0] },
            1 => match kind { "exponential" => vec![0.1, 3.0], "logistic" => vec![10.0, -2.0, 3.0], _ => vec![-7.0] },
            k => (0..p).map(|i| truth[i] + [1.5, -0.9, 2.0][i] * if k == 2 { 1.0 } else { 0.3 }).collect(),
        } };
        let mut start = start; start[0] *= ysc;
        if one_sided { let h = ((e - nev) / 8) % 3; start = if kind == "exponential" { [[5.0, -1.0], [0.1, 3.0], [10.0, 1.5]][h].to_vec() } else { [[1.0, 0.5, 0.0], [10.0, 5.0, -20.0], [1.0, 10.0, -10.0]][h].to_vec() }; }
        let budget = if sweep { 1 + (e - nev) % 8 } else if kind == "logistic-growth" || (ysc != 1.0 && kind != "linear-short-window") { [1usize, 2, 3, 5, 100][rng.below(5) as usize] } else { 100 };
        // the line fit is compared with the exact least-squares slope: run it with tight stopping tolerances
        // (the default 1e-6 legitimately stops about 2^-19 away)
        // (eps1 bounds the gradient norm |J^T r|, an absolute quantity in the units of the response: it is scaled with them)
        let lm = if kind == "linear-short-window" { LM::new(1e-13 * ysc, 1e-13, 1e-2) } else if ysc != 1.0 { LM::new(1e-6 * ysc, 1e-6, 1e-2) } else { LM::default() };
        let g = guard(|| lm.optimize(|pr: &[Var], d: &[&[f64]]| {
            let a = d[0][0];
            match kind { "exponential" => (pr[1] * a).exp() * pr[0], "logistic" => pr[0] / ((-(pr[1] * a + pr[2])).exp() + 1.0),
                         "logistic-growth" => { let ez = ((pr[2] * -1.0 + a) * pr[1]).exp(); pr[0] * ez / (ez + 1.0) }, _ => pr[0] * a }
        }, &start, &[&x, &y], budget));
        let rss = |th: &[f64]| x.iter().zip(&y).map(|(a, b)| (b - model(th, *a)).powi(2)).sum::<f64>();
        match g {
            Some((th, cv)) => {
                let (r0, r1) = (rss(&start), rss(&th));
                let r1 = if r1.is_nan() { f64::INFINITY } else { r1 };
                let ratio_log2 = if r1 <= r0 { -1 } else { ((r1 - r0) / r0.max(1e-300)).log2().ceil() as i64 };
                // linear one-parameter model: the least-squares slope is sum(xy)/sum(xx)
                let ls_dev_log2 = if kind == "linear-short-window" { let s = x.iter().zip(&y).map(|(a, b)| a * b).sum::<f64>() / x.iter().map(|a| a * a).sum::<f64>();
                    let d = (th[0] - s).abs() / s.abs().max(ysc); if d == 0.0 { -1074 } else { d.log2().ceil() as i64 } } else { -1074 };
                // covariance at the RETURNED point: (J^T J) C = s^2 I with J and s^2 = rss / (n - p) evaluated there; residual in
                // units of eps (||J^T J|| ||C|| + s^2), the backward-error scale of an inverse (as for C01)
                // (not judged for "logistic-growth": with e^z beyond 1e154 the reverse-mode derivative of e^z / (e^z + 1) is itself
                // wrong - (e^z + 1)^2 overflows -, so the Jacobian the optimizer sees is not the model's)
                let cov_resid: i64 = if kind == "logistic-growth" { 0 } else if cv.nrows == p && cv.ncols == p && n > p && th.iter().all(|v| v.is_finite()) {
                    let jac = |a: f64| -> Vec<f64> { match kind {
                        "exponential" => vec![(th[1] * a).exp(), th[0] * a * (th[1] * a).exp()],
                        "logistic" => { let sg = 1.0 / (1.0 + (-(th[1] * a + th[2])).exp()); vec![sg, th[0] * sg * (1.0 - sg) * a, th[0] * sg * (1.0 - sg)] }
                        "logistic-growth" => { let sg = 1.0 / (1.0 + (-((a - th[2]) * th[1])).exp()); vec![sg, th[0] * sg * (1.0 - sg) * (a - th[2]), -th[0] * sg * (1.0 - sg) * th[1]] }
                        _ => vec![a] } };
                    let mut jtj = vec![0.0; p * p];
                    for a in x.iter() { let j = jac(*a); for u in 0..p { for w in 0..p { jtj[u * p + w] += j[u] * j[w]; } } }
                    let s2 = r1 / (n - p) as f64;
                    // a direction without information (saturated logistic: a column of J that is zero to working precision) makes
                    // J^T J singular and the covariance undefined: not judged
                    let dmax = (0..p).map(|u| jtj[u * p + u]).fold(0.0f64, f64::max);
                    let dmin = (0..p).map(|u| jtj[u * p + u]).fold(f64::INFINITY, f64::min);
                    if !(dmin > 1e-10 * dmax) { 0 } else {
                    let (mut rmax, mut na, mut nc) = (0.0f64, 0.0f64, 0.0f64);
                    for u in 0..p { for w in 0..p {
                        let mut acc = 0.0; for k in 0..p { acc += jtj[u * p + k] * cv[[k, w]]; }
                        rmax = rmax.max((acc - if u == w { s2 } else { 0.0 }).abs()); na = na.max(jtj[u * p + w].abs()); nc = nc.max(cv[[u, w]].abs());
                    } }
                    // when the fit is exact the residual sum of squares is itself rounding noise of size n (eps |y|)^2: floor
                    let ymax = y.iter().fold(0.0f64, |m, v| m.max(v.abs()));
                    let den = f64::EPSILON * (p as f64 * na * nc + s2) + 4.0 * n as f64 * (f64::EPSILON * ymax).powi(2) / (n - p) as f64
                        // each residual y - f carries an absolute error eps |y|: rss is known to 2 sqrt(n rss) eps |y|
                        + 4.0 * f64::EPSILON * ymax * (n as f64 * r1).sqrt() / (n - p) as f64;
                    if den == 0.0 { if rmax == 0.0 { 0 } else { 1 << 30 } } else { (rmax / den).ceil().min(1e9) as i64 } }
                } else { -1 };
                t.emit(json!({"kind": kind, "units": if ysc == 1.0 { "unit" } else if ysc < 1.0 { "nano" } else { "mega" }, "n": n, "p": p, "out": "ok", "finite": th.iter().all(|v| v.is_finite()), "increase_log2": ratio_log2, "rss_not_increased": r1 <= r0 * (1.0 + 1e-12),
                              "cov_shape_ok": cv.nrows == p && cv.ncols == p, "ls_dev_log2": ls_dev_log2, "cov_resid": cov_resid, "noise": ns, "budget": budget, "cov_finite": cv.data.iter().all(|t| t.is_finite()), "start": fjs(&start), "theta": fjs(&th)}));
            }
            None => t.emit(json!({"kind": kind, "units": "?", "n": n, "p": p, "out": "panic", "finite": false, "increase_log2": 0, "rss_not_increased": false, "cov_shape_ok": false, "ls_dev_log2": 0, "cov_resid": -1, "noise": ns})),
        }
    }
    let _ = Value::Null;
    t.finish();
}
