//! X02: session traces (spec/Session.tla): a heap of matrices and distribution objects plus the thread-local generator.
use crate::c15::{apply as mat_apply, mat_json, ret_json};
use crate::common::*;
use crate::dist::*;
use compute::prelude::*;
use serde_json::{json, Value};

fn tokhex() -> String { format!("{:016x}", alea::get_seed()) }

struct Sess { t: TraceOut }
impl Sess {
    fn ev(&mut self, before: String, mut v: Value) {
        let o = v.as_object_mut().unwrap();
        o.insert("rng_before".into(), json!(before));
        o.insert("rng_after".into(), json!(tokhex()));
        self.t.emit(v);
    }
}

const GRID: [i64; 7] = [-4, 0, 1, 2, 4, 6, 16];

fn fp_of(xs: &[f64]) -> String {
    let mut h: u64 = 0xcbf29ce484222325;
    for x in xs { for b in x.to_bits().to_le_bytes() { h ^= b as u64; h = h.wrapping_mul(0x100000001b3); } }
    format!("{:016x}", h)
}

pub fn record(seed: u64, nsess: usize, out: &str) {
    let mut rng = Lcg::new(seed);
    let mut s = Sess { t: TraceOut::new(out) };
    let kinds = ["Normal", "Gamma", "Beta", "Exponential", "Uniform", "Poisson", "Gumbel", "Pareto"];
    let mut next_id: i64 = 1;
    for _ in 0..nsess {
        let sd = rng.range(1, 1 << 20) as u64;
        // the sampling script: which of three distributions is sampled, and how many draws
        let specs: Vec<(String, Vec<i64>)> = (0..3).map(|_| { let k = kinds[rng.below(kinds.len() as u64) as usize];
            let p: Vec<i64> = match k { "Normal" | "Gumbel" => vec![GRID[rng.below(7) as usize], [1, 2, 4, 6][rng.below(4) as usize]], "Uniform" => vec![0, [1, 4, 16][rng.below(3) as usize]],
                "Exponential" | "Poisson" => vec![[1, 2, 4, 6, 16][rng.below(5) as usize]], _ => vec![[1, 2, 4, 6][rng.below(4) as usize], [1, 2, 4, 16][rng.below(4) as usize]] };
            (k.to_string(), p) }).collect();
        let script: Vec<(usize, usize)> = (0..rng.range(2, 6)).map(|_| (rng.below(3) as usize, rng.range(1, 9) as usize)).collect();
        for pass in 0..2 {
            alea::set_seed(sd);
            s.t.emit(json!({"op": "seed", "s": sd, "rng_before": "", "rng_after": tokhex()}));
            let mut ids = vec![];
            let mut objs: Vec<D> = vec![];
            for (k, p) in specs.iter() {
                let b = tokhex();
                let d = D::new(k, &params_of(k, p)).expect("valid");
                let id = next_id; next_id += 1;
                s.ev(b, json!({"op": "new_dist", "id": id, "kind": k, "ps": p, "out": "ok"}));
                ids.push(id); objs.push(d);
            }
            // bystanders: only in the second pass (more live objects, more interleaved calls)
            let mut by_m: Vec<(i64, Matrix)> = vec![];
            let mut by_d: Vec<(i64, String, D)> = vec![];
            for (step, (which, n)) in script.iter().enumerate() {
                if pass == 1 {
                    for _ in 0..rng.range(1, 4) {
                        match rng.below(5) {
                            0 => { let (r, c) = (rng.range(1, 4), rng.range(1, 4)); let data: Vec<f64> = (0..r * c).map(|_| rng.range(-9, 9) as f64).collect();
                                   let b = tokhex(); let m = Matrix::new(data.clone(), r as i32, c as i32); let id = next_id; next_id += 1;
                                   s.ev(b, json!({"op": "new_mat", "id": id, "a": [r, c], "data": projs(&data, 1), "out": "ok", "m": mat_json(&m)})); by_m.push((id, m)); }
                            1 if !by_m.is_empty() => { let k = rng.below(by_m.len() as u64) as usize; let (id, m) = &mut by_m[k];
                                   let (op, a): (&str, Vec<i64>) = match rng.below(5) { 0 => ("t_mut", vec![]), 1 => ("reshape_mut", vec![-1, 1]), 2 => ("diag", vec![]), 3 => ("hrepeat", vec![2]), _ => ("get_row", vec![rng.range(0, 3)]) };
                                   if m.data.len() > 40 { continue; }
                                   let b = tokhex(); let got = mat_apply(m, op, &a);
                                   let (o, ret) = match &got { Some(r) => ("ok", ret_json(r)), None => ("panic", json!({"t": "none"})) };
                                   s.ev(b, json!({"op": "mat", "id": *id, "mop": op, "a": a, "out": o, "m": mat_json(m), "ret": ret})); }
                            2 => { let k = kinds[rng.below(kinds.len() as u64) as usize]; let p: Vec<i64> = (0..arity(k)).map(|_| GRID[rng.below(7) as usize]).collect();
                                   let b = tokhex(); let d = D::new(k, &params_of(k, &p)); let id = next_id; next_id += 1;
                                   s.ev(b, json!({"op": "new_dist", "id": id, "kind": k, "ps": p, "out": if d.is_some() { "ok" } else { "panic" }}));
                                   if let Some(d) = d { by_d.push((id, k.to_string(), d)); } }
                            3 if !by_d.is_empty() => { let k = rng.below(by_d.len() as u64) as usize; let (id, kind, d) = &mut by_d[k];
                                   let i = rng.below(arity(kind) as u64) as usize; let val = GRID[rng.below(7) as usize];
                                   let b = tokhex(); let ok = d.set(i, val as f64 / 4.0);
                                   s.ev(b, json!({"op": "dist", "id": *id, "dop": "set", "i": i + 1, "v": val, "ps": [], "out": if ok { "ok" } else { "panic" }})); }
                            _ => { if let Some((id, _, _)) = by_d.pop() { let b = tokhex(); s.ev(b, json!({"op": "drop", "id": id, "out": "ok"})); } }
                        }
                    }
                }
                let b = tokhex();
                let xs = guard(|| objs[*which].sample_n(*n).to_vec());
                match xs {
                    Some(xs) => s.ev(b, json!({"op": "sample", "id": ids[*which], "n": n, "out": "ok", "fp": fp_of(&xs), "step": step})),
                    None => s.ev(b, json!({"op": "sample", "id": ids[*which], "n": n, "out": "panic", "fp": "", "step": step})),
                }
            }
        }
    }
    s.t.finish();
}
