//! X01: behaviour outside the listed properties (spec/Extras.tla).
use crate::c15::{mat_json, mat_of, same};
use crate::common::*;
use compute::prelude::*;
use serde_json::{json, Value};

pub fn replay(cases: &str, verdicts: &str) {
    let mut v = Verdicts::new(verdicts, "X01");
    for_each_line(cases, |c| {
        v.cases += 1;
        if v.cases % 100 == 1 { v.sample(c.clone()); }
        match c["fam"].as_str().unwrap() {
            "vector" => {
                let x = f64s(&c["x"]);
                let e = f64s(&c["sorted"]);
                let vx = Vector::new(x.clone());
                let g = guard(|| vx.sorted().to_vec());
                v.check(g.as_ref().map(|g| all_eq(g, &e)).unwrap_or(false) && all_eq(&vx, &x), "Vector::sorted", "ints", &c, json!(g));
                let g = guard(|| { let mut w = vx.clone(); w.sort(); w.to_vec() });
                v.check(g.as_ref().map(|g| all_eq(g, &e)).unwrap_or(false), "Vector::sort", "ints", &c, json!(g));
                if !x.is_empty() {
                    let g = guard(|| vx.diff().to_vec());
                    v.check(g.as_ref().map(|g| all_eq(g, &f64s(&c["diff"]))).unwrap_or(false), "Vector::diff", "ints", &c, json!(g));
                }
            }
            "serde" => {
                let m = mat_of(&c["m"]);
                let g = guard(|| { let s = serde_json::to_string(&m).unwrap(); let b: Matrix = serde_json::from_str(&s).unwrap(); b });
                v.check(g.as_ref().map(|b| same(b, &m) && b.data.len() == b.nrows * b.ncols).unwrap_or(false), "serde round-trip", "Matrix", &c, json!(g.as_ref().map(mat_json)));
                let vv = Vector::new(m.data.to_vec());
                let g = guard(|| { let s = serde_json::to_string(&vv).unwrap(); let b: Vector = serde_json::from_str(&s).unwrap(); b.to_vec() });
                v.check(g.as_ref().map(|b| all_eq(b, &vv)).unwrap_or(false), "serde round-trip", "Vector", &c, json!(g));
            }
            "family" => {
                let f = match c["f"].as_str().unwrap() { "Gaussian" => ExponentialFamily::Gaussian, "Bernoulli" => ExponentialFamily::Bernoulli, "QuasiPoisson" => ExponentialFamily::QuasiPoisson,
                    "Poisson" => ExponentialFamily::Poisson, "Gamma" => ExponentialFamily::Gamma, _ => ExponentialFamily::Exponential };
                v.check(Some(f.has_dispersion()) == c["has_dispersion"].as_bool(), "has_dispersion", c["f"].as_str().unwrap(), &c, json!(f.has_dispersion()));
            }
            "mvn" => {
                let cov = mat_of(&c["cov"]);
                let ml = c["ml"].as_u64().unwrap() as usize;
                let g = guard(|| { MVN::new(vec![0.0; ml], cov.clone()); });
                v.check(g.is_some() == c["ok"].as_bool().unwrap(), "MVN::new validation", if c["ok"].as_bool().unwrap() { "valid" } else { "invalid" }, &c, json!(g.is_some()));
            }
            _ => {
                // Display prints the coefficients in lag order (they are stored reversed)
                let phi = f64s(&c["phi"]);
                let mut co = phi.clone(); co.reverse();
                let ar = { let mut a = AR::new(phi.len()); a.coeffs = co; a.intercept = 0.5; a };
                let s = format!("{}", ar);
                let lines: Vec<&str> = s.lines().collect();
                let ok = lines.len() == phi.len() + 2 && lines[0].contains(&format!("AR({})", phi.len()))
                    && (0..phi.len()).all(|i| lines[i + 1].trim_end().ends_with(&format!("{:.4}", phi[i])));
                v.check(ok, "AR Display", "lag-order", &c, json!(s));
            }
        }
    });
    let _ = Value::Null;
    v.finish();
}
