//! C12: broadcast arithmetic (spec/Broadcast.tla).
use crate::c15::{mat_json, mat_of};
use crate::common::*;
use compute::prelude::*;
use serde_json::{json, Value};

macro_rules! forms {
    ($op:tt, $a:expr, $b:expr) => {{
        let (a, b) = ($a, $b);
        vec![
            ("own-own", guard(|| a.clone() $op b.clone())),
            ("own-ref", guard(|| a.clone() $op &b)),
            ("ref-own", guard(|| &a $op b.clone())),
            ("ref-ref", guard(|| &a $op &b)),
        ]
    }};
}

macro_rules! by_op {
    ($op:expr, $a:expr, $b:expr) => {
        match $op {
            "add" => forms!(+, $a, $b),
            "sub" => forms!(-, $a, $b),
            "mul" => forms!(*, $a, $b),
            _ => forms!(/, $a, $b),
        }
    };
}

fn judge(v: &mut Verdicts, c: &Value, kind: &str, res: Vec<(&'static str, Option<Matrix>)>, exp: &Value, cls: &str, op: &str) {
    let exp_ok = exp["out"] == "ok";
    for (form, got) in res {
        let ok = match (&got, exp_ok) {
            (None, false) => true,
            (Some(m), true) => {
                m.nrows as u64 == exp["nrows"].as_u64().unwrap() && m.ncols as u64 == exp["ncols"].as_u64().unwrap()
                    && m.data.len() == m.nrows * m.ncols && all_eq(&m.data, &f64s(&exp["data"]))
            }
            _ => false,
        };
        let class = format!("{} {} {}", op, cls, if exp_ok { "compatible" } else { "incompatible" });
        let obs = match &got { Some(m) => mat_json(m), None => json!("panic") };
        let call = format!("{} {}", kind, form);
        v.check(ok, &call, &class, &if ok { Value::Null } else { c.clone() }, obs);
    }
}

pub fn replay(cases: &str, verdicts: &str) {
    let mut v = Verdicts::new(verdicts, "C12");
    for_each_line(cases, |c| {
        v.cases += 1;
        let l = mat_of(&c["l"]);
        let r = mat_of(&c["r"]);
        let op = c["op"].as_str().unwrap();
        let cls = c["cls"].as_str().unwrap();
        let exp = &c["exp"];
        if v.cases % 700 == 3 {
            v.sample(c.clone());
        }
        judge(&mut v, &c, "Matrix.Matrix", by_op!(op, l.clone(), r.clone()), exp, cls, op);
        if r.nrows == 1 {
            let rv = Vector::new(r.data.to_vec());
            judge(&mut v, &c, "Matrix.Vector", by_op!(op, l.clone(), rv.clone()), exp, cls, op);
        }
        if l.nrows == 1 {
            let lv = Vector::new(l.data.to_vec());
            judge(&mut v, &c, "Vector.Matrix", by_op!(op, lv.clone(), r.clone()), exp, cls, op);
        }
        // the same shapes with IEEE special values in the operands (0/0, inf - inf, 0 * inf, NaN, signed zeros, overflow): a compatible
        // pair still never panics and entry (i, j) is still left(i or 0, j or 0) op right(i or 0, j or 0), NaN where IEEE says NaN
        if exp["out"] == "ok" && v.cases % 2 == 0 {
            const SP: [f64; 9] = [0.0, f64::INFINITY, f64::NAN, -0.0, f64::NEG_INFINITY, 1.0, 1e308, -2.5, 5e-324];
            let ls = mk(Vector::new((0..l.data.len()).map(|k| SP[(k * 2 + v.cases as usize) % 9]).collect::<Vec<f64>>()), l.nrows, l.ncols);
            let rs = mk(Vector::new((0..r.data.len()).map(|k| SP[(k * 5 + 1 + v.cases as usize / 2) % 9]).collect::<Vec<f64>>()), r.nrows, r.ncols);
            let (nr, nc) = (l.nrows.max(r.nrows), l.ncols.max(r.ncols));
            let sc = |a: f64, b: f64| match op { "add" => a + b, "sub" => a - b, "mul" => a * b, _ => a / b };
            let want: Vec<f64> = (0..nr * nc).map(|q| { let (i, j) = (q / nc, q % nc);
                sc(ls.data[(if l.nrows == 1 { 0 } else { i }) * l.ncols + if l.ncols == 1 { 0 } else { j }], rs.data[(if r.nrows == 1 { 0 } else { i }) * r.ncols + if r.ncols == 1 { 0 } else { j }]) }).collect();
            for (form, got) in by_op!(op, ls.clone(), rs.clone()) {
                let ok = got.as_ref().map(|m| m.nrows == nr && m.ncols == nc && m.data.len() == want.len() && m.data.iter().zip(&want).all(|(a, b)| a.to_bits() == b.to_bits() || (a.is_nan() && b.is_nan()))).unwrap_or(false);
                v.check(ok, &format!("Matrix.Matrix {}", form), &format!("{} {} special-values", op, cls), &json!({"case": c, "left": fjs(&ls.data), "right": fjs(&rs.data)}), match &got { Some(m) => json!(fjs(&m.data)), None => json!("panic") });
            }
        }
    });
    v.finish();
}

/// P3: random larger shapes (one side possibly broadcast), random small integer entries.
pub fn record(seed: u64, n: usize, out: &str, maxdim: i64) {
    let mut rng = Lcg::new(seed);
    let mut t = TraceOut::new(out);
    let ops = ["add", "sub", "mul", "div"];
    for _ in 0..n {
        let (r1, c1) = (rng.range(1, maxdim), rng.range(1, maxdim));
        // derive the right shape: equal, 1, or (rarely) a mismatching size
        let pick = |rng: &mut Lcg, d: i64| match rng.below(8) { 0 | 1 | 2 => 1, 3 => (d % maxdim) + 1, _ => d };
        let (mut r2, mut c2) = (pick(&mut rng, r1), pick(&mut rng, c1));
        let (mut r1, mut c1) = (r1, c1);
        if rng.below(2) == 0 {
            std::mem::swap(&mut r1, &mut r2);
            std::mem::swap(&mut c1, &mut c2);
        }
        let ld: Vec<f64> = (0..r1 * c1).map(|_| rng.range(-9, 9) as f64).collect();
        let rd: Vec<f64> = (0..r2 * c2).map(|_| { let x = rng.range(1, 9); if rng.below(2) == 0 { -x as f64 } else { x as f64 } }).collect();
        let l = Matrix::new(ld, r1 as i32, c1 as i32);
        let r = Matrix::new(rd, r2 as i32, c2 as i32);
        let op = ops[rng.below(4) as usize];
        let kind = if r.nrows == 1 && rng.below(2) == 0 { "mv" } else if l.nrows == 1 && rng.below(2) == 0 { "vm" } else { "mm" };
        let got = match kind {
            "mv" => { let rv = Vector::new(r.data.to_vec()); by_op!(op, l.clone(), rv)[3].1.clone() }
            "vm" => { let lv = Vector::new(l.data.to_vec()); by_op!(op, lv, r.clone())[3].1.clone() }
            _ => by_op!(op, l.clone(), r.clone())[3].1.clone(),
        };
        match got {
            Some(m) => t.emit(json!({"op": op, "kind": kind, "l": mat_json(&l), "r": mat_json(&r), "out": "ok",
                                     "nrows": m.nrows, "ncols": m.ncols, "data": projrs(&m.data, 64)})),
            None => t.emit(json!({"op": op, "kind": kind, "l": mat_json(&l), "r": mat_json(&r), "out": "panic"})),
        }
    }
    t.finish();
}
