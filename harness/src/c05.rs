//! C05: matrix products (spec/Products.tla).
use crate::c15::{mat_json, mat_of};
use crate::common::*;
use compute::prelude::*;
use serde_json::{json, Value};

type MM = Matrix;
type VV = Vector;

fn mm_forms(meth: &str, a: &MM, b: &MM) -> Vec<(&'static str, Option<MM>)> {
    macro_rules! go {
        ($f:ident) => {
            vec![
                ("own.own", guard(|| <MM as Dot<MM, MM>>::$f(a, b.clone()))),
                ("own.ref", guard(|| <MM as Dot<&MM, MM>>::$f(a, b))),
                ("ref.own", guard(|| <&MM as Dot<MM, MM>>::$f(&a, b.clone()))),
                ("ref.ref", guard(|| <&MM as Dot<&MM, MM>>::$f(&a, b))),
            ]
        };
    }
    match meth { "dot" => go!(dot), "t_dot" => go!(t_dot), "dot_t" => go!(dot_t), _ => go!(t_dot_t) }
}
fn mv_forms(meth: &str, a: &MM, b: &VV) -> Vec<(&'static str, Option<VV>)> {
    macro_rules! go {
        ($f:ident) => {
            vec![
                ("own.own", guard(|| <MM as Dot<VV, VV>>::$f(a, b.clone()))),
                ("own.ref", guard(|| <MM as Dot<&VV, VV>>::$f(a, b))),
                ("ref.own", guard(|| <&MM as Dot<VV, VV>>::$f(&a, b.clone()))),
                ("ref.ref", guard(|| <&MM as Dot<&VV, VV>>::$f(&a, b))),
            ]
        };
    }
    match meth { "dot" => go!(dot), "t_dot" => go!(t_dot), "dot_t" => go!(dot_t), _ => go!(t_dot_t) }
}
fn vm_forms(meth: &str, a: &VV, b: &MM) -> Vec<(&'static str, Option<VV>)> {
    macro_rules! go {
        ($f:ident) => {
            vec![
                ("own.own", guard(|| <VV as Dot<MM, VV>>::$f(a, b.clone()))),
                ("own.ref", guard(|| <VV as Dot<&MM, VV>>::$f(a, b))),
                ("ref.own", guard(|| <&VV as Dot<MM, VV>>::$f(&a, b.clone()))),
                ("ref.ref", guard(|| <&VV as Dot<&MM, VV>>::$f(&a, b))),
            ]
        };
    }
    match meth { "dot" => go!(dot), "t_dot" => go!(t_dot), "dot_t" => go!(dot_t), _ => go!(t_dot_t) }
}
fn vv_forms(meth: &str, a: &VV, b: &VV) -> Vec<(&'static str, Option<f64>)> {
    macro_rules! go {
        ($f:ident) => {
            vec![
                ("own.own", guard(|| <VV as Dot<VV, f64>>::$f(a, b.clone()))),
                ("own.ref", guard(|| <VV as Dot<&VV, f64>>::$f(a, b))),
                ("ref.own", guard(|| <&VV as Dot<VV, f64>>::$f(&a, b.clone()))),
                ("ref.ref", guard(|| <&VV as Dot<&VV, f64>>::$f(&a, b))),
            ]
        };
    }
    match meth { "dot" => go!(dot), "t_dot" => go!(t_dot), "dot_t" => go!(dot_t), _ => go!(t_dot_t) }
}

pub fn replay(cases: &str, verdicts: &str) {
    let mut v = Verdicts::new(verdicts, "C05");
    for_each_line(cases, |c0| {
      v.cases += 1;
      // homogeneity (Inv_Homogeneous): operands scaled by powers of two, expected product scaled by their product
      // (9001 / 9002: one operand is square and symmetric up to the last bit - entries 2^53 and, above the diagonal, 2^53 + 2 -, the other
      // selects rows / columns (a single 1 per row / column, so every association of the sums is exact): the product shows whether the
      // square operand was transposed exactly as the flags say, whatever an approximate symmetry test thinks of it)
      for (sa, sb) in [(0i32, 0i32), (-60, 60), (-55, -55), (300, 200), (-500, 0), (9001, 9001), (9002, 9002)] {
        if (sa, sb) != (0, 0) && sa < 9000 && v.cases % 3 != 0 { continue; }
        let near_sym = sa >= 9000;
        let scale = |m: &Value, e: i32| -> Value { if m.get("panic").is_some() { return m.clone(); } let mut m = m.clone(); let f = 2f64.powi(e);
            let d: Vec<Value> = m["data"].as_array().unwrap().iter().map(|x| json!(x.as_f64().unwrap() * f)).collect(); m["data"] = json!(d); m };
        let mut c = c0.clone();
        if near_sym {
            let (m, l, n) = (c0["m"].as_u64().unwrap() as usize, c0["l"].as_u64().unwrap() as usize, c0["n"].as_u64().unwrap() as usize);
            let (ta, tb) = (c0["ta"].as_bool().unwrap(), c0["tb"].as_bool().unwrap());
            if c0["bad"].as_i64().unwrap() == 1 { continue; }
            let big = |i: usize, j: usize| 9007199254740992.0 + if i < j { 2.0 } else { 0.0 };
            let store = |logical: &dyn Fn(usize, usize) -> f64, r: usize, cc: usize, t: bool| -> Value {
                // logical r x cc matrix, stored transposed when the flag says the call will transpose it back
                let (sr, scc) = if t { (cc, r) } else { (r, cc) };
                json!({"nrows": sr, "ncols": scc, "data": (0..sr * scc).map(|q| { let (i, j) = (q / scc, q % scc); if t { logical(j, i) } else { logical(i, j) } }).collect::<Vec<f64>>()}) };
            if sa == 9001 {
                if l != n || l < 2 { continue; }
                // B's STORAGE is the near-symmetric matrix; op(B) = storage or its transpose; op(A) selects row (2 i + 1) mod l
                let opb = |k: usize, j: usize| if tb { big(j, k) } else { big(k, j) };
                let opa = |i: usize, k: usize| if k == (2 * i + 1) % l { 1.0 } else { 0.0 };
                c["a"] = store(&opa, m, l, ta);
                c["b"] = json!({"nrows": l, "ncols": n, "data": (0..l * n).map(|q| big(q / n, q % n)).collect::<Vec<f64>>()});
                c["exp"] = json!({"nrows": m, "ncols": n, "data": (0..m * n).map(|q| opb((2 * (q / n) + 1) % l, q % n)).collect::<Vec<f64>>()});
            } else {
                if m != l || l < 2 { continue; }
                let opa = |i: usize, k: usize| if ta { big(k, i) } else { big(i, k) };
                let opb = |k: usize, j: usize| if k == (2 * j + 1) % l { 1.0 } else { 0.0 };
                c["a"] = json!({"nrows": m, "ncols": l, "data": (0..m * l).map(|q| big(q / l, q % l)).collect::<Vec<f64>>()});
                c["b"] = store(&opb, l, n, tb);
                c["exp"] = json!({"nrows": m, "ncols": n, "data": (0..m * n).map(|q| opa(q / n, (2 * (q % n) + 1) % l)).collect::<Vec<f64>>()});
            }
            // X^T X of the new A (exact: at most one or two terms per entry would not be in general - not judged for this variant)
            c["xtx"] = json!(null);
            c["scale"] = json!("near-symmetric");
        } else if (sa, sb) != (0, 0) { c["a"] = scale(&c0["a"], sa); c["b"] = scale(&c0["b"], sb); c["exp"] = scale(&c0["exp"], sa + sb); c["xtx"] = scale(&c0["xtx"], 2 * sa); c["scale"] = json!([sa, sb]); }
        let sc = if (sa, sb) == (0, 0) { String::new() } else if near_sym { " near-symmetric-operand".to_string() } else { " scaled".to_string() };
        let a = mat_of(&c["a"]);
        let b = mat_of(&c["b"]);
        let (ta, tb) = (c["ta"].as_bool().unwrap(), c["tb"].as_bool().unwrap());
        let (m, l, n) = (c["m"].as_u64().unwrap() as usize, c["l"].as_u64().unwrap() as usize, c["n"].as_u64().unwrap() as usize);
        let bad = c["bad"].as_i64().unwrap() == 1;
        let exp: Option<MM> = if c["exp"].get("panic").is_some() { None } else { Some(mat_of(&c["exp"])) };
        let shape = if m == 1 && n == 1 { "inner" } else if l == 1 { "outer" } else if m == l && l == n { "square" } else { "rect" };
        let class = format!("t{}{} {} {}{}", ta as u8, tb as u8, shape, if bad { "nonconformable" } else { "conformable" }, sc);
        if v.cases % 300 == 1 {
            v.sample(c.clone());
        }
        let judge_slice = |g: &Option<Vec<f64>>| match (g, &exp) {
            (None, None) => true,
            (Some(r), Some(e)) => all_eq(r, &e.data),
            _ => false,
        };
        let g = guard(|| matmul(&a.data, &b.data, a.nrows, b.nrows, ta, tb));
        v.check(judge_slice(&g), "matmul", &class, &c, json!(g.as_ref().map(|r| fjs(r))));
        // "every block size >= 1": the sizes around the dimensions and the far end of the range (the "one single block" idiom)
        for bs in (1..=(2 * m.max(l).max(n))).chain([1usize << 40, usize::MAX / 2 + 1, usize::MAX - 1, usize::MAX]) {
            let g = guard(|| matmul_blocked(&a.data, &b.data, a.nrows, b.nrows, ta, tb, bs));
            let cls = format!("{} bs{}", class, if bs == 1 { "=1" } else if bs < l.max(n) { "<dim" } else if bs == l.max(n) { "=dim" } else if bs >= 1 << 40 { " huge" } else { ">dim" });
            v.check(judge_slice(&g), "matmul_blocked", &cls, &json!({"case": c, "bsize": bs}), json!(g.as_ref().map(|r| fjs(r))));
        }
        // the same buffer as both operands (A A^T, A^T A): the result must not depend on the operands being one object
        if !bad && sc.is_empty() {
            let a2 = a.data.to_vec();
            for (f1, f2) in [(false, true), (true, false)] {
                let alias = guard(|| matmul(&a.data, &a.data, a.nrows, a.nrows, f1, f2));
                let apart = guard(|| matmul(&a.data, &a2, a.nrows, a.nrows, f1, f2));
                v.check(alias.is_some() && alias == apart, "matmul", &format!("aliased operands t{}{} {}", f1 as u8, f2 as u8, shape), &c, json!({"aliased": alias.as_ref().map(|r| fjs(r)), "separate": apart.as_ref().map(|r| fjs(r))}));
                let alias = guard(|| if f2 { a.dot_t(&a) } else { a.t_dot(&a) });
                let ac = a.clone();
                let apart = guard(|| if f2 { a.dot_t(&ac) } else { a.t_dot(&ac) });
                let same = match (&alias, &apart) { (Some(p), Some(q)) => p.nrows == q.nrows && p.ncols == q.ncols && all_eq(&p.data, &q.data), _ => false };
                v.check(same, if f2 { "Matrix.dot_t(Matrix)" } else { "Matrix.t_dot(Matrix)" }, &format!("aliased operands {}", shape), &c, json!(alias.as_ref().map(mat_json)));
            }
        }
        // the same operand BUFFERS again after two entries were exchanged in place (same address, length, shape and entry sum): the product is
        // a function of the values - equal to the product of fresh copies, bit for bit
        if !bad && sc.is_empty() && a.data.len() >= 2 && b.data.len() >= 2 {
            let r = guard(|| {
                let (mut ab, mut bb) = (a.data.to_vec(), b.data.to_vec());
                let _ = matmul(&ab, &bb, a.nrows, b.nrows, ta, tb);
                let (la, lb) = (ab.len(), bb.len());
                ab.swap(0, la - 1); bb.swap(0, lb - 1);
                let got = matmul(&ab, &bb, a.nrows, b.nrows, ta, tb);
                let want = matmul(&ab.clone(), &bb.clone(), a.nrows, b.nrows, ta, tb);
                // definition on the integers, for the exchanged operands
                let (ra, ca, rb, cb) = (a.nrows, a.ncols, b.nrows, b.ncols);
                let at = |i: usize, k: usize| if ta { ab[k * ca + i] } else { ab[i * ca + k] };
                let bt = |k: usize, j: usize| if tb { bb[j * cb + k] } else { bb[k * cb + j] };
                let (mm, ll, nn) = (if ta { ca } else { ra }, if ta { ra } else { ca }, if tb { rb } else { cb });
                let def: Vec<f64> = (0..mm * nn).map(|q| (0..ll).map(|k| at(q / nn, k) * bt(k, q % nn)).sum::<f64>()).collect();
                (got, want, def)
            });
            let okb = r.as_ref().map(|(g, w, d)| g.len() == w.len() && g.iter().zip(w).all(|(p, q)| p.to_bits() == q.to_bits()) && all_eq(g, d)).unwrap_or(false);
            v.check(okb, "matmul", &format!("same buffers after an in-place exchange t{}{}", ta as u8, tb as u8), &c, json!(r.as_ref().map(|(g, _, d)| json!({"got": fjs(g), "definition": fjs(d)}))));
        }
        // a 1 x 1 right operand is a matrix, not a scalar: (m x l) . (1 x 1) with l >= 2 has no conformable reading under the flags
        // (op(A) has l >= 2 columns) and is rejected like any other mismatch - in every ownership form
        if !bad && sc.is_empty() && l >= 2 && m >= 2 {
            let one = mk(Vector::new(vec![3.0]), 1, 1);
            let meth1 = if ta { "t_dot" } else { "dot" };
            for (form, g) in mm_forms(meth1, &a, &one) {
                v.check(g.is_none(), &format!("Matrix.{}(1x1 Matrix) {}", meth1, form), "nonconformable 1x1 right operand", &c, g.as_ref().map(mat_json).unwrap_or(json!("panic")));
            }
        }
        if !bad && !near_sym {
            let g = guard(|| xtx(&a.data, a.nrows));
            let e = mat_of(&c["xtx"]);
            v.check(g.as_ref().map(|r| all_eq(r, &e.data)).unwrap_or(false), "xtx", shape, &c, json!(g.as_ref().map(|r| fjs(r))));
        }
        let meth = match (ta, tb) { (false, false) => "dot", (true, false) => "t_dot", (false, true) => "dot_t", _ => "t_dot_t" };
        for (form, g) in mm_forms(meth, &a, &b) {
            let ok = match (&g, &exp) { (None, None) => true, (Some(r), Some(e)) => r.nrows == e.nrows && r.ncols == e.ncols && all_eq(&r.data, &e.data), _ => false };
            v.check(ok, &format!("Matrix.{}(Matrix) {}", meth, form), &class, &c, g.as_ref().map(mat_json).unwrap_or(json!("panic")));
        }
        if n == 1 {
            // Matrix . Vector: the vector is a column; transposing it does nothing
            let bv = Vector::new(b.data.to_vec());
            for meth in if ta { ["t_dot", "t_dot_t"] } else { ["dot", "dot_t"] } {
                for (form, g) in mv_forms(meth, &a, &bv) {
                    let ok = match (&g, &exp) { (None, None) => true, (Some(r), Some(e)) => all_eq(r, &e.data), _ => false };
                    v.check(ok, &format!("Matrix.{}(Vector) {}", meth, form), &class, &c, json!(g.as_ref().map(|r| fjs(r))));
                }
            }
        }
        if m == 1 {
            let av = Vector::new(a.data.to_vec());
            for meth in if tb { ["dot_t", "t_dot_t"] } else { ["dot", "t_dot"] } {
                for (form, g) in vm_forms(meth, &av, &b) {
                    let ok = match (&g, &exp) { (None, None) => true, (Some(r), Some(e)) => all_eq(r, &e.data), _ => false };
                    v.check(ok, &format!("Vector.{}(Matrix) {}", meth, form), &class, &c, json!(g.as_ref().map(|r| fjs(r))));
                }
            }
        }
        if m == 1 && n == 1 {
            let av = Vector::new(a.data.to_vec());
            let bv = Vector::new(b.data.to_vec());
            for meth in ["dot", "t_dot", "dot_t", "t_dot_t"] {
                for (form, g) in vv_forms(meth, &av, &bv) {
                    let ok = match (&g, &exp) { (None, None) => true, (Some(r), Some(e)) => *r == e.data[0], _ => false };
                    let lc = format!("len{} {}", if l % 8 == 0 { "%8=0".to_string() } else if l < 8 { "<8".to_string() } else { ">8".to_string() }, if bad { "mismatch" } else { "ok" });
                    v.check(ok, &format!("Vector.{}(Vector) {}", meth, form), &format!("{}{}", lc, sc), &c, json!(g));
                }
            }
        }
      }
    });
    v.finish();
}

/// P3: random shapes up to `maxdim` with random integer entries; one event per product call.
pub fn record(seed: u64, nev: usize, out: &str, maxdim: i64) {
    let mut rng = Lcg::new(seed);
    let mut t = TraceOut::new(out);
    for k in 0..nev {
        let (m, l, n) = (rng.range(1, maxdim), rng.range(1, maxdim), rng.range(1, maxdim));
        let (ta, tb) = (rng.below(2) == 1, rng.below(2) == 1);
        let bad = if rng.below(8) == 0 { 1 } else { 0 };
        let (ar, ac) = if ta { (l, m) } else { (m, l) };
        let (br, bc) = if tb { (n, l + bad) } else { (l + bad, n) };
        let a = Matrix::new((0..ar * ac).map(|_| rng.range(-50, 50) as f64).collect::<Vec<f64>>(), ar as i32, ac as i32);
        let b = Matrix::new((0..br * bc).map(|_| rng.range(-50, 50) as f64).collect::<Vec<f64>>(), br as i32, bc as i32);
        let which = k % 3;
        let bs = rng.range(1, 2 * maxdim) as usize;
        let g: Option<Vec<f64>> = match which {
            0 => guard(|| matmul(&a.data, &b.data, a.nrows, b.nrows, ta, tb)),
            1 => guard(|| matmul_blocked(&a.data, &b.data, a.nrows, b.nrows, ta, tb, bs)),
            _ => guard(|| { let meth = match (ta, tb) { (false, false) => "dot", (true, false) => "t_dot", (false, true) => "dot_t", _ => "t_dot_t" };
                            mm_forms(meth, &a, &b).pop().unwrap().1.expect("panicked").data.to_vec() }),
        };
        let call = ["matmul", "matmul_blocked", "Dot"][which];
        match g {
            Some(r) => t.emit(json!({"call": call, "bs": bs, "ta": ta, "tb": tb, "a": mat_json(&a), "b": mat_json(&b), "out": "ok", "data": projs(&r, 1)})),
            None => t.emit(json!({"call": call, "bs": bs, "ta": ta, "tb": tb, "a": mat_json(&a), "b": mat_json(&b), "out": "panic", "data": []})),
        }
    }
    // shapes 17..64: relational observation matmul = matmul_blocked (bit-for-bit) on real entries
    for _ in 0..(nev / 10).max(3) {
        let (m, l, n) = (rng.range(17, 64), rng.range(17, 64), rng.range(17, 64));
        let (ta, tb) = (rng.below(2) == 1, rng.below(2) == 1);
        let (ar, ac) = if ta { (l, m) } else { (m, l) };
        let (br, bc) = if tb { (n, l) } else { (l, n) };
        let a: Vec<f64> = (0..ar * ac).map(|_| rng.range(-1000, 1000) as f64 / 64.0).collect();
        let b: Vec<f64> = (0..br * bc).map(|_| rng.range(-1000, 1000) as f64 / 64.0).collect();
        let bs = rng.range(1, 80) as usize;
        let g1 = guard(|| matmul(&a, &b, ar as usize, br as usize, ta, tb));
        let g2 = guard(|| matmul_blocked(&a, &b, ar as usize, br as usize, ta, tb, bs));
        let same = match (&g1, &g2) { (Some(x), Some(y)) => x.len() == (m * n) as usize && all_eq(x, y), _ => false };
        t.emit(json!({"call": "blocked_equals_plain", "m": m, "l": l, "n": n, "bs": bs, "ta": ta, "tb": tb, "out": "ok", "same": same}));
    }
    t.finish();
}
