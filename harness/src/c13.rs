//! C13: autocorrelation, AR fitting and forecasting (spec/TimeSeries.tla).
use crate::common::*;
use compute::prelude::*;
use serde_json::{json, Value};

const OFFS: [f64; 3] = [0.0, 1000.0, 1e6];

fn fit_coeffs(ar: &AR) -> Vec<f64> {
    let mut c = ar.coeffs.clone();
    c.reverse(); // stored reversed
    c
}

pub fn replay(cases: &str, verdicts: &str) {
    let mut v = Verdicts::new(verdicts, "C13");
    for_each_line(cases, |c| {
        v.cases += 1;
        if v.cases % 100 == 1 { v.sample(c.clone()); }
        if c["fam"] == "forecast" {
            let phi = f64s(&c["phi"]);
            let data = f64s(&c["data"]);
            let mu = num(&c["mu"]);
            let h = c["h"].as_u64().unwrap() as usize;
            let exp = f64s(&c["exp"]);
            for off in [0.0, 1000.0, 1048576.0] {
                let mut co = phi.clone();
                co.reverse();
                let ar = { let mut a = AR::new(phi.len()); a.coeffs = co; a.intercept = mu + off; a };
                let d: Vec<f64> = data.iter().map(|t| t + off).collect();
                let e: Vec<f64> = exp.iter().map(|t| t + off).collect();
                let g = guard(|| ar.predict(&d, h));
                let ok = g.as_ref().map(|g| g.len() == h && g.iter().zip(&e).all(|(a, b)| (a - b).abs() <= 2f64.powi(-40) * (1.0 + off.abs()))).unwrap_or(false);
                v.check(ok, "AR::predict given-coefficients", &format!("p{} {}", phi.len(), if off == 0.0 { "offset0" } else { "shifted" }), &c, json!(g.as_ref().map(|g| fjs(g))));
                // every shorter horizon is a prefix
                let g1 = guard(|| ar.predict(&d, 1));
                let ok1 = match (&g, &g1) { (Some(a), Some(b)) => b.len() == 1 && b[0] == a[0], _ => false };
                v.check(ok1, "AR::predict horizon-prefix", &format!("p{}", phi.len()), &c, json!(g1.as_ref().map(|g| fjs(g))));
            }
            // long horizons (Inv_Semigroup: forecasting H steps = forecasting k steps, appending them to the history and forecasting the
            // remaining H - k), replayed with persistent coefficients of the case's order - root 255/256, or a slowly damped cycle of
            // modulus 0.998 - so that forecast 700 is still far from the mean
            {
                let p = phi.len();
                let mut co = vec![0.0; p];
                if p == 1 { co[0] = 255.0 / 256.0; } else { co[0] = 2.0 * 0.998 * (0.05f64).cos(); co[1] = -0.998 * 0.998; }
                let mut rc = co.clone(); rc.reverse();
                let ar = { let mut a = AR::new(p); a.coeffs = rc; a.intercept = mu; a };
                let hist: Vec<f64> = data.iter().enumerate().map(|(i, t)| t * 8.0 + 40.0 + i as f64).collect();
                let big = 700usize;
                if let Some(f) = guard(|| ar.predict(&hist, big)) {
                    let scale = f.iter().chain(hist.iter()).fold(1.0f64, |m, t| m.max((t - mu).abs()));
                    let far = (f[big - 1] - mu).abs() >= 1e-3 * scale;
                    for k in [1usize, 200, 255, 256, 257, 300, 512, 699] {
                        let ext: Vec<f64> = hist.iter().chain(f[..k].iter()).cloned().collect();
                        let g = guard(|| ar.predict(&ext, big - k));
                        let ok = f.len() == big && g.as_ref().map(|g| g.len() == big - k && g.iter().zip(&f[k..]).all(|(a, b)| (a - b).abs() <= 1e-9 * scale)).unwrap_or(false);
                        v.check(ok && far, "AR::predict long-horizon semigroup", &format!("p{} split{}", if p == 1 { "1" } else { ">1" }, if k < 256 { "<256" } else if k == 256 { "=256" } else { ">256" }), &json!({"case": c, "split": k, "still_far_from_mean": far}), json!(g.as_ref().map(|g| fjs(&g[..g.len().min(3)]))));
                    }
                } else { v.check(false, "AR::predict long-horizon semigroup", "panic", &c, json!("panic")); }
            }
            return;
        }
        let x = f64s(&c["x"]);
        let n = x.len();
        let acovf_e = f64s(&c["acovf"]);
        let acf_e = f64s(&c["acf"]);
        let nonconst = !acf_e.is_empty();
        for off in OFFS {
            let xs: Vec<f64> = x.iter().map(|t| t + off).collect();
            let oc = if off == 0.0 { "offset0" } else if off < 1e5 { "offset1e3" } else { "offset1e6" };
            let tol = 2f64.powi(-40) * (4.0 + 2.0 * off.abs());
            let mut ok_cov = true; let mut ok_even = true; let mut ok_acf = true;
            let mut worst = json!(null);
            for k in -(n as i32 - 1)..=(n as i32 - 1) {
                let e = acovf_e[k.unsigned_abs() as usize];
                let g = guard(|| acovf(&xs, k));
                if !g.map(|g| (g - e).abs() <= tol).unwrap_or(false) { ok_cov = false; worst = json!({"k": k, "got": g, "exp": e}); }
                let gm = guard(|| acovf(&xs, -k));
                if g.map(|a| a.to_bits()) != gm.map(|a| a.to_bits()) { ok_even = false; }
                if nonconst {
                    let ea = acf_e[k.unsigned_abs() as usize];
                    let ga = guard(|| acf(&xs, k));
                    let okk = ga.map(|g| (g - ea).abs() <= 2f64.powi(-40) * (4.0 + 2.0 * off.abs()) && (k != 0 || (g - 1.0).abs() <= 2f64.powi(-40) * (1.0 + off.abs())) && g.abs() <= 1.0 + 2f64.powi(-40) * (1.0 + off.abs())).unwrap_or(false);
                    if !okk { ok_acf = false; worst = json!({"k": k, "got": ga, "exp": ea}); }
                }
            }
            v.check(ok_cov, "acovf", oc, &c, worst.clone());
            v.check(ok_even, "acovf even-in-lag", oc, &c, json!(null));
            // lags at and beyond the length of the series: the defining sum is empty
            let mut ok_far = true; let mut worst_far = json!(null);
            for k in [n as i32, n as i32 + 3, 50, -(n as i32), -(n as i32) - 1, -50] {
                let g = guard(|| acovf(&xs, k));
                if g != Some(0.0) { ok_far = false; worst_far = json!({"k": k, "acovf": g}); }
                if nonconst { let ga = guard(|| acf(&xs, k)); if ga != Some(0.0) { ok_far = false; worst_far = json!({"k": k, "acf": ga}); } }
            }
            v.check(ok_far, "acovf / acf lag >= length", oc, &c, worst_far);
            if nonconst { v.check(ok_acf, "acf", oc, &c, worst.clone()); }
            // AR fit: order 1 and 2, fresh object and re-fitted object
            let other: Vec<f64> = (0..n + 3).map(|i| ((i * i) % 5) as f64 - 1.0 + off).collect();
            for (p, key) in [(1usize, "yw1"), (2usize, "yw2")] {
                let e = f64s(&c[key]);
                if e.is_empty() || n <= p { continue; }
                for refit in [false, true] {
                    let g = guard(|| { let mut ar = AR::new(p); if refit { ar.fit(&other); } ar.fit(&xs); (fit_coeffs(&ar), ar.intercept, ar.p) });
                    let tolc = 2f64.powi(-28) * (1.0 + off.abs() / 1000.0);
                    let ok = g.as_ref().map(|(co, ic, pp)| *pp == p && co.len() == p && co.iter().zip(&e).all(|(a, b)| (a - b).abs() <= tolc * (1.0 + b.abs()))
                        && (ic - (num(&c["mean"]) + off)).abs() <= 2f64.powi(-40) * (1.0 + off.abs())).unwrap_or(false);
                    v.check(ok, &format!("AR::fit p{}{}", p, if refit { " refit" } else { "" }), oc, &c, json!(g.as_ref().map(|(co, ic, _)| json!({"coeffs": fjs(co), "intercept": ic}))));
                }
            }
        }
        // scale laws at an extreme power-of-two scale (exact): acovf scales with s^2, acf and the Yule-Walker coefficients do
        // not move, the intercept scales with s - no absolute threshold may enter
        if v.cases % 2 == 0 {
            for e in [-45i32, 40] {
                let f = 2f64.powi(e);
                let xs: Vec<f64> = x.iter().map(|t| t * f).collect();
                let sc = if e < 0 { "scaled-tiny" } else { "scaled-huge" };
                let mut ok_cov = true; let mut ok_acf = true; let mut worst = json!(null);
                for k in -(n as i32 - 1)..=(n as i32 - 1) {
                    let ex = acovf_e[k.unsigned_abs() as usize] * f * f;
                    let g = guard(|| acovf(&xs, k));
                    if !g.map(|g| (g - ex).abs() <= 2f64.powi(-40) * 4.0 * f * f).unwrap_or(false) { ok_cov = false; worst = json!({"k": k, "got": g, "exp": ex}); }
                    if nonconst {
                        let ea = acf_e[k.unsigned_abs() as usize];
                        let ga = guard(|| acf(&xs, k));
                        if !ga.map(|g| (g - ea).abs() <= 2f64.powi(-40) * 4.0).unwrap_or(false) { ok_acf = false; worst = json!({"k": k, "got": ga, "exp": ea}); }
                    }
                }
                v.check(ok_cov, "acovf", sc, &c, worst.clone());
                if nonconst { v.check(ok_acf, "acf", sc, &c, worst.clone()); }
                for (p, key) in [(1usize, "yw1"), (2usize, "yw2")] {
                    let ex = f64s(&c[key]);
                    if ex.is_empty() || n <= p { continue; }
                    let g = guard(|| { let mut ar = AR::new(p); ar.fit(&xs); (fit_coeffs(&ar), ar.intercept) });
                    let ok = g.as_ref().map(|(co, ic)| co.len() == p && co.iter().zip(&ex).all(|(a, b)| (a - b).abs() <= 2f64.powi(-28) * (1.0 + b.abs()))
                        && (ic - num(&c["mean"]) * f).abs() <= 2f64.powi(-40) * f).unwrap_or(false);
                    v.check(ok, &format!("AR::fit p{}", p), sc, &c, json!(g.as_ref().map(|(co, ic)| json!({"coeffs": fjs(co), "intercept": ic}))));
                }
            }
        }
        // the same BUFFER analysed again after it was edited in place (an interior value changed, first and last value, length and
        // address as before): acovf / acf are functions of the values, and equal what a fresh copy gives
        if n >= 3 {
            let mut buf = x.clone();
            let before = guard(|| (acovf(&buf, 0), acovf(&buf, 1), acf(&buf, 1)));
            buf[1] += 2.0; let fresh1 = buf.clone();
            let after = guard(|| (acovf(&buf, 0), acovf(&buf, 1), acf(&buf, 1)));
            let reference = guard(|| (acovf(&fresh1, 0), acovf(&fresh1, 1), acf(&fresh1, 1)));
            let same = match (&after, &reference) { (Some(a), Some(b)) => a.0.to_bits() == b.0.to_bits() && a.1.to_bits() == b.1.to_bits() && (a.2.to_bits() == b.2.to_bits() || (a.2.is_nan() && b.2.is_nan())), _ => false };
            // exact expectation for lag 0 of the edited series from the definition: sum of squared deviations / n
            let m1 = fresh1.iter().sum::<f64>() / n as f64; let c0 = fresh1.iter().map(|t| (t - m1) * (t - m1)).sum::<f64>() / n as f64;
            let okv = after.map(|a| (a.0 - c0).abs() <= 1e-12 * (1.0 + c0)).unwrap_or(false);
            v.check(same && okv && before.is_some(), "acovf / acf", "same buffer edited in place", &json!({"x": c["x"], "edited_index": 1}), json!({"after": after.map(|a| [a.0, a.1, a.2]), "definition_lag0": c0}));
            // the model order is the public field `p`: re-assigned before a fit, the fit has that order (coefficients as from a new object)
            if n >= 4 {
                let g = guard(|| { let mut ar = AR::new(2); ar.fit(&x); ar.p = 1; ar.fit(&x); let mut fr = AR::new(1); fr.fit(&x); (ar.coeffs.clone(), fr.coeffs.clone(), ar.intercept, fr.intercept) });
                let okp = g.as_ref().map(|(a, b, ia, ib)| a.len() == 1 && b.len() == 1 && (a[0].to_bits() == b[0].to_bits() || (a[0].is_nan() && b[0].is_nan())) && ia.to_bits() == ib.to_bits()).unwrap_or(false);
                v.check(okp, "AR::fit", "order re-assigned through the public field", &json!({"x": c["x"]}), json!(g.as_ref().map(|(a, b, _, _)| json!({"refitted": fjs(a), "fresh": fjs(b)}))));
            }
        }
        // difference is the inverse of cumulative summation
        let cs: Vec<f64> = x.iter().scan(0.0, |s, t| { *s += t; Some(*s) }).collect();
        let g = guard(|| difference(cs.clone()));
        v.check(g.as_ref().map(|g| all_eq(g, &x[1..])).unwrap_or(false), "difference", "of-cumsum", &c, json!(g.as_ref().map(|g| fjs(g))));
        // repeated differencing: each pass shortens the series by one - the n-th pass of an n-point series leaves the empty series
        let mut cur = x.clone();
        for (d, want) in c["diffs"].as_array().unwrap().iter().enumerate() {
            let want = f64s(want);
            let g = guard(|| difference(cur.clone()));
            let ok = g.as_ref().map(|g| g.len() == want.len() && all_eq(g, &want)).unwrap_or(false);
            v.check(ok, "difference", if want.is_empty() { "repeated down-to-empty" } else { "repeated" }, &json!({"x": c["x"], "pass": d + 1}), json!(g.as_ref().map(|g| fjs(g))));
            match g { Some(g) => cur = g, None => break }
        }
    });
    v.finish();
}

fn lcg_normal(rng: &mut Lcg) -> f64 {
    (0..12).map(|_| rng.below(1 << 24) as f64 / (1 << 24) as f64).sum::<f64>() - 6.0
}

/// P3 (observations): Yule-Walker residual of fitted models of order 1..8 on simulated stationary series,
/// shift equivariance of forecasts, convergence of long-horizon forecasts to the mean.
pub fn record(seed: u64, nev: usize, out: &str) {
    let mut rng = Lcg::new(seed);
    let mut t = TraceOut::new(out);
    for e in 0..nev {
        let order = 1 + (e % 3);
        // stationary AR(order) with all roots of modulus <= 0.8: phi from chosen real roots
        let roots: Vec<f64> = (0..order).map(|_| (rng.range(-80, 80) as f64) / 100.0).collect();
        let mut poly = vec![1.0];
        for r in &roots { let mut np = vec![0.0; poly.len() + 1]; for (i, c) in poly.iter().enumerate() { np[i] += c; np[i + 1] -= c * r; } poly = np; }
        let phi: Vec<f64> = poly[1..].iter().map(|c| -c).collect();
        let n = rng.range(60, 500) as usize;
        let offset = [0.0, 50.0, 1e6][rng.below(3) as usize];
        let mut x = vec![0.0; n + 50];
        for i in order..n + 50 { x[i] = lcg_normal(&mut rng) + (0..order).map(|j| phi[j] * x[i - 1 - j]).sum::<f64>(); }
        let x: Vec<f64> = x[50..].iter().map(|v| v + offset).collect();
        let m = x.iter().sum::<f64>() / n as f64;
        let dev: Vec<f64> = x.iter().map(|v| v - m).collect();
        let c0: f64 = dev.iter().map(|d| d * d).sum::<f64>();
        let rho = |k: usize| -> f64 { (k..n).map(|i| dev[i] * dev[i - k]).sum::<f64>() / c0 };
        let p = rng.range(1, 8) as usize;
        let fitted = guard(|| { let mut ar = AR::new(p); ar.fit(&x); (fit_coeffs(&ar), ar.intercept) });
        match fitted {
            Some((co, ic)) => {
                let resid = (1..=p).map(|i| ((0..p).map(|j| co[j] * rho((i as i64 - 1 - j as i64).unsigned_abs() as usize)).sum::<f64>() - rho(i)).abs()).fold(0.0, f64::max);
                let scaled = (resid / f64::EPSILON).min(1e15).ceil() as i64;
                let spread = dev.iter().fold(0.0f64, |a, d| a.max(d.abs()));
                let ic_dev = ((ic - m).abs() / (f64::EPSILON * (m.abs() + spread))).min(1e15).ceil() as i64;
                t.emit(json!({"kind": "yw", "p": p, "n": n, "offset_class": if offset == 0.0 { 0 } else if offset < 1e5 { 1 } else { 2 }, "out": "ok",
                              "resid_eps_log2": if scaled <= 1 { 0 } else { (scaled as f64).log2().ceil() as i64 }, "intercept_dev_eps_log2": if ic_dev <= 1 { 0 } else { (ic_dev as f64).log2().ceil() as i64 }}));
                // forecasts: shift equivariance and convergence to the mean (stationary fit)
                let ar = { let mut a = AR::new(p); a.coeffs = { let mut r = co.clone(); r.reverse(); r }; a.intercept = ic; a };
                let f = guard(|| ar.predict(&x, 1000));
                // forecasts are a function of (coefficients, intercept, the history handed over): a FITTED object asked about another
                // history of the training length (the series reversed; the series plus a constant) answers like an object that merely
                // holds the same coefficients
                let same_as_unfitted = guard(|| { let mut fa = AR::new(p); fa.fit(&x);
                    let xr: Vec<f64> = x.iter().rev().cloned().collect(); let xc: Vec<f64> = x.iter().map(|v| v + 3.25).collect();
                    let mut ua = AR::new(p); ua.coeffs = fa.coeffs.clone(); ua.intercept = fa.intercept;
                    [&xr, &xc, &x].iter().all(|h| { let (a, b) = (fa.predict(h, 12), ua.predict(h, 12)); a.len() == b.len() && a.iter().zip(&b).all(|(s, t)| s.to_bits() == t.to_bits()) }) });
                t.emit(json!({"kind": "forecast_history", "p": p, "n": n, "out": if same_as_unfitted.is_some() { "ok" } else { "panic" }, "same": same_as_unfitted.unwrap_or(false)}));
                let xs: Vec<f64> = x.iter().map(|v| v + 4096.0).collect();
                let fs = guard(|| { let mut a2 = AR::new(p); a2.fit(&xs); a2.predict(&xs, 20) });
                if let (Some(f), Some(fs)) = (f, fs) {
                    let shift_dev = (0..20).map(|i| (fs[i] - f[i] - 4096.0).abs()).fold(0.0, f64::max) / (spread.max(1e-300));
                    let conv_dev = (f[999] - m).abs() / spread.max(1e-300);
                    let l2 = |d: f64| if d <= 0.0 { -1074 } else { d.log2().ceil() as i64 };
                    t.emit(json!({"kind": "forecast_obs", "p": p, "n": n, "out": "ok", "finite": f.iter().all(|v| v.is_finite()),
                                  "shift_dev_log2": l2(shift_dev), "conv_dev_log2": l2(conv_dev), "offset_class": if offset == 0.0 { 0 } else if offset < 1e5 { 1 } else { 2 }}));
                } else {
                    t.emit(json!({"kind": "forecast_obs", "p": p, "n": n, "out": "panic", "finite": false, "shift_dev_log2": 0, "conv_dev_log2": 0, "offset_class": 0}));
                }
            }
            None => t.emit(json!({"kind": "yw", "p": p, "n": n, "offset_class": 0, "out": "panic", "resid_eps_log2": 0, "intercept_dev_eps_log2": 0})),
        }
    }
    // long clean trends (lag-one autocorrelation beyond 0.999): the fitted coefficients still solve the Yule-Walker equations
    for (n, p) in [(3500usize, 1usize), (3500, 2), (6000, 3), (4200, 1), (9000, 2)] {
        let x: Vec<f64> = (0..n).map(|i| 0.01 * i as f64 + 0.05 * lcg_normal(&mut rng)).collect();
        let m = x.iter().sum::<f64>() / n as f64;
        let dev: Vec<f64> = x.iter().map(|v| v - m).collect();
        let c0: f64 = dev.iter().map(|d| d * d).sum::<f64>();
        let rho = |k: usize| -> f64 { (k..n).map(|i| dev[i] * dev[i - k]).sum::<f64>() / c0 };
        match guard(|| { let mut ar = AR::new(p); ar.fit(&x); (fit_coeffs(&ar), ar.intercept) }) {
            Some((co, ic)) => {
                let resid = (1..=p).map(|i| ((0..p).map(|j| co[j] * rho((i as i64 - 1 - j as i64).unsigned_abs() as usize)).sum::<f64>() - rho(i)).abs()).fold(0.0, f64::max);
                let scaled = (resid / f64::EPSILON).min(1e15).ceil() as i64;
                let spread = dev.iter().fold(0.0f64, |a, d| a.max(d.abs()));
                let ic_dev = ((ic - m).abs() / (f64::EPSILON * (m.abs() + spread))).min(1e15).ceil() as i64;
                t.emit(json!({"kind": "yw", "p": p, "n": n, "offset_class": 0, "series": "long-trend", "out": "ok",
                              "resid_eps_log2": if scaled <= 1 { 0 } else { (scaled as f64).log2().ceil() as i64 }, "intercept_dev_eps_log2": if ic_dev <= 1 { 0 } else { (ic_dev as f64).log2().ceil() as i64 }}));
            }
            None => t.emit(json!({"kind": "yw", "p": p, "n": n, "offset_class": 0, "series": "long-trend", "out": "panic", "resid_eps_log2": 0, "intercept_dev_eps_log2": 0})),
        }
    }
    let _ = Value::Null;
    t.finish();
}
