//! Shared helpers: JSON access, panic capture, projections (DESIGN section 3).
use serde_json::{json, Value};
use std::collections::BTreeSet;
use std::io::{BufRead, BufReader, BufWriter, Write};
use std::panic::{catch_unwind, AssertUnwindSafe};

pub fn silence_panics() {
    std::panic::set_hook(Box::new(|_| {}));
}

/// A matrix with the given row-major data and shape: a valid 1 x 1 object whose three public fields are then assigned (the abstract
/// state is exactly these fields; a struct literal would stop compiling as soon as the type gains a private field).
pub fn mk(data: compute::prelude::Vector, r: usize, c: usize) -> compute::prelude::Matrix {
    let mut m = compute::prelude::Matrix::new(vec![0.0], 1, 1);
    m.data = data; m.nrows = r; m.ncols = c;
    m
}

/// Run a call of the library; a panic is data, never a harness failure.
pub fn guard<T, F: FnOnce() -> T>(f: F) -> Option<T> {
    catch_unwind(AssertUnwindSafe(f)).ok()
}

pub fn ints(v: &Value) -> Vec<i64> {
    v.as_array().map(|a| a.iter().map(|x| x.as_i64().unwrap()).collect()).unwrap_or_default()
}
pub fn f64s(v: &Value) -> Vec<f64> {
    v.as_array().map(|a| a.iter().map(num).collect()).unwrap_or_default()
}

/// A number on the wire: integer, {"n":..,"d":..} rational, or "nan" | "inf" | "-inf".
pub fn num(v: &Value) -> f64 {
    if let Some(i) = v.as_i64() {
        return i as f64;
    }
    if let Some(f) = v.as_f64() {
        return f;
    }
    if let Some(o) = v.as_object() {
        if let (Some(n), Some(d)) = (o.get("n"), o.get("d")) {
            let q = n.as_i64().unwrap() as f64 / d.as_i64().unwrap() as f64;
            // optional binary scale: n/d * 2^e2 (exact for the magnitudes used)
            return match o.get("e2").and_then(|e| e.as_i64()) {
                Some(e) => q * 2f64.powi((e / 2) as i32) * 2f64.powi((e - e / 2) as i32),
                None => q,
            };
        }
    }
    if let Some(a) = v.as_array() {
        if a.len() == 2 {
            return a[0].as_i64().unwrap() as f64 / a[1].as_i64().unwrap() as f64;
        }
    }
    match v.as_str() {
        Some("nan") => f64::NAN,
        Some("inf") => f64::INFINITY,
        Some("-inf") => f64::NEG_INFINITY,
        _ => panic!("bad number on the wire: {}", v),
    }
}

/// Relative closeness with `bits` bits (|a-b| <= 2^-bits * max(|a|,|b|,tiny)); NaN matches NaN, inf matches same inf.
pub fn close(obs: f64, exp: f64, bits: i32) -> bool {
    if exp.is_nan() {
        return obs.is_nan();
    }
    if exp.is_infinite() || obs.is_infinite() {
        return obs == exp;
    }
    if obs.is_nan() {
        return false;
    }
    let tol = (2f64).powi(-bits);
    (obs - exp).abs() <= tol * obs.abs().max(exp.abs()).max(1e-300)
}
/// closeness with an absolute floor (for values near zero)
pub fn close_abs(obs: f64, exp: f64, bits: i32, abs: f64) -> bool {
    close(obs, exp, bits) || (obs.is_finite() && exp.is_finite() && (obs - exp).abs() <= abs)
}

pub fn all_close(obs: &[f64], exp: &[f64], bits: i32) -> bool {
    obs.len() == exp.len() && obs.iter().zip(exp).all(|(a, b)| close(*a, *b, bits))
}
pub fn all_eq(obs: &[f64], exp: &[f64]) -> bool {
    obs.len() == exp.len() && obs.iter().zip(exp).all(|(a, b)| a == b || (a.is_nan() && b.is_nan()))
}

pub fn fj(x: f64) -> Value {
    if x.is_nan() {
        json!("nan")
    } else if x == f64::INFINITY {
        json!("inf")
    } else if x == f64::NEG_INFINITY {
        json!("-inf")
    } else {
        json!(x)
    }
}
pub fn fjs(x: &[f64]) -> Value {
    Value::Array(x.iter().map(|v| fj(*v)).collect())
}

/// Best rational approximation p/q of x with q <= dmax (Stern-Brocot / continued fractions).
/// Returns (p, q, err) with err = |x - p/q|.
pub fn rat(x: f64, dmax: i64) -> (i64, i64, f64) {
    if !x.is_finite() {
        return (0, 0, f64::INFINITY);
    }
    let neg = x < 0.0;
    let ax = x.abs();
    let (mut p0, mut q0, mut p1, mut q1) = (0i128, 1i128, 1i128, 0i128);
    let mut r = ax;
    let mut best = (ax.round() as i128, 1i128);
    for _ in 0..64 {
        let a = r.floor();
        if a > 1e15 {
            break;
        }
        let ai = a as i128;
        let p2 = ai * p1 + p0;
        let q2 = ai * q1 + q0;
        if q2 > dmax as i128 || p2 > (1i128 << 40) {
            break;
        }
        best = (p2, q2);
        p0 = p1;
        q0 = q1;
        p1 = p2;
        q1 = q2;
        let frac = r - a;
        if frac.abs() < 1e-15 * r.abs().max(1.0) {
            break;
        }
        r = 1.0 / frac;
    }
    let (p, q) = best;
    let val = p as f64 / q as f64;
    let err = (ax - val).abs();
    ((if neg { -p } else { p }) as i64, q as i64, err)
}

/// Wire form of an observed number for trace events: integer if integral and small, else
/// {"p","q","e"} where e = ceil(log2 relative error) (or -999 if exact), else a class string.
pub fn proj(x: f64, dmax: i64) -> Value {
    if x.is_nan() {
        return json!("nan");
    }
    if x.is_infinite() {
        return json!(if x > 0.0 { "inf" } else { "-inf" });
    }
    if x == x.trunc() && x.abs() < 1e9 {
        return json!(x as i64);
    }
    let (p, q, err) = rat(x, dmax);
    let rel = err / x.abs().max(1e-300);
    let e = if err == 0.0 { -999 } else { rel.log2().ceil() as i64 };
    json!({"p": p, "q": q, "e": e})
}
pub fn projs(x: &[f64], dmax: i64) -> Value {
    Value::Array(x.iter().map(|v| proj(*v, dmax)).collect())
}

pub struct Verdicts {
    out: BufWriter<std::fs::File>,
    pub cases: u64,
    pub checked: u64,
    pub failed: u64,
    pub keys: BTreeSet<String>,
    pub samples: Vec<Value>,
    pub prop: String,
    fail_counts: std::collections::HashMap<String, u32>,
}

impl Verdicts {
    pub fn new(path: &str, prop: &str) -> Self {
        Verdicts {
            out: BufWriter::new(std::fs::File::create(path).expect("create verdicts")),
            cases: 0,
            checked: 0,
            failed: 0,
            keys: BTreeSet::new(),
            samples: vec![],
            prop: prop.to_string(),
            fail_counts: Default::default(),
        }
    }
    /// Record one comparison. `class` is the input class the spec assigns (stable finding key).
    pub fn check(&mut self, ok: bool, call: &str, class: &str, case: &Value, observed: Value) {
        self.checked += 1;
        let key = format!("{} {} {}", self.prop, call, class);
        if !self.keys.contains(&key) && self.keys.len() < 5000 {
            self.keys.insert(key.clone());
        }
        if !ok {
            self.failed += 1;
            let c = self.fail_counts.entry(key.clone()).or_insert(0);
            *c += 1;
            if *c <= 5 {
                let v = json!({"ok": false, "key": key, "case": case, "observed": observed});
                writeln!(self.out, "{}", v).unwrap();
            }
        }
    }
    pub fn sample(&mut self, v: Value) {
        if self.samples.len() < 3 {
            self.samples.push(v);
        }
    }
    pub fn finish(mut self) {
        let keys: Vec<&String> = self.keys.iter().collect();
        let v = json!({"summary": true, "cases": self.cases, "checked": self.checked, "failed": self.failed,
                       "keys": keys, "samples": self.samples});
        writeln!(self.out, "{}", v).unwrap();
        self.out.flush().unwrap();
    }
}

pub fn for_each_line<F: FnMut(Value)>(path: &str, mut f: F) {
    let rd = BufReader::with_capacity(1 << 22, std::fs::File::open(path).expect("open cases"));
    for line in rd.lines() {
        let line = line.unwrap();
        if line.trim().is_empty() {
            continue;
        }
        let v: Value = serde_json::from_str(&line).unwrap_or_else(|e| panic!("bad json line: {} : {}", e, &line[..line.len().min(200)]));
        f(v);
    }
}

pub struct TraceOut {
    out: BufWriter<std::fs::File>,
    pub n: u64,
}
impl TraceOut {
    pub fn new(path: &str) -> Self {
        TraceOut { out: BufWriter::new(std::fs::File::create(path).expect("create trace")), n: 0 }
    }
    pub fn emit(&mut self, v: Value) {
        writeln!(self.out, "{}", v).unwrap();
        self.n += 1;
    }
    pub fn finish(mut self) {
        self.out.flush().unwrap();
    }
}

/// Small deterministic generator for drivers (inputs only; never used for acceptance).
pub struct Lcg(pub u64);
impl Lcg {
    pub fn next(&mut self) -> u64 {
        self.0 ^= self.0 << 13;
        self.0 ^= self.0 >> 7;
        self.0 ^= self.0 << 17;
        self.0
    }
    pub fn below(&mut self, n: u64) -> u64 {
        self.next() % n
    }
    pub fn range(&mut self, lo: i64, hi: i64) -> i64 {
        lo + (self.next() % ((hi - lo + 1) as u64)) as i64
    }
    pub fn new(seed: u64) -> Self {
        let mut l = Lcg(seed.wrapping_mul(0x9E3779B97F4A7C15) | 1);
        for _ in 0..8 {
            l.next();
        }
        l
    }
}

/// Like `proj` but always a record {"p","q","e"} (integers: q = 1, e = -999), so that the trace
/// specification can treat every observed number uniformly.
pub fn projr(x: f64, dmax: i64) -> Value {
    if x.is_nan() || x.is_infinite() {
        return json!({"p": 0, "q": 0, "e": 0, "cls": if x.is_nan() { "nan" } else if x > 0.0 { "inf" } else { "-inf" }});
    }
    if x == x.trunc() && x.abs() < 1e9 {
        return json!({"p": x as i64, "q": 1, "e": -999});
    }
    let (p, q, err) = rat(x, dmax);
    let rel = err / x.abs().max(1e-300);
    let e = if err == 0.0 { -999 } else { rel.log2().ceil() as i64 };
    json!({"p": p, "q": q, "e": e})
}
pub fn projrs(x: &[f64], dmax: i64) -> Value {
    Value::Array(x.iter().map(|v| projr(*v, dmax)).collect())
}

/// Vector-wise projection: residual exponents are relative to the largest magnitude of the vector
/// (an entry whose exact value is 0 is computed as ~1e-16 * scale and must still rationalise to 0).
pub fn projrs_scaled(x: &[f64], dmax: i64) -> Value {
    let scale = x.iter().fold(0.0f64, |m, v| if v.is_finite() { m.max(v.abs()) } else { m }).max(1e-300);
    Value::Array(x.iter().map(|v| {
        if !v.is_finite() { return projr(*v, dmax); }
        if *v == v.trunc() && v.abs() < 1e9 { return json!({"p": *v as i64, "q": 1, "e": -999}); }
        let (p, q, err) = rat(*v, dmax);
        let rel = err / v.abs().max(scale);
        let e = if err == 0.0 { -999 } else { rel.log2().ceil() as i64 };
        json!({"p": p, "q": q, "e": e})
    }).collect())
}

/// Projection with an explicit magnitude scale for the residual exponent (a statistic whose exact value is 0
/// is computed as ~1e-17 * scale and must still rationalise to 0).
pub fn projr_scaled_by(x: f64, dmax: i64, scale: f64) -> Value {
    if !x.is_finite() { return projr(x, dmax); }
    if x == x.trunc() && x.abs() < 1e9 { return json!({"p": x as i64, "q": 1, "e": -999}); }
    let (p, q, err) = rat(x, dmax);
    let rel = err / x.abs().max(scale).max(1e-300);
    json!({"p": p, "q": q, "e": if err == 0.0 { -999 } else { rel.log2().ceil() as i64 }})
}
