//! C19: resampling (spec/Resample.tla). Recorder only: the random draws are the library's own.
use crate::common::*;
use compute::prelude::*;
use serde_json::{json, Value};

fn idx_of(v: f64, n: usize) -> i64 {
    // data are the distinct tokens i + 0.5; anything else is a foreign element
    let i = v - 0.5;
    if i >= 0.0 && i == i.trunc() && (i as usize) < n { i as i64 } else { -1 }
}
fn tok(x: f64) -> String {
    format!("{:016x}", x.to_bits())
}

pub fn record(seed: u64, nseeds: usize, out: &str, maxlen: i64) {
    let mut rng = Lcg::new(seed);
    let mut t = TraceOut::new(out);
    let specials = [0.0, -0.0, f64::INFINITY, f64::NEG_INFINITY, f64::NAN, 1.0, 1.0, 2.0, 5e-324, -7.5];
    let pool_ns = [2usize, 3, 5, 16, 64];
    let mut pooled: Vec<(Vec<i64>, i64, i64, Vec<usize>)> = pool_ns.iter().map(|n| (vec![0i64; *n], 0, 0, vec![])).collect();
    for k in 0..nseeds {
        alea::set_seed(seed.wrapping_mul(1_000_003).wrapping_add(k as u64 * 2 + 1));
        let n = match k % 10 { 0 => 1, 1 => 2, 2 => rng.range(200, maxlen.max(200)), _ => rng.range(1, 64) } as usize;
        let data: Vec<f64> = (0..n).map(|i| i as f64 + 0.5).collect();
        // shuffle, distinct tokens
        match guard(|| shuffle(&data)) {
            Some(r) => t.emit(json!({"op": "shuffle", "n": n, "out": "ok", "res": r.iter().map(|v| idx_of(*v, n)).collect::<Vec<_>>()})),
            None => t.emit(json!({"op": "shuffle", "n": n, "out": "panic"})),
        }
        // shuffle_two: second array = first + 10000
        let data2: Vec<f64> = data.iter().map(|v| v + 10000.0).collect();
        match guard(|| shuffle_two(&data, &data2)) {
            Some((a, b)) => t.emit(json!({"op": "shuffle_two", "n": n, "out": "ok",
                "res1": a.iter().map(|v| idx_of(*v, n)).collect::<Vec<_>>(),
                "res2": b.iter().map(|v| idx_of(*v - 10000.0, n)).collect::<Vec<_>>()})),
            None => t.emit(json!({"op": "shuffle_two", "n": n, "out": "panic"})),
        }
        // repeated and special values: multiset of the output = multiset of the input; pairs stay paired
        let m = rng.range(1, 24) as usize;
        let vals: Vec<f64> = (0..m).map(|_| specials[rng.below(specials.len() as u64) as usize]).collect();
        let ids: Vec<f64> = (0..m).map(|i| i as f64).collect();
        let mut sin: Vec<String> = vals.iter().map(|v| tok(*v)).collect();
        sin.sort();
        match guard(|| shuffle(&vals)) {
            Some(r) => { let mut so: Vec<String> = r.iter().map(|v| tok(*v)).collect(); so.sort();
                         t.emit(json!({"op": "multiset", "what": "shuffle", "n": m, "out": "ok", "sorted_in": sin, "sorted_out": so})) }
            None => t.emit(json!({"op": "multiset", "what": "shuffle", "n": m, "out": "panic"})),
        }
        let mut pin: Vec<String> = vals.iter().zip(&ids).map(|(a, b)| format!("{}|{}", tok(*a), b)).collect();
        pin.sort();
        match guard(|| shuffle_two(&vals, &ids)) {
            Some((a, b)) => { let mut po: Vec<String> = a.iter().zip(&b).map(|(x, y)| format!("{}|{}", tok(*x), y)).collect(); po.sort();
                         t.emit(json!({"op": "multiset", "what": "shuffle_two pairs", "n": m, "out": "ok", "sorted_in": pin, "sorted_out": po})) }
            None => t.emit(json!({"op": "multiset", "what": "shuffle_two pairs", "n": m, "out": "panic"})),
        }
        // jackknife on repeated and special values: rows as token strings (leave-one-out by POSITION)
        if m <= 12 {
            let toks: Vec<String> = vals.iter().map(|v| tok(*v)).collect();
            match guard(|| jackknife(&vals)) {
                Some(rows) => t.emit(json!({"op": "jackknife_tokens", "n": m, "out": "ok", "input": toks,
                    "rows": rows.iter().map(|r| r.iter().map(|v| tok(*v)).collect::<Vec<_>>()).collect::<Vec<_>>()})),
                None => t.emit(json!({"op": "jackknife_tokens", "n": m, "out": "panic"})),
            }
        }
        // jackknife (small n: the result has n (n - 1) entries)
        if n <= 40 {
            match guard(|| jackknife(&data)) {
                Some(rows) => t.emit(json!({"op": "jackknife", "n": n, "out": "ok",
                    "rows": rows.iter().map(|r| r.iter().map(|v| idx_of(*v, n)).collect::<Vec<_>>()).collect::<Vec<_>>()})),
                None => t.emit(json!({"op": "jackknife", "n": n, "out": "panic"})),
            }
        }
        // bootstrap: full rows for small requests
        let b = rng.range(1, 200) as usize;
        let nb = if n > 64 { n } else { n };
        if nb * b <= 3000 || k % 10 == 2 {
            let bb = if nb * b <= 3000 { b } else { 1 + (3000 / nb) };
            match guard(|| bootstrap(&data, bb)) {
                Some(rows) => t.emit(json!({"op": "bootstrap", "n": n, "b": bb, "out": "ok",
                    "rows": rows.iter().map(|r| r.iter().map(|v| idx_of(*v, n)).collect::<Vec<_>>()).collect::<Vec<_>>()})),
                None => t.emit(json!({"op": "bootstrap", "n": n, "b": bb, "out": "panic"})),
            }
        }
        for (pi, n) in pool_ns.iter().enumerate() {
            let d: Vec<f64> = (0..*n).map(|i| i as f64 + 0.5).collect();
            if let Some(rows) = guard(|| bootstrap(&d, 200)) {
                let e = &mut pooled[pi];
                e.2 += rows.len() as i64;
                for r in rows.iter() {
                    if !e.3.contains(&r.len()) { e.3.push(r.len()); }
                    for v in r { let i = idx_of(*v, *n); if i < 0 { e.1 += 1 } else { e.0[i as usize] += 1 } }
                }
            }
        }
        // bootstrap: pooled position counts for the equal-likelihood clause (n <= 64, up to 200 resamples)
        let n2 = rng.range(1, 64) as usize;
        let d2: Vec<f64> = (0..n2).map(|i| i as f64 + 0.5).collect();
        let b2 = 200;
        match guard(|| bootstrap(&d2, b2)) {
            Some(rows) => {
                let mut counts = vec![0i64; n2];
                let mut foreign = 0;
                let mut lens: Vec<usize> = rows.iter().map(|r| r.len()).collect();
                lens.sort();
                lens.dedup();
                for r in rows.iter() { for v in r { let i = idx_of(*v, n2); if i < 0 { foreign += 1 } else { counts[i as usize] += 1 } } }
                t.emit(json!({"op": "bootstrap_counts", "n": n2, "b": b2, "out": "ok", "nrows": rows.len(), "rowlens": lens,
                              "foreign": foreign, "counts": counts}));
            }
            None => t.emit(json!({"op": "bootstrap_counts", "n": n2, "b": b2, "out": "panic"})),
        }
    }
    // long inputs whose length is not a power of two (n = 2000, 1500): pooled index counts of 2e6 draws in eight equal bins (a bias of a
    // few per cent towards some positions leaves the band), and sixty paired shuffles (with key collisions of any kind the pairs must
    // still move together)
    for n in [2000usize, 1500] {
        let d: Vec<f64> = (0..n).map(|i| i as f64 + 0.5).collect();
        let (mut counts, mut foreign, mut shape_ok, mut total) = (vec![0i64; 8], 0i64, true, 0i64);
        for _ in 0..(2_000_000 / (n * 100)) {
            match guard(|| bootstrap(&d, 100)) {
                Some(rows) => { if rows.len() != 100 || rows.iter().any(|r| r.len() != n) { shape_ok = false; }
                    for r in rows.iter() { for v in r { let i = idx_of(*v, n); if i < 0 { foreign += 1 } else { counts[(i as usize * 8) / n] += 1; total += 1; } } } }
                None => shape_ok = false,
            }
        }
        t.emit(json!({"op": "bootstrap_long", "n": n, "out": "ok", "counts": counts, "total": total, "foreign": foreign, "shape_ok": shape_ok}));
        let d2: Vec<f64> = d.iter().map(|v| -v).collect();
        let (mut perm_ok, mut paired_ok, mut moved) = (true, true, false);
        for _ in 0..60 {
            match guard(|| shuffle_two(&d, &d2)) {
                Some((a, b)) => { let mut seen = vec![false; n];
                    if a.len() != n || b.len() != n { perm_ok = false; continue; }
                    for (x, y) in a.iter().zip(&b) { let i = idx_of(*x, n); if i < 0 || seen[i as usize] { perm_ok = false; } else { seen[i as usize] = true; } if *y != -*x { paired_ok = false; } }
                    if a.iter().zip(&d).any(|(x, y)| x != y) { moved = true; } }
                None => perm_ok = false,
            }
        }
        t.emit(json!({"op": "shuffle_two_long", "n": n, "calls": 60, "out": "ok", "perm_ok": perm_ok, "paired_ok": paired_ok, "moved": moved}));
    }
    // per resample index and per slot: position frequencies over many separate calls with a small number of resamples
    for (n, b) in [(2usize, 1usize), (3, 1), (5, 2), (8, 3), (13, 1)] {
        let d: Vec<f64> = (0..n).map(|i| i as f64 + 0.5).collect();
        let calls = 4000usize;
        let mut counts = vec![vec![0i64; n]; b * n];
        let mut bad = 0i64;
        for _ in 0..calls {
            match guard(|| bootstrap(&d, b)) {
                Some(rows) if rows.len() == b && rows.iter().all(|r| r.len() == n) => {
                    for (r, row) in rows.iter().enumerate() { for (sl, v) in row.iter().enumerate() { let i = idx_of(*v, n); if i < 0 { bad += 1 } else { counts[r * n + sl][i as usize] += 1 } } }
                }
                _ => bad += 1,
            }
        }
        t.emit(json!({"op": "bootstrap_slots", "n": n, "b": b, "calls": calls, "out": "ok", "bad": bad, "counts": counts}));
    }
    // pooled over all seeds: one bootstrap(data, 200) per seed and length
    for (pi, n) in pool_ns.iter().enumerate() {
        let (counts, foreign, nrows, lens) = &pooled[pi];
        t.emit(json!({"op": "bootstrap_counts", "n": n, "b": 200 * nseeds, "out": "ok", "nrows": nrows, "rowlens": lens,
                      "foreign": foreign, "counts": counts, "pooled_over_seeds": nseeds}));
    }
    let _ = Value::Null;
    t.finish();
}
