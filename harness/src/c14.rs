//! C14: polynomial regression (spec/PolyFit.tla).
use crate::common::*;
use compute::prelude::*;
use serde_json::{json, Value};

fn horner(c: &[f64], x: f64) -> f64 {
    c.iter().rev().fold(0.0, |a, k| a * x + k)
}

pub fn replay(cases: &str, verdicts: &str) {
    let mut v = Verdicts::new(verdicts, "C14");
    let mut worst: std::collections::BTreeMap<String, f64> = Default::default();
    for_each_line(cases, |c| {
        v.cases += 1;
        if v.cases % 100 == 1 { v.sample(c.clone()); }
        let fam = c["fam"].as_str().unwrap();
        let d = c["d"].as_u64().unwrap() as usize;
        let x = f64s(&c["x"]);
        let y = f64s(&c["y"]);
        let coef = f64s(&c["coef"]);
        let scale = coef.iter().fold(1.0f64, |m, t| m.max(t.abs()));
        let bits = if fam == "noisy" || d <= 2 { 36 } else { 20 };
        let spanclass = { let m = x.iter().fold(0.0f64, |m, t| m.max(t.abs())); if m <= 0.5 { "clustered" } else if x.iter().all(|t| *t == t.trunc()) { "integer" } else { "dyadic" } };
        let class = format!("{} deg{} {}", fam, d, spanclass);
        // previous data sets for the re-fit histories: all-zero responses, an even lower-degree polynomial, tiny responses
        let prevs: Vec<(&str, Option<Vec<f64>>)> = vec![
            ("fresh", None),
            ("after-zero-data", Some(vec![0.0; x.len()])),
            ("after-even-polynomial", Some(x.iter().map(|t| 3.0 - t * t * (if d >= 2 { 1.0 } else { 0.0 })).collect())),
            ("after-tiny-responses", Some(x.iter().map(|t| 1e-18 * (1.0 + t)).collect())),
            ("after-huge-responses", Some(x.iter().map(|t| 1e18 * (1.0 + t * t)).collect())),
        ];
        for (hist, prev) in prevs {
            let g = guard(|| {
                let mut pr = PolynomialRegressor::new(d);
                if let Some(py) = &prev { pr.fit(&x, py); }
                pr.fit(&x, &y);
                pr.coef.clone()
            });
            let err = g.as_ref().map(|g| if g.len() != coef.len() { f64::INFINITY } else { g.iter().zip(&coef).map(|(a, b)| (a - b).abs()).fold(0.0, f64::max) / scale }).unwrap_or(f64::INFINITY);
            let e = worst.entry(class.clone()).or_insert(0.0);
            if err > *e { *e = err; }
            v.check(err <= 2f64.powi(-bits), &format!("fit {}", hist), &class, &c, json!({"got": g.as_ref().map(|g| fjs(g)), "rel_err": fj(err)}));
        }
        // the same buffers reused: an earlier fit on other abscissae held in the very same vectors, then overwritten IN PLACE (a sliding
        // window, a refilled buffer): the fit is a function of the values, not of where they are stored
        {
            let g = guard(|| {
                let mut pr = PolynomialRegressor::new(d);
                let mut bx: Vec<f64> = x.iter().map(|t| 0.5 * t + 1.0).collect();
                let mut by: Vec<f64> = y.iter().rev().map(|t| t + 1.0).collect();
                pr.fit(&bx, &by);
                for (i, t) in x.iter().enumerate() { bx[i] = *t; }
                for (i, t) in y.iter().enumerate() { by[i] = *t; }
                pr.fit(&bx, &by);
                let first = pr.coef.clone();
                pr.fit(&bx, &by);
                (first, pr.coef.clone())
            });
            let err = g.as_ref().map(|(g, g2)| if g.len() != coef.len() { f64::INFINITY } else { g.iter().zip(&coef).chain(g2.iter().zip(&coef)).map(|(a, b)| (a - b).abs()).fold(0.0, f64::max) / scale }).unwrap_or(f64::INFINITY);
            v.check(err <= 2f64.powi(-bits), "fit after-other-data-in-the-same-buffers", &class, &c, json!({"got": g.as_ref().map(|g| fjs(&g.0)), "rel_err": fj(err)}));
        }
        // the abscissae in other units (x s with s = 2^-30 and 2^12): the coefficient of x^k is c_k / s^k.  Powers of two rescale the
        // normal equations exactly, so the same accuracy is demanded coefficient by coefficient - no absolute threshold may enter
        if v.cases % 3 == 0 {
            for e in [-30i32, 12] {
                let s = 2f64.powi(e);
                let xs: Vec<f64> = x.iter().map(|t| t * s).collect();
                let g = guard(|| { let mut pr = PolynomialRegressor::new(d); pr.fit(&xs, &y); pr.coef.clone() });
                let err = g.as_ref().map(|g| if g.len() != coef.len() { f64::INFINITY } else {
                    g.iter().zip(&coef).enumerate().map(|(k, (a, b))| (a * s.powi(k as i32) - b).abs()).fold(0.0, f64::max) / scale }).unwrap_or(f64::INFINITY);
                v.check(err <= 2f64.powi(-bits), "fit abscissae-rescaled", &format!("{} {}", class, if e < 0 { "tiny-units" } else { "huge-units" }), &json!({"case": c, "scale_log2": e}), json!({"got": g.as_ref().map(|g| fjs(g)), "rel_err": fj(err)}));
            }
        }
        // prediction evaluates c0 + c1 x + ... at each point (coefficient order!)
        let pr = { let mut q = PolynomialRegressor::new(coef.len().max(1) - 1); q.coef = coef.clone(); q };
        let pts: Vec<f64> = x.iter().map(|t| t + 0.25).chain(x.iter().cloned()).collect();
        let e: Vec<f64> = pts.iter().map(|t| horner(&coef, *t)).collect();
        let g = guard(|| pr.predict(&pts));
        let ok = g.as_ref().map(|g| g.len() == e.len() && g.iter().zip(&e).all(|(a, b)| (a - b).abs() <= 2f64.powi(-45) * (1.0 + b.abs()))).unwrap_or(false);
        v.check(ok, "predict", &format!("deg{}", d), &c, json!(g.as_ref().map(|g| fjs(g))));
        if fam == "exact" {
            // on generating-polynomial data the prediction at the abscissae reproduces the responses
            let g = guard(|| { let mut pr = PolynomialRegressor::new(d); pr.fit(&x, &y); pr.predict(&x) });
            let ys = y.iter().fold(1.0f64, |m, t| m.max(t.abs()));
            let ok = g.as_ref().map(|g| g.iter().zip(&y).all(|(a, b)| (a - b).abs() <= 2f64.powi(-20) * ys)).unwrap_or(false);
            v.check(ok, "fit+predict reproduces", &class, &c, json!(g.as_ref().map(|g| fjs(g))));
        }
    });
    if std::env::var("VH_CALIBRATE").is_ok() { for (k, e) in worst { eprintln!("worst {} {:e}", k, e); } }
    v.finish();
}

fn noise(rng: &mut Lcg) -> f64 {
    (0..6).map(|_| rng.below(1 << 20) as f64 / (1 << 20) as f64).sum::<f64>() - 3.0
}

/// P3 (observations): larger n, Chebyshev / uniform / clustered abscissae, noise of any scale.
/// Logged: orthogonality of the residual to every power of x and the effect of coefficient perturbations.
pub fn record(seed: u64, nev: usize, out: &str) {
    let mut rng = Lcg::new(seed);
    let mut t = TraceOut::new(out);
    for e in 0..nev {
        let d = rng.range(0, 6) as usize;
        let n = (d + 1) + rng.range(0, if e % 4 == 0 { 1990 } else { 60 }) as usize;
        let kind = ["uniform", "chebyshev", "clustered", "integer"][e % 4];
        let x: Vec<f64> = (0..n).map(|i| match kind {
            "uniform" => -2.0 + 4.0 * i as f64 / (n.max(2) - 1) as f64,
            "chebyshev" => 2.0 * ((2 * i + 1) as f64 * std::f64::consts::PI / (2 * n) as f64).cos(),
            "clustered" => { let u = -1.0 + 2.0 * i as f64 / (n.max(2) - 1) as f64; 2.0 * u * u * u }
            _ => (i % 5) as f64 - 2.0,
        }).collect();
        let distinct = { let mut s: Vec<u64> = x.iter().map(|v| v.to_bits()).collect(); s.sort(); s.dedup(); s.len() };
        if distinct < d + 1 { continue; }
        let co: Vec<f64> = (0..=d).map(|_| rng.range(-3, 3) as f64).collect();
        let ns = [0.0, 1e-6, 1.0, 1e3][rng.below(4) as usize];
        let y: Vec<f64> = x.iter().map(|v| horner(&co, *v) + ns * noise(&mut rng)).collect();
        let g = guard(|| { let mut pr = PolynomialRegressor::new(d); pr.fit(&x, &y); pr.coef.clone() });
        match g {
            Some(c) => {
                let r: Vec<f64> = x.iter().zip(&y).map(|(a, b)| b - horner(&c, *a)).collect();
                let rn = r.iter().map(|v| v * v).sum::<f64>().sqrt();
                let yn = y.iter().map(|v| v * v).sum::<f64>().sqrt().max(1e-300);
                // orthogonality relative to ||y|| ||x^j||
                let orth = (0..=d).map(|j| { let pj: Vec<f64> = x.iter().map(|v| v.powi(j as i32)).collect();
                    let pn = pj.iter().map(|v| v * v).sum::<f64>().sqrt().max(1e-300);
                    (r.iter().zip(&pj).map(|(a, b)| a * b).sum::<f64>()).abs() / (yn * pn) }).fold(0.0, f64::max);
                // perturbing any coefficient by 1e-3 (relative to its scale) must not lower the RSS
                let rss = |cc: &[f64]| x.iter().zip(&y).map(|(a, b)| { let q = b - horner(cc, *a); q * q }).sum::<f64>();
                let base = rss(&c);
                let mut lowered = 0.0f64;
                for k in 0..=d { for s in [-1.0, 1.0] { let mut c2 = c.clone(); c2[k] += s * 1e-3 * (1.0 + c[k].abs()); let q = rss(&c2); if q < base { lowered = lowered.max((base - q) / (yn * yn)); } } }
                let l2 = |v: f64| if v <= 0.0 { -1074 } else { v.log2().ceil() as i64 };
                t.emit(json!({"kind": kind, "d": d, "n": n, "noise": ns, "out": "ok", "finite": c.iter().all(|v| v.is_finite()),
                              "orth_log2": l2(orth), "lowered_log2": l2(lowered), "resid_rel_log2": l2(rn / yn)}));
            }
            None => t.emit(json!({"kind": kind, "d": d, "n": n, "noise": ns, "out": "panic", "finite": false, "orth_log2": 0, "lowered_log2": 0, "resid_rel_log2": 0})),
        }
    }
    let _ = Value::Null;
    t.finish();
}
