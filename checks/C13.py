"""C13 - autocorrelation, AR fitting and forecasting are consistent (DESIGN 4/C13)."""
LEVEL = "model_checking"
RULE = ("P1: for every integer series of length 3..LMax (quick 5, thorough 7) over -1..1 TLC checks in exact arithmetic"
        " that the biased autocovariance is even in the lag, bounded by its value at lag 0 (|acf| <= 1 = acf(0)), shift"
        " invariant, that differencing inverts cumulative summation and shortens by one at every pass down to the empty"
        " series (replayed pass by pass), and that the closed-form Yule-Walker coefficients of order 1 and 2 satisfy "
        "the Yule-Walker equations; for dyadic coefficient sets of order 1..3 on integer histories the forecast "
        "recursion as coded (last p centred values, reversed coefficients, intercept added at the end) equals mean + "
        "recursion on the centred history and is shift equivariant; P2 (forecast cases of order 1, 2, 3, 7, 8, 9, 16): "
        "every series is replayed at offsets 0, 1e3, 1e6: acovf and acf at every lag -(n-1)..(n-1), bitwise evenness, "
        "AR::fit of order 1 and 2 on a fresh AND on a previously fitted object (coefficients un-reversed, intercept), "
        "difference(cumsum); AR::predict with given dyadic coefficients for horizons 1..H incl. shifted data; every "
        "second series also times 2^-45 and 2^40 (acovf scales with s^2, acf and Yule-Walker coefficients do not move, "
        "the intercept scales with s); lags at and beyond the length of the series give 0; acovf / acf on the same "
        "buffer after an interior value was edited in place equal the values on a fresh copy; a model whose order was "
        "re-assigned through the public field p fits at that order; forecasting 700 steps with persistent coefficients "
        "(root 255/256, damped cycle of modulus 0.998) = forecasting k steps, appending them to the history and "
        "forecasting the rest, for k around 256 and elsewhere; P3 (observations, validated by TLC Trace_TimeSeries): "
        "simulated stationary AR(1..3) series of length 60..500 at offsets 0 / 50 / 1e6, fitted with orders 1..8: Yule-"
        "Walker residual, intercept = mean, a fitted object asked about another history of the training length "
        "(reversed; shifted) answers like an object that merely holds the same coefficients, shift equivariance of "
        "20-step forecasts, 1000-step forecast within 2^-20 of the mean; five clean trends of 3500..9000 points (lag-"
        "one autocorrelation beyond 0.999), orders 1..3: Yule-Walker residual within the same bound. Case class = "
        "(function, offset class / order, fresh or refit).")
ASSUMPTIONS = ["exact oracle for orders 1 and 2 on short integer series; orders 3..8 only through the residual observation whose autocorrelations the harness computes from the definition",
               "predict_one (a raw dot-product helper) is not judged: the property speaks about forecasts"]
EXHAUSTIVE = True


def _key(ev):
    return "C13 trace %s p%s offset-class%s" % (ev.get("kind"), "<=3" if ev.get("p", 0) <= 3 else ">3", ev.get("offset_class"))


def run(R):
    import vlib
    cases, r = R.mc("MC_TimeSeries", "MC_TimeSeries_%s.cfg" % R.tier, workers=8, timeout=6000, heap="6g")
    R.replay(cases)
    n = 150 if R.tier == "quick" else 1500
    tr = R.record("C13", n)
    for e in vlib.read_ndjson(tr):
        R.keys.add(_key(e))
    R.validate("Trace_TimeSeries", "Trace_TimeSeries.cfg", tr, key_of_event=_key, timeout=3000)
