"""C10 - optimizers follow their published update rules; Levenberg-Marquardt descends (DESIGN 4/C10)."""
LEVEL = "model_checking"
RULE = ("P1/P2: the optimizer recurrences are TLA+ state machines over exact rationals (state = step count, iterate, "
        "momentum / moment estimates, converged flag). TLC unrolls them for 60 SGD configurations (two resonant "
        "configurations - step size x curvature x (1 + momentum) = 1, where the look-ahead point of the second Nesterov"
        " step is the minimiser -, 5 quadratic objectives in 1..3 dimensions incl. a concave one, a coupled one and a "
        "start at the optimum; step sizes 1/4, 1/16; plain / momentum 1/2, 3/4 / Nesterov incl. momentum 0) to KS steps"
        " (quick 5, thorough 6) and 16 Adam configurations (objectives sum c_i |x_i - a_i|, whose gradient has constant"
        " magnitude so that sqrt(vhat) = c_i exactly - checked as an invariant - while mhat depends on beta1, the bias "
        "correction and the sign flips when an iterate crosses a kink; eps in {0, 2^-10}) to 4 steps, plus 16 one-sided"
        " objectives c(|x - a| + (x - a)) whose gradient component becomes exactly zero after the first step while its "
        "moments are not (b2 with b2/(1+b2) a rational square keeps sqrt(vhat) rational; states whose root is "
        "irrational are neither expanded nor emitted, and the check fails as a tool error if no exact zero-gradient "
        "state was emitted); invariants: vhat = c^2, start at the optimum => stops after one step, Nesterov with "
        "momentum 0 = plain, scale equivariance of one step (start, linear terms / kinks and Adam's step size times s "
        "move the iterate by s); every third case is replayed again at the scales 2^-130 and 2^90; the closed form of a"
        " run without kink crossing (proved equal to the recurrence on the unrolled states) gives the iterates after 60"
        " and 400 steps; an inert coordinate (never a gradient) placed at -2^55 must stay while the other coordinate "
        "follows the recurrence. Every reachable state (configuration, k) is emitted with the exact k-th iterate; the "
        "harness calls optimize(.., maxsteps = k) (and larger budgets once the spec has converged) and compares the "
        "returned vector (2^-40; SGD cases also at the scale 2^600, where the value of the quadratic objective "
        "overflows while its gradient does not), the number of objective evaluations (= steps taken: stops early only "
        "when nothing changed) and two runs bit for bit, and the same call on an optimizer object that has already "
        "solved two other problems (one parameter more, two fewer) bit for bit with the same number of evaluations (LM "
        "likewise), and on a clone of the configured optimizer. Configuration entry points: Adam::default is the "
        "published setting (0.001, 0.9, 0.999, 1e-8), with_stepsize changes the step size only, set_stepsize (Adam, "
        "SGD; on an object that has already run) equals construction - bit for bit on an objective whose gradients are "
        "of the order of epsilon. LM: for 18 linear-in-parameter problems (wide and short abscissa windows, 1..3 "
        "parameters) TLC computes the exact least-squares solution and s^2 (J^T J)^-1; the harness runs LM from two "
        "poor starts: parameters (1e-7, or an excess RSS within 64 roundings of the minimal RSS where the problem is "
        "too ill-conditioned for LM's own acceptance test to resolve more), covariance (1e-6), RSS not above the start "
        "(windows on both sides and on one side of the origin), and LM::default() from a start at +-1000 reaches the "
        "solution to 2e-5; P3: exponential / logistic / short-window line fits with noise, and overflow-prone logistic-"
        "growth models L e^z/(1+e^z) from flat starts with budgets 1, 2, 5, 100 (descent and finiteness only), every "
        "kind also in nano (2^-30) and mega (2^25) units of the response with unit-consistent tolerances and budgets 1,"
        " 2, 3, 5, 100, and budget sweeps - twelve non-linear problems (six from mildly poor starts, six textbook "
        "problems on a one-sided window from far-off starts that force rejected steps), each run with every step budget"
        " 1..8, so that the budget runs out on accepted and on rejected steps - recorded and validated by TLC "
        "(Trace_OptimLM): descent, finiteness, covariance shape, and the covariance certificate (J^T J) C = s^2 I at "
        "the returned point in backward-error units (<= 64, measured <= 1).")
ASSUMPTIONS = ["exactness horizon: k <= 6 (SGD) / 4 (Adam) steps because of 32-bit integers in TLC; k up to 200/2000 of the quantifier is not reached",
               "objectives restricted to those whose recurrences stay rational (quadratics for SGD, weighted absolute values for Adam)"]
EXHAUSTIVE = True


def run(R):
    import vlib
    cases, r = R.mc("MC_Optim", "MC_Optim_%s.cfg" % R.tier, workers=8, timeout=3000)
    R.replay(cases)
    # vacuity control: the one-sided family must reach an exact state with a zero gradient component after step 1
    import vlib
    if not any(e.get("zero_grad") and e.get("k", 0) >= 2 for e in vlib.read_ndjson(cases)):
        raise vlib.ToolError("MC_Optim emitted no exact Adam state with a zero gradient component")
    cases2, r = R.mc("MC_OptimLM", "MC_OptimLM_%s.cfg" % R.tier, workers=8, timeout=3000)
    R.replay(cases2)
    n = 60 if R.tier == "quick" else 600
    tr = R.record("C10", n)
    key = lambda ev: "C10 trace LM %s" % ev.get("kind")
    for e in vlib.read_ndjson(tr):
        R.keys.add(key(e))
    R.validate("Trace_OptimLM", "Trace_OptimLM.cfg", tr, key_of_event=key, timeout=3000)
