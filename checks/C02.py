"""C02 - densities and mass functions are proper and match the stated mean and variance (DESIGN 4/C02)."""
LEVEL = "model_checking"
RULE = ("One TLC state per row of the reference table spec/ref/dist.ndjson (100 (law, parameter) points covering every "
        "regime: shape <1, =1, >1; dof 1..200 and 1/2; rates 1/1024..1024; Poisson rates 1/1024..1000; binomial n up to"
        " 1000 with success probabilities from 2^-15 to 1 - 2^-15; Bernoulli 2^-15 and 1 - 2^-15; scales down to 2^-10;"
        " locations +-1000; 18 of the rows on a finer parameter grid than quarters: the row carries its denominator) "
        "plus 42 multivariate-normal cases (dimension 1..4, covariance L L^T with integer L). P1: closed-form Mean/Var "
        "as extended rationals (NaN / inf regimes of T and Pareto), Support, and for the finite-support laws the exact "
        "mass function with sum = 1, mean = first moment, var = second central moment proved by exact summation; P2: "
        "the harness compares mean() and var() with the closed forms, every evaluation point (quantile-spread inside "
        "the support, on its end points, outside on both sides incl. negative and too-large counts, far tails; ~1250 "
        "points) with the table value (relative 1e-9, measured worst 2.5e-12), closed end points of the documented "
        "support judged like interior points, the same density / mean / variance on objects moved to the row's "
        "parameters by update and by the setters from every other row of the kind, the density of another row's object "
        "evaluated alternately with this row's at the same points equals its sweep alone (taken in a thread of its "
        "own), exactly 0, ln_pdf = -inf and no panic outside the support, the point 0 written as -0.0 gives what 0 "
        "gives, discrete uniform laws on supports of 2^32 .. 2^62 points (mass 1/N, mean, variance (N^2-1)/12), ln_pdf "
        "= ln(pdf) at every end point of the support, exact rational masses, ln_pdf = ln(pdf), Normal cdf within "
        "1.5e-7, also for the same law in units of 2^-60 and 2^40 (cdf unchanged, density times s); total mass and the "
        "first two moments of the implementation's OWN density/mass function by summation / graded Gauss-Legendre "
        "quadrature against its mean()/var() (bounded or exponential-tail cases; T and Pareto with dof/alpha > 4 at "
        "1e-5); MVN (incl. points with |z|^2 = 1600 and beyond, where the density underflows while the log-density is "
        "an ordinary number): pdf(mu) = (2 pi)^(-d/2)/|det L|, pdf(x)/pdf(mu) = exp(-q/2), ln_pdf, mean, var, dimension"
        " 1 = Normal. Case class = (law, observable, position class / regime).")
ASSUMPTIONS = ["irrational density values come from mpmath (tools/gen_disttables.py, 40 digits; committed table): the spec decides support membership, closed-form moments and exact rational masses",
               "values at the end points of a continuous support are a convention and only required to be finite and non-negative",
               "quadrature is used only where the integrand is bounded with light tails, so integration error cannot cause an alarm (tolerances 1e-7 / 1e-5 vs measured < 1e-9)"]
EXHAUSTIVE = True


def run(R):
    import os, vlib
    table = os.path.join(vlib.SPEC, "ref", "dist.ndjson")
    os.environ["DISTTABLE"] = table
    cases, r = R.mc("MC_DistMoments", "MC_DistMoments_%s.cfg" % R.tier, workers=4, timeout=3000)
    R.replay(cases, extra_args=[table])
