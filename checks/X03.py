"""X03 - life cycle of model / optimizer objects against spec/Models.tla (not in MANIFEST.json)."""
LEVEL = "model_checking"
RULE = ("P1: TLC explores every program of 5 configuration / coefficient / fit calls on one GLM object in spec/Models.tla and checks the "
        "stored-fit invariants; P3: sessions recorded from real GLM, PolynomialRegressor, AR, Adam, SGD and LM objects (a fresh object, "
        "an object with a random history steered to the same configuration, and a clone taken in mid-history, then the same fit / "
        "accessors / predictions on each) validated by TLC against Trace_Models: outcome and everything observable are functions of "
        "(kind, configuration, coefficient source, fit key) alone, GLM accessors answer Err exactly while nothing is stored.")
ASSUMPTIONS = ["extra coverage only: decides none of the listed properties on its own and is therefore not registered as a check",
               "observations are compared through 64-bit FNV fingerprints of bit patterns and Debug / Display renderings"]
EXHAUSTIVE = False


def run(R):
    R.mc("Models", "Models.cfg", workers=4, emit=False)
    n = 150 if R.tier == "quick" else 800
    tr = R.record("X03", n)
    R.validate("Trace_Models", "Trace_Models.cfg", tr, key_of_event=lambda ev: "X03 models %s" % ev.get("op"), timeout=3000)
