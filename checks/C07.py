"""C07 - quadrature rules are exact on their polynomial class and converge at order (DESIGN 4/C07)."""
LEVEL = "model_checking"
RULE = ("P1: in exact rationals TLC checks the code-shaped trapezoid rule (interior nodes weight 1, end points 1/2) "
        "exact for affine integrands for every panel count 1..NT (quick 5, thorough 12) on every integer interval in "
        "-2..2 (incl. a > b, a = b), sign change under swapped limits, linearity, and the (b-a) h^2/12 max|f''| bound "
        "on monomials; the Romberg tableau as coded (interval halving, Richardson factors 4^m - 1, stopping rule) exact"
        " for degree <= 2k-1 with k levels and within 16 eps of the exact integral with a tolerance; P2: every case is "
        "replayed: trapz against the rule's OWN exact value (pins every weight, also for non-exact degrees) incl. big "
        "intervals +-500 / 1000 with up to 4096 panels, sign and linearity on the implementation; romberg against the "
        "exact tableau value for budgets 2..5 and eps in {0, 1/64, 1/1000} (cases whose stopping comparison is within a"
        " factor 4 of eps are not judged); quad5 exact on monomials up to degree DMax (quick 12, thorough 19), reversed"
        " and empty intervals, sign, linearity; sampled trapezoid on integer ordinates with uniform / non-uniform "
        "dyadic abscissae, unit spacing and dx, lengths 2..64 (bit-exact). Tolerance exactly 0 on degree-6 integrands "
        "whose first tableau rows coincide without being exact: every level of the budget is used. Cubics at level "
        "budgets 8, 12, 16, 17, 18, 20 with tolerance 0 must be integrated exactly (Inv_RombergExact holds for every "
        "budget); the crate is built with overflow checks. Sample tables of 1024, 1025, 2049, 2500 and 3000 points. "
        "trapz and quad5 also on an axis rescaled by 2^-60 and 2^30. Every Romberg case again in threads of their own: "
        "first thing, after calls with level budgets 2, 3, k-1, and after a call with budget k+3 - the three answers "
        "agree bit for bit and with the tableau value (the rule has no memory of earlier budgets). Case class = (rule, degree class, interval "
        "orientation, panel/level class).")
ASSUMPTIONS = ["polynomial integrands with small integer coefficients and dyadic limits (exact rational oracle); the catalogue of transcendental integrands is not reached",
               "tolerance 2^-40 of the integral's magnitude scale (measured margin > 1e4, DESIGN appendix D)"]
EXHAUSTIVE = True


def run(R):
    cases, r = R.mc("MC_Quad", "MC_Quad_%s.cfg" % R.tier, workers=8, timeout=6000, heap="6g")
    R.replay(cases)
