"""C01 - linear systems are solved to working precision through every entry point (DESIGN 4/C01)."""
LEVEL = "model_checking"
RULE = ("P1: shared with C11 (MC_Linalg): code-shaped LU + lu_solve + the column-by-column multi-RHS pipeline reproduce"
        " A X = B and A A^-1 = I exactly, routing = chol iff SPD; P2: every nonsingular enumerated matrix (order 2 over"
        " -2..2 / order 3 over -1..1, permutation matrices of order 4, SPD products, every symmetric order-4 matrix "
        "with unit diagonal over -1..1 and with diagonal 2 over 0..1; classes general, zero leading pivot, symmetric, "
        "SPD, symmetric indefinite with positive diagonal) is emitted with its exact solution for two non-symmetric "
        "right-hand sides and its exact inverse, and pushed through all six entry points (slice solve per column, "
        "multi-RHS slice solver, slice inverse, Matrix solve for Vector and for Matrix, Matrix inverse): finite, within"
        " 2^-30 of the exact rationals, A * inverse = I; every third case again with A and B scaled by powers of two (A"
        " 2^-110; B 2^-60; A 2^60 and B 2^-60; A 2^90 and B 2^200; both 2^-600; both 2^520 - where squares of the "
        "entries leave the f64 range; at 2^-600 the same equations in reversed order are solved right afterwards: a "
        "second, different tiny system is solved on its own merits), expected solution scaled accordingly (homogeneity,"
        " checked by TLC for factors 2 and 3); the same exact answer is demanded whatever the routing; P3: random "
        "unimodular integer systems of order 2..7 (and their SPD Gram matrices) with planted integer solutions and 1..4"
        " right-hand sides: TLC checks A X = B exactly on the rationalised result of every entry point; the real-valued"
        " classes of the quantifier (dense, SPD, symmetric indefinite with positive diagonal, diagonally dominant, "
        "permuted/scaled triangular incl. scale 1e-17, graded to cond 1e10, pivot-trap columns with a tiny diagonal and"
        " several larger candidates, matrices Q1 diag(sigma) Q2 with singular values graded to 1e-10 - not curable by "
        "row scaling; order 1..32, 1..6 columns; and orders 1..5 with MORE columns than unknowns, right-hand sides "
        "planted from a solution of order one, where multiplying by the inverse is visibly not backward stable) through"
        " the observation 'finite and scaled residual <= 64 n' (residual in double-double by the harness; measured "
        "maximum on the unchanged tree: 1.0 n).")
ASSUMPTIONS = ["exact oracle limited to order <= 4 / small integers (32-bit TLC integers); real classes only through the residual observation, whose a-priori bound is evaluated by the harness",
               "singular matrices are outside the property's domain and are not judged"]
EXHAUSTIVE = True


def _key(ev):
    return "C01 %s %s %s" % (ev.get("kind"), ev.get("entry", ""), ev.get("cls", "integer"))


def run(R):
    import vlib
    cases, r = R.mc("MC_Linalg", "MC_Linalg_%s.cfg" % R.tier, workers=8, timeout=6000, heap="6g")
    R.replay(cases)
    n = 40 if R.tier == "quick" else 400
    tr = R.record("C01", n)
    for e in vlib.read_ndjson(tr):
        R.keys.add(_key(e))
    R.validate("Trace_Linalg", "Trace_Linalg.cfg", tr, key_of_event=_key, timeout=6000, heap="6g")
