"""C12 - broadcast arithmetic follows NumPy semantics (DESIGN 4/C12)."""
LEVEL = "model_checking"
RULE = ("P4: Apalache proves, for ALL natural shapes (no bound), that the classifier model accepts exactly the NumPy-"
        "compatible shape pairs (spec/BroadcastCompat.tla); P1: for every shape pair with rows, cols in 1..K (quick "
        "K=4: 256 pairs, thorough K=6: 1296 pairs) x 4 operators TLC checks that the classifier-and-loops model of "
        "broadcast.rs (BCode) equals the NumPy rule (BSpec), all ten leaves covered; P2: every case is emitted with the"
        " exact expected matrix (rationals for division) and replayed through Matrix.Matrix, Matrix.Vector (right "
        "operand a single row) and Vector.Matrix in all four ownership forms - value cases compare shape and every "
        "entry bit-exactly, incompatible pairs must panic; every second compatible case again with IEEE special values "
        "in the operands (0/0, inf - inf, 0 x inf, NaN, signed zeros, overflow): no panic, entry-wise IEEE results; P3:"
        " random shapes up to 16x16 (quick) / 40x40 (thorough) with random integer entries recorded and validated by "
        "TLC (Trace_Broadcast). Case class = (operand kinds, ownership form, operator, classifier leaf, "
        "compatible/incompatible).")
ASSUMPTIONS = ["integer-valued entries: + - x exact, the quotient of two integers is the correctly rounded IEEE quotient",
               "a Vector operand is a single row (1 x n), as the property states"]
EXHAUSTIVE = True


def run(R):
    import vlib
    a = vlib.run_apalache("BroadcastCompat", "Inv", R.work)
    R.cov["stages"].append(dict(stage="P4", module="BroadcastCompat", tool="apalache-mc --length=0", holds=a["ok"], wall_s=round(a["wall_s"], 1),
                                statement="for ALL natural shapes the classifier yields a value iff the shapes are NumPy-compatible"))
    if not a["ok"]:
        raise vlib.ToolError("Apalache lemma BroadcastCompat!Inv failed:\n" + a["tail"])
    cases, r = R.mc("MC_Broadcast", "MC_Broadcast_%s.cfg" % R.tier, workers=8)
    R.replay(cases)
    n, dim = (200, 16) if R.tier == "quick" else (600, 40)
    tr = R.record("C12", n, extra_args=[str(dim)])
    R.validate("Trace_Broadcast", "Trace_Broadcast.cfg", tr,
               key_of_event=lambda ev: "C12 trace %s %s" % (ev.get("kind"), ev.get("op")), timeout=3000)
