"""C16 - linear interpolation reproduces knots and honours the out-of-range mode (DESIGN 4/C16)."""
LEVEL = "model_checking"
RULE = ("P1: for every strictly increasing integer knot vector with 2..N knots over 0..XMax (quick N=3, XMax=4; "
        "thorough N=5, XMax=6), two ordinate patterns, every target on the half-integer grid from below the first to "
        "above the last knot plus thirds, and all three modes, TLC checks ICode (scan capped at n-1, separate right "
        "test, dispatch, convex combination) = ISpec (knot exactness, bracketing segment, per-side out-of-range "
        "handling), plus Inv_Knot and Inv_Between; families 'wide' (neighbouring gaps 1, 2^10, 2^20), 'many' (50 and "
        "200 knots) and 'deceptive' (grids that look evenly spaced from their ends but are not) likewise. P1 also: "
        "invariance under rescaling the abscissa axis; P2 (every second case again with knots and target times 2^-70 "
        "and 2^45): every case replayed through the checked and unchecked variants with one and with three targets per "
        "call (knot hits compared bit-exactly, others within 2^-40 of the ordinate scale), +-1 ulp neighbours of knots "
        "must lie between the neighbouring ordinates, an out-of-range target between two in-range ones is handled on "
        "its own, three neighbouring targets (one ulp below, at, one ulp above; both orders) in one call are answered "
        "as if asked alone, one ulp beyond either end knot follows the mode (also on an integer-shifted axis where the "
        "subtraction rounds), targets and knots of -0.0 behave as 0, unsorted abscissae (also on an axis scaled by "
        "2^-70, and when only one ulp out of order) and mismatched lengths (fewer ordinates; one, two or n surplus "
        "ordinates or abscissae) must be rejected; the fill mode returns the fill value of the side concerned bit for "
        "bit also when the values are -inf, +inf, NaN or zeros of either sign; every third case: the two buffers are "
        "edited in place between calls (ordinates reflected and shifted, then the axis doubled; same addresses and "
        "lengths) and each answer equals, bit for bit, the answer on fresh copies of the current contents. Case class = (family, mode, position of "
        "the target: left-oob/first-knot/inside/inner-knot/last-knot/right-oob).")
ASSUMPTIONS = ["rational knots/ordinates/targets (exact in f64); equal neighbouring abscissae are outside the property's domain",
               "no P3: the function is stateless and the exhaustive case analysis already covers every branch; random traces would add nothing the spec does not enumerate"]
EXHAUSTIVE = True


def run(R):
    cases, r = R.mc("MC_Interp", "MC_Interp_%s.cfg" % R.tier, workers=8, timeout=3000)
    R.replay(cases)
