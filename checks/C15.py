"""C15 - shape operations, constructors, the matrix invariant (DESIGN 4/C15)."""
LEVEL = "model_checking"
RULE = ("P1: TLC enumerates the bounded state graph of spec/Arrays.tla (start shapes 1..K x 1..K, programs of mutating "
        "calls up to MaxDepth, size <= MaxSize) checking Inv_WF / Inv_Ref / Inv_Post in every state; P2: per distinct "
        "state the outcome of EVERY offered action (all argument values in range and just outside) is emitted and "
        "replayed into the real Matrix (fields, returned value, panic) - one comparison per transition; "
        "constructors/predicates: spec/Ctors.tla cases replayed likewise (arange also with the stop value just above a "
        "grid point; design matrices of 1..4 observations and several predictor columns, data that does not fill its "
        "columns rejected; transposition of matrices that are symmetric up to the last bit - mirrored entries one ulp "
        "apart, huge integers two apart, zeros of both signs - through t, t_mut and the slice function, bit for bit; "
        "clone_from into a matrix of the same element count and another shape gives the source's shape and data; "
        "vectors of different length are neither equal nor close); P3: seeded random programs of 1..40 calls on 1..8 x "
        "1..8 matrices recorded from the real object and validated step by step by TLC against Trace_Arrays. A case "
        "class = (call, shape class, argument class); distinct_nontrivial counts distinct classes exercised.")
ASSUMPTIONS = ["integer-valued entries (exact in f64); dimensions >= 1, repeat counts >= 1",
               "a rejected call must leave the matrix unchanged (reference model semantics)",
               "TLC/SANY, Json/IOUtils community modules, harness projection layer (src/common.rs)"]
EXHAUSTIVE = True


def run(R):
    cfg = "MC_Arrays_%s.cfg" % R.tier
    cases, r = R.mc("MC_Arrays", cfg, workers=8, timeout=3000, heap="6g")
    R.replay(cases)
    import os
    os.remove(cases)
    cases, r = R.mc("MC_Ctors", "MC_Ctors_%s.cfg" % R.tier, workers=4, timeout=1200)
    R.replay(cases)
    nprog = 150 if R.tier == "quick" else 2000
    tr = R.record("C15", nprog)
    R.validate("Trace_Arrays", "Trace_Arrays.cfg", tr, key_of_event=lambda ev: "C15 trace %s" % ev.get("op"),
               timeout=3000)
