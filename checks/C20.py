"""C20 - covariance kernels are valid positive-definite kernels, scalar and matrix form (DESIGN 4/C20)."""
LEVEL = "model_checking"
RULE = ("P1: for the rational quadratic kernel with alpha in {1,2}, variance in {1, 1/4, 3}, length scale in {1, 1/2, "
        "2} and every point set of 1..PMax (quick 3, thorough 4) points from {-2, -1, -1/2, 0, 1, 2} TLC checks in "
        "exact rationals: symmetric, equal to the variance on the diagonal, positive and <= variance, non-increasing in"
        " the distance, and positive semi-definite by ALL principal minors (pairs of points in general; unit "
        "variance/length scale on integer points up to 3-4 points, where the minors stay within 32-bit integers); P2: "
        "per case the exact RQ Gram matrix against a second point set of different size (orientation visible) and the "
        "RBF exponents d^2/(2 l^2) are emitted; the harness compares the scalar forms (by value and by reference) and "
        "the matrix forms for Vector, &Vector, Matrix, &Matrix (shape = |X| x |Y|, every entry, <= variance), Gram "
        "symmetry bit for bit and diagonal = variance; per parameter set incl. the corners 1/64 and 64 of the parameter"
        " box: monotonicity / positivity / symmetry / zero-distance on a distance grid at base points 0, -3.5, 999, "
        "-1000, matrix form = scalar form on nearby points of magnitude 1e3 and on point sets of 53 x 47, 64 x 64 and 1"
        " x 2500 entries, parameter validation. Mixture parameter 1/2 on Pythagorean distances and 3/2 on d/l in {0, 3,"
        " 12} (exact square roots), non-integer mixture parameters 3/2, 5/2, 7/10, 19/8, 1/64, 1/100 (with length "
        "scales down to 1/64) in the relational grid. Leading sub-rectangles of every table (a single point against a "
        "set on either side, point against point, |X| x 2, (k+1) x k). Every Gram case is followed by a call on the "
        "reversed first point set (reversed rows). Case class = (kernel, form, alpha/point-count or magnitude / length-"
        "scale class).")
ASSUMPTIONS = ["exp is the scalar oracle for RBF (the spec fixes its exponent); PSD of RBF Gram matrices is implied by conformance to the formula, not certified separately",
               "exact PSD minors limited by 32-bit integers to the stated sub-domain"]
EXHAUSTIVE = True


def run(R):
    cases, r = R.mc("MC_Kernels", "MC_Kernels_%s.cfg" % R.tier, workers=8, timeout=3000)
    R.replay(cases)
