"""X04 - exponential-family tables against spec/Families.tla (not in MANIFEST.json)."""
LEVEL = "model_checking"
RULE = ("P1: TLC checks on a rational grid of means that every variance function is positive on its domain, the Bernoulli variance is at most "
        "1/4 and the working weight (d mu / d eta)^2 / Var(mu) equals the variance for the canonical links and 1 for the log link on the scale "
        "families; P2: variance, d_inv_link, inv_link(link(mu)) = mu, has_dispersion, deviances where they are rational (Gaussian residual sum of "
        "squares, Poisson with y in {0, mu}, deviance(y, y) = 0, Bernoulli at mu = 1/2), the penalised deviance as written, the starting values "
        "offered to the scoring iteration, rejection of mismatched lengths - replayed into ExponentialFamily.")
ASSUMPTIONS = ["extra coverage only: pins the building blocks of C06, decides none of the listed properties on its own and is therefore not registered"]
EXHAUSTIVE = True


def run(R):
    cases, r = R.mc("MC_Families", "MC_Families.cfg", workers=2)
    R.replay(cases)
