"""X05 - the Vector object as a state machine (spec/VectorObj.tla; not in MANIFEST.json)."""
LEVEL = "model_checking"
RULE = ("P1: TLC explores every program of 4 calls (push / pop / clear / sort / truncate / insert / remove / extend) from the empty vector "
        "and checks sorting (idempotent, ordered, same length), the telescoping sum of diff and that a rejected call keeps the state; "
        "P3: random programs of 1..24 calls on real Vector objects (six constructors; Vec calls through Deref, sort / sorted / diff / "
        "to_matrix / reshape / == / Extend / the three IntoIterator forms) recorded with the complete state and validated step by step "
        "by TLC against Trace_VectorObj.")
ASSUMPTIONS = ["extra coverage only: decides none of the listed properties on its own and is therefore not registered as a check",
               "integer-valued entries (exact in f64)"]
EXHAUSTIVE = False


def run(R):
    R.mc("MC_VectorObj", "MC_VectorObj.cfg", workers=2, emit=False)
    n = 150 if R.tier == "quick" else 1500
    tr = R.record("X05", n)
    R.validate("Trace_VectorObj", "Trace_VectorObj.cfg", tr, key_of_event=lambda ev: "X05 vector %s" % ev.get("op"), timeout=3000)
