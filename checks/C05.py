"""C05 - matrix products follow the definition for every shape and transpose flag (DESIGN 4/C05)."""
LEVEL = "model_checking"
RULE = ("P1: for all shapes m, l, n in 1..KC (quick 3, thorough 5), four flag pairs and the non-conformable neighbour "
        "(inner dimension off by one) TLC checks MatmulCode (explicit transposition; both flags via (B.A)^T) = ProdSpec"
        " and BlockedCode(bs) = ProdSpec for every block size 1..2KC, the transpose identity the both-flags branch "
        "relies on, and homogeneity (sA)(tB) = st AB; P2 (inner products additionally of length 64, 65, 70, 96, 97, "
        "130, also with outer dimensions 2..5 on both sides): for all shapes 1..K (quick 5, thorough 9) x flags x "
        "{conformable, non-conformable} the exact product is emitted and replayed through matmul, matmul_blocked for "
        "every block size 1..2 max(m,l,n) and for 2^40, 2^63, usize::MAX - 1, usize::MAX, xtx, and every Dot method in "
        "all receiver/argument ownership combinations (Matrix.Matrix; Matrix.Vector when n = 1; Vector.Matrix when m = "
        "1; Vector.Vector when m = n = 1), equality oracle on integer entries, panic expected for non-conformable "
        "shapes; A A^T and A^T A with one object passed as both operands equal the products with a copy; the same "
        "operand buffers after two entries were exchanged in place give the product of fresh copies; a 1 x 1 right "
        "operand against an inner dimension >= 2 is rejected in every ownership form; a third of the cases is replayed "
        "again with the operands scaled by powers of two (2^-60 x 2^60, 2^-55 x 2^-55, 2^300 x 2^200, 2^-500 x 1: still"
        " exact), and with one operand square and symmetric up to the last bit (2^53 and 2^53 + 2 across the diagonal) "
        "against a row / column selector: transposed exactly as the flags say; P3: random shapes up to 12 (quick) / 16 "
        "(thorough) with entries in +-50 recorded and validated by TLC (Trace_Products); shapes 17..64 through the "
        "relational observation matmul_blocked = matmul. Case class = (entry point + ownership, flags, shape class, "
        "conformable?, block-size class).")
ASSUMPTIONS = ["integer-valued entries: products and sums exact in f64 (equality oracle)",
               "a Vector argument/receiver is promoted to a column/row as the trait documentation states"]
EXHAUSTIVE = True


def run(R):
    cases, r = R.mc("MC_Products", "MC_Products_%s.cfg" % R.tier, workers=8, timeout=3000, heap="6g")
    R.replay(cases)
    n, dim = (150, 12) if R.tier == "quick" else (400, 16)
    tr = R.record("C05", n, extra_args=[str(dim)])
    R.validate("Trace_Products", "Trace_Products.cfg", tr,
               key_of_event=lambda ev: "C05 trace %s t%d%d" % (ev.get("call"), ev.get("ta", 0), ev.get("tb", 0)), timeout=3000)
