"""C04 - element-wise arithmetic, maps and reductions at every length and operand form (DESIGN 4/C04)."""
LEVEL = "model_checking"
RULE = ("P1: for every length 0..NMax (quick 17, thorough 40: every residue of the unroll width several times and the "
        "empty case) TLC checks that the unrolled-plus-remainder loop shape covers every position exactly once and that"
        " a form's output at position i depends on l[i], r[i], s only; P2: every (length, operator, form) with exact "
        "rational expectation on position-dependent integer operands, the length mismatches n+-1, and the same cases on"
        " a table of special values (+-0, +-inf, NaN, subnormals, huge) where the spec fixes which two operands meet at"
        " each position and in which order, are replayed through Vector and through Matrix in every factorisation of "
        "the length, in every ownership variant (owned/borrowed operands, scalar left/right, compound assignment incl. "
        "same-size-different-shape rejection), operands re-read afterwards; all 29 unary maps (once per run also on a "
        "vector and a column matrix of 70001 elements; also on ordinary values q/4, |q| <= 14, where floor, ceil, round"
        " - ties away from zero whatever the parity - signum and abs have the exact meaning the spec gives, "
        "Inv_Rounding), powi(-1..4), powf(.5, 2, 2.5, 3), negation at every length bit-exact against the scalar f64 "
        "method; reductions (sum, prod, dot, norm, inf_norm, logsumexp, logmeanexp incl. constants up to +-1e4 and the "
        "shift identity) against exact integer values; P3: random lengths up to 300 and ten operands of length "
        "1024..10000 (every form; Vector and Matrix) with random integer operands recorded and validated by TLC "
        "(Trace_Elementwise). powf additionally with real exponents 3, 5, -2, -1/2, 100, -171, 3e9, 0 (and powi -3, 5, "
        "17, -1024, 1075 and the ends of the exponent's range i32::MAX, i32::MIN + 1, i32::MIN) on operands x * 1.1 + "
        "0.3 that are not small integers. Sums and means with +-inf, NaN, both infinities or an overflowing partial sum"
        " at the first, middle and last position follow IEEE arithmetic. The scalar of the special-value cases ranges "
        "over NaN, +-0, inf, 1 and -1.5, and every special value occurs as a left operand. Case class = (container, "
        "form, ownership variant, operator, length class n=0 / n<8 / n%8=0 / other, ok or kind of mismatch).")
ASSUMPTIONS = ["on special values the scalar f64 operation/method itself is the oracle the property names (computed by the harness per position); the spec decides position, operand order, length, shape",
               "reductions are judged on the exact sub-domain (small integers); the rounding bound for general reals is not decided"]
EXHAUSTIVE = True


def run(R):
    cases, r = R.mc("MC_Elementwise", "MC_Elementwise_%s.cfg" % R.tier, workers=8, timeout=3000)
    R.replay(cases)
    n = 250 if R.tier == "quick" else 1200
    tr = R.record("C04", n, extra_args=["300"])
    R.validate("Trace_Elementwise", "Trace_Elementwise.cfg", tr,
               key_of_event=lambda ev: "C04 trace %s %s %s" % (ev.get("cont"), ev.get("form"), ev.get("variant")), timeout=3000)
