"""C08 - descriptive statistics equal their textbook definitions (DESIGN 4/C08)."""
LEVEL = "model_checking"
RULE = ("P1: for every integer data vector of length 1..L over -M..M (quick L=4, thorough L=6; M=2) with three "
        "companion vectors, TLC checks in exact rationals that Welford's recurrence (one update per datum), the two-"
        "pass, shifted one-pass and online covariance algorithms and the first-occurrence folds as coded equal the "
        "definitions, and that the definitions obey the shift / scale / bilinearity laws; every increasing edge vector "
        "over 0..E for bin centres; P2: every vector is replayed at offsets 0, 2^10, 2^20, 1e8 and -1e8 (the expected "
        "variance/covariance are those of the un-shifted integers, so the implementation really sees mean/sd up to 1e8)"
        " through the free functions and the Vector/Matrix methods: mean (both algorithms), var, std, sample var/std, "
        "covariance in all four algorithms, scale laws, min/max/argmin/argmax (constant data, ties at every position, "
        "signed zeros), bin centres for uniform and non-uniform integer and dyadic edges; tolerance 2^-40 (spread^2 + "
        "spread |offset|): the textbook one-pass formula is off by ~1e-4 at offset 2^20 and is rejected; every second "
        "case also at the scales 2^-70 and 2^60 (scale laws of the definitions), population covariance from one "
        "observation on, cov(x, x) = var(x) with the very same slice passed twice; bin centres for non-decreasing edges"
        " with one repeated edge (a zero-width bin; still n-1 centres), for opposite-sign huge edges, a bin almost "
        "symmetric about zero and a huge first / last bin; every statistic on the same buffer immediately before and "
        "after an interior value was edited in place equals the value on a fresh copy; zeros of both signs mixed (ties:"
        " first occurrence wins) as they are and as the largest / smallest value; P3 (incl. six vectors of length "
        "513..1400): random integer vectors of length 2..200 validated by TLC (Trace_Stats), each also moved to 2^20 "
        "and +-1e8 (second moments in all algorithms unchanged within the bound). Case class = (function, data shape "
        "n=1/constant/ties/generic, offset class).")
ASSUMPTIONS = ["integer data plus exact offsets (exact rational oracle); lengths beyond a few hundred and gaussian data are not reached",
               "tolerance is that of a numerically stable algorithm, stated in the rule"]
EXHAUSTIVE = True


def run(R):
    cases, r = R.mc("MC_Stats", "MC_Stats_%s.cfg" % R.tier, workers=8, timeout=6000, heap="6g")
    R.replay(cases)
    n = 150 if R.tier == "quick" else 1000
    tr = R.record("C08", n, extra_args=["200"])
    R.validate("Trace_Stats", "Trace_Stats.cfg", tr, key_of_event=lambda ev: "C08 trace statistics", timeout=3000)
