"""C11 - factorisations reconstruct the input and have the promised structure (DESIGN 4/C11)."""
LEVEL = "model_checking"
RULE = ("P1: over every integer matrix of order NN with entries in -Mag..Mag (quick 2x2 over -2..2, thorough 3x3 over "
        "-1..1) plus all 24 permutation matrices of order 4 and 216 products L0 L0^T, TLC checks in exact rational "
        "arithmetic that the code-shaped LU (column update with min(i,j) inner sum, strict > pivot search, row + pivot-"
        "vector swap, guarded scaling) satisfies the certificate (permutation, unit lower with |L| <= 1, P A = L U), "
        "that the parity routine equals the permutation sign, det = sign * prod U_ii = cofactor determinant, and that "
        "the Cholesky route is taken exactly for the SPD matrices; P3: the real lu / Matrix::lu / det / lu_det / "
        "cholesky / Matrix::cholesky / triangular solves / lu_solve / cholesky_solve are run on every enumerated matrix"
        " and on random small integer matrices, the rationalised factors are recorded and TLC (Trace_Linalg) evaluates "
        "every certificate on the implementation's OWN output in exact arithmetic (so a different valid tie-break is "
        "not an alarm): P A = L U, |L| <= 1, slice = Matrix bit for bit, exact determinant, L lower with positive "
        "diagonal and L L^T = A, rejection of non-PD input, triangular systems inverted; the SPD matrices again times "
        "2^-80, 2^60, 2^-600 and 2^560: the factor is the factor times the root of the scale, bit for bit; LU of every "
        "matrix times 2^-600 and 2^560: same pivots, same L, U times the scale, bit for bit, at slice and Matrix level."
        " SPD matrices with one off-diagonal entry (above, then below the diagonal; corner and first pair) moved by one "
        "ulp - symmetric by the code's own relative test: slice and Matrix level agree on acceptance and on every bit "
        "of the factor (both read the lower triangle). Case class = (event kind, matrix class).")
ASSUMPTIONS = ["exact certificates need factors that rationalise with denominators <= 4096: order <= 4, small integer entries",
               "a singular positive semi-definite matrix is on the rounding boundary of 'not positive definite': either outcome accepted",
               "orders 5..32 and cond 1e8 are outside the exact domain (see C01 for the scaled-residual observation)"]
EXHAUSTIVE = True


def _key(ev):
    return "C11 %s %s %s" % (ev.get("kind"), ev.get("call", ""), ev.get("cls", ""))


def run(R):
    import vlib
    cases, r = R.mc("MC_Linalg", "MC_Linalg_%s.cfg" % R.tier, workers=8, timeout=6000, heap="6g")
    nr = 150 if R.tier == "quick" else 1500
    tr = R.record("C11", nr, extra_args=[cases])
    for e in vlib.read_ndjson(tr):
        R.keys.add(_key(e))
    R.validate("Trace_Linalg", "Trace_Linalg.cfg", tr, key_of_event=_key, timeout=6000, heap="6g")
