"""C09 - special functions are accurate over their whole finite range (DESIGN 4/C09; weakest claim of the set)."""
LEVEL = "exploration"
TECHNIQUE = "TLA+ acceptance predicates (TLC trace validation) over error observations at mpmath reference-table points; exact factorial / harmonic-number / integer-beta identities computed by TLC on big naturals and replayed"
RULE = ("P2: TLC computes n! for n = 0..170 on big naturals, H_n for n = 1..20 in rationals and the factorials of "
        "B(a,b) for integer a, b up to 80; the harness compares gamma(n+1), digamma(n+1) - digamma(1) and beta(a,b) "
        "(both argument orders) with them at the property's tolerances; P3: gamma at 2150 reference points (every odd "
        "multiple of 1/32 selected over (-170, 171.6), all integers and half-integers, 2^-e), digamma at 207 points in "
        "(1e-3, 1e6), erf at 490 points in +-6 and the tails and at eleven arguments between 40 and the infinities that"
        " are not f32 numbers (true value 1 to hundreds of digits): relative error (gamma scaled by the distance to the"
        " nearest pole), finite wherever the true value is a finite normal f64, erf odd / bounded / within 1.5e-7; "
        "identity observations Gamma(x+1) = x Gamma(x) on 760 grid points, psi(x+1) = psi(x) + 1/x, B(a,b) = B(b,a) = "
        "Gamma(a)Gamma(b)/Gamma(a+b) on an 11 x 11 grid; all validated by TLC (Trace_SpecialFn). Distinct non-trivial "
        "cases = (function, region) classes; evaluations = table points + identity points.")
ASSUMPTIONS = ["reference values: mpmath 1.3 at 50 digits (tools/gen_reftables.py, outputs committed under spec/ref/); the relative-error observation is computed by the harness from the table value",
               "the dense sweep over every f32 argument is NOT performed: accuracy between table points is constrained only by the recurrence identities"]
TRUSTED = ("mpmath reference tables", "harness error observations (src/c09.rs)")


def _key(ev):
    return "C09 %s %s" % (ev.get("fn"), ev.get("region"))


def run(R):
    import os, vlib
    cases, r = R.mc("MC_SpecialFn", "MC_SpecialFn_%s.cfg" % R.tier, workers=4)
    R.replay(cases)
    tr = R.record("C09", 1, extra_args=[os.path.join(vlib.SPEC, "ref")])
    for e in vlib.read_ndjson(tr):
        R.keys.add(_key(e))
    R.validate("Trace_SpecialFn", "Trace_SpecialFn.cfg", tr, key_of_event=_key, timeout=3000)
