"""C06 - GLM fitting returns the (penalised) MLE with correct inference (DESIGN 4/C06)."""
LEVEL = "model_checking"
RULE = ("P1: TLC solves in exact rationals (a) the Gaussian family as weighted ridge least squares with unpenalised "
        "intercept on three integer designs (p = 2, 3; n = 5..7) x responses x weights x offsets x alpha in {0, 1/8, 1,"
        " 10} and checks that the solution satisfies the penalised score equations; (b) grouped designs (intercept + "
        "indicators, 2-3 groups) for all six families: the weighted group means satisfy the score equations, Bernoulli "
        "means are interior, Fisher information X^T diag(w k(mu)) X; P2: every case is fitted by the real GLM "
        "(tolerance 1e-13): coefficients (Gaussian), predictions = fitted means, deviance = RSS and = the family's "
        "deviance at the fitted means (unit weights), dispersion convention, se^2 and covariance diagonal = reported "
        "dispersion x diag(inverse exact information), the same coefficients, standard errors, covariance, deviance, "
        "dispersion and predictions from an object that was first fitted to other responses on a design with one column"
        " fewer and INSPECTED (every accessor) and from one whose first fit failed, and from one configured through the"
        " public fields alpha / tolerance / weights, and from a clone of the configured object; Gaussian cases again "
        "with responses and offsets times 2^-40 and 2^30 (coefficients, predictions, standard errors scale by s, "
        "deviance and dispersion by s^2), invariance under reversing the rows, an iteration budget of 1 => Err, "
        "accessors fail before a fit; P3 (observation validated by TLC Trace_GLM): 120 (quick) / 1200 random designs "
        "with responses simulated from the model, weights / offsets / alpha in {0, .1, 1, 10}, tolerances 1e-8..1e-14, "
        "one event in seven with 8..24 nearly noise-free observations under alpha in {1, 10} (penalty of the order of "
        "the deviance itself), a third with large-mean responses (log-link iteration starts far from the solution), a "
        "third on an object that was already fitted to other responses with another configuration and a third retried "
        "as configured after a fit that failed with a budget of one iteration: tiny-mean (1e-6) Gamma / Exponential "
        "responses and huge-mean (900) log-link responses whose start value overflows (Err or a finite answer); the "
        "reported deviance is the family's definition at the fitted means (within 4 sqrt(tol), as for the score); the "
        "penalised score at the returned coefficients vanishes to 4 sqrt(tolerance) relative to its terms or to the "
        "scale of the data. Case class = (family, design kind, weights, offset, ridge).")
ASSUMPTIONS = ["exact oracle: Gaussian family and grouped designs only (32-bit rationals); for general designs of the other five families the score equations are an observation computed by the harness with the textbook link / variance functions",
               "weighted deviance / dispersion conventions are not judged (the property does not fix them); aic/bic are not judged",
               "the residual sum of squares is compared only where the exact value fits in 32-bit integers (16 of 49 Gaussian cases)"]
EXHAUSTIVE = True


def _key(ev):
    return "C06 trace %s %s%s%s%s" % (ev.get("family"), ev.get("design"), " weights" if ev.get("weights") else "", " offset" if ev.get("offset") else "", " ridge" if ev.get("alpha_class") else "") + (" " + ev.get("scale") if ev.get("scale") not in (None, "unit") else "") + (" " + ev.get("history") if ev.get("history") not in (None, "fresh") else "")


def run(R):
    import vlib
    cases, r = R.mc("MC_GLM", "MC_GLM_%s.cfg" % R.tier, workers=8, timeout=3000)
    R.replay(cases)
    n = 120 if R.tier == "quick" else 1200
    tr = R.record("C06", n)
    for e in vlib.read_ndjson(tr):
        R.keys.add(_key(e))
    R.validate("Trace_GLM", "Trace_GLM.cfg", tr, key_of_event=_key, timeout=3000)
