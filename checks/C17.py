"""C17 - statistical transforms and combinatorics satisfy their defining identities (DESIGN 4/C17)."""
LEVEL = "model_checking"
RULE = ("P1: the multiplicative loop of binom_coeff with its overflow guard is model-checked on abstract 8- and 12-bit "
        "words (all n <= 14 / 18): every value that fits is returned exactly without intermediate wrap-around, loop "
        "invariant c = C(n, i); TLC builds Pascal's triangle up to n = 67 on a big-natural representation (base-10^4 "
        "limbs; the definition C(n,k) = C(n-1,k-1) + C(n-1,k)), checks symmetry and that the multiplicative formula "
        "agrees with it for n <= 30, evaluates the multiplicative formula for n in {100, 1e3, 1e4, 1e5, 2e5}, k <= 32 "
        "and - with big-natural multiplication - for five n between 2^32 and 2^33 (incl. the largest n whose C(n,2) "
        "fits in 64 bits and its successor) and for 2^63 - 1, 2^63, 2^63 + 1, 2^64 - 1, k <= 3 and mirrored, with the "
        "'fits in 64 bits' predicate; Box-Cox values (x^lambda - 1)/lambda on rational points (lambda in +-2, +-1, "
        "+-1/2, 3 with perfect-square x for half-integers); P2: binom_coeff for all 2346 pairs n <= 67 and every "
        "large-n pair whose value fits in 64 bits against the exact integers, symmetry and Pascal's rule on the "
        "implementation's own values, the gamma-based alternative for n <= 40; boxcox and boxcox_shifted (shifts of "
        "both signs) on the rational points, lambda = 0 (the logarithm), |lambda| = 2^-30, rejection outside x + shift "
        "> 0 and acceptance just inside it (x = 2^-53 .. 2^-1000, also reached through a cancelling shift, exact values"
        " for lambda = 1, 2, -1, 0); a 470-point mpmath table (spec/ref/boxcox.ndjson: x from 2^-19 to 1e6 and ten "
        "arguments within 2^-10 .. 2^-40 of 1, |lambda| from 2^-34 to 5) within the conditioning bound 16 eps max(1, "
        "x^lambda)/|lambda| of the definition; identities on grids: logistic(0) = 1/2, reflection, range and "
        "monotonicity on every multiple of 1/8 in +-745, logit inverts logistic on -700..16, logistic inverts logit for"
        " p = 2^-1..2^-1000 (relative) and 1 - 2^-k, logit(1 - 2^-k) = ln(2^k - 1) and logit(2^-k) = -ln(2^k - 1) for k"
        " <= 53, subnormal p, end points / rejection outside [0,1]; softmax: equal inputs of magnitude up to +-1e4 give"
        " 1/n, non-negative, sum 1, order preserving, shift invariant for lengths 1..1000. Case class = (function, "
        "input class).")
ASSUMPTIONS = ["logistic / softmax / logit identities are relational observations evaluated by the harness on fixed grids (the spec cannot define exp)",
               "the dense f32 sweep of the quantifier is replaced by the 1/8 grid over +-745"]
EXHAUSTIVE = True


def run(R):
    # design of the overflow guard on abstract 8- and 12-bit words: every value that fits is exact, nothing wraps
    for w in (8, 12):
        R.mc("BinomWord", "MC_BinomWord_%d.cfg" % w, workers=4, emit=False)
    cases, r = R.mc("MC_Special", "MC_Special_%s.cfg" % R.tier, workers=8, timeout=3000)
    import os, vlib
    R.replay(cases, extra_args=[os.path.join(vlib.SPEC, "ref")])
