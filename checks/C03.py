"""C03 - samplers draw from the distribution they describe, in every parameter regime (DESIGN 4/C03)."""
LEVEL = "model_checking"
RULE = ("P1: TLC checks the control-flow models of the rejection/iteration samplers (Marsaglia-Tsang gamma with the "
        "boost for shape < 1, Poisson multiplication and PTRS, binomial shortcuts / flip / inversion / BTPE / un-flip) "
        "for termination under strong fairness of the accepting steps and for the range of the returned value, in all "
        "ten parameter regimes; P3: for every (law, parameter point) of the reference table (77 points forcing every "
        "algorithm branch: gamma shape <1/3, <1, >=1 and beta / chi-squared / t built on it; Poisson rate <10, >=10, "
        ">=150; binomial inversion / BTPE, p > 1/2, p in {0,1}, n = 0; equal bounds; Beta with both shapes below 0.05; "
        "3000 trials with a success probability just below 1/100 and mirrored) and for multivariate normals of "
        "dimension 1..4, n = 2e5 (quick) / 2e6 (thorough, 2 seeds) draws are taken from the real sampler in a watchdog "
        "thread; TLC (Trace_Samplers) validates: returned in time, exactly n draws, matrix shape, every draw in the "
        "support (strict where open; integer-valued for discrete laws), same seed => same stream, and empirical counts "
        "at the 7..25 table thresholds inside the DKW band (alpha = 1e-12) of n F(t); requests of 2^20+3 draws and a "
        "1500 x 1000 sample matrix return exactly what was asked for; binomial laws with up to 2e7 trials and a success"
        " probability within 2^-22 of 0 or 1 against an mpmath CDF table; degenerate continuous uniform laws (lower = "
        "upper; constructor, setter, update) return their single support point; every row is sampled a second and third"
        " time (4e4 draws) from an object moved to its parameters by update / by the setters; two of the MVN "
        "covariances have an exact zero where the Cholesky factor fills in; MVN cases are repeated with the covariance "
        "factor times 2^-22 and 2^14; MVN draws are whitened with the driver's L: every coordinate and two projections "
        "against the standard normal CDF. Case class = (law, regime).")
ASSUMPTIONS = ["true CDF values come from the committed mpmath table; nF = round(n F(t)) is formed by the harness, the acceptance band by the spec",
               "DKW false-alarm probability <= 1e-12 per threshold; measured sup-deviation on the unchanged tree below half the band in every case",
               "a sampler that does not return within 30 s (+ n / 20000 s) is reported as 'timeout' (a violation of 'sampling terminates'), not as a tool error"]
EXHAUSTIVE = False


def _key(ev):
    return "C03 %s %s" % (ev.get("kind"), ev.get("regime"))


def run(R):
    import os, vlib
    table = os.path.join(vlib.SPEC, "ref", "dist.ndjson")
    os.environ["DISTTABLE"] = table
    r = vlib.run_tlc("Samplers", "MC_Samplers.cfg", R.work, workers=1, timeout=600)
    R.cov["states"] += r["distinct"]; R.cov["transitions"] += r["states"]
    R.cov["stages"].append(dict(stage="P1", module="Samplers", distinct=r["distinct"], liveness="Terminates", ok=r["ok"]))
    if not r["ok"]:
        raise vlib.ToolError("Samplers liveness model failed: %s" % r["messages"][:2])
    cases, _ = R.mc("MC_DistMoments", "MC_DistMoments_%s.cfg" % R.tier, workers=4, timeout=3000)
    runs = [(200000, 0)] if R.tier == "quick" else [(2000000, 0), (2000000, 7)]
    for i, (n, off) in enumerate(runs):
        tr = R.record("C03", n, out_name="trace%d.ndjson" % i, extra_args=[cases, table], seed_offset=off, timeout=7200)
        for e in vlib.read_ndjson(tr):
            R.keys.add(_key(e))
        R.validate("Trace_Samplers", "Trace_Samplers.cfg", tr, key_of_event=_key, timeout=3000)
