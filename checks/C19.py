"""C19 - resampling never invents, loses or unpairs data (DESIGN 4/C19)."""
LEVEL = "model_checking"
RULE = ("P1: TLC explores the shuffle loop of resample.rs (2n transpositions, both indices drawn nondeterministically) "
        "for n <= NMax (quick 3, thorough 4) over ALL draw sequences: the array stays a permutation, the paired array "
        "sees the same swaps, every permutation is reachable after 2n swaps (ASSUME Reach = Perms), jackknife "
        "definition sanity. P3: for each seed the real bootstrap / jackknife / shuffle / shuffle_two are called on "
        "position tokens (lengths 1, 2, 1..64 and 200..2000), on repeated and special values (+-0, +-inf, NaN, "
        "subnormal: sorted token multisets, paired tokens) and the events are validated by TLC (Trace_Resample): "
        "permutation, common permutation, exact leave-one-out rows in order, row count / row length / index range of "
        "bootstrap, and pooled position counts of 200 resamples inside the DKW band (alpha = 1e-12) of the exact "
        "uniform CDF, and the position frequencies of every slot of every resample (the first one included) over 4000 "
        "separate calls with 1..3 resamples; for n = 2000 and 1500 pooled index counts of 2e6 draws in eight bins and "
        "sixty paired shuffles of a series with its negative. Case class = (call, length class).")
ASSUMPTIONS = ["the random draws are the library's own (seeded thread-local generator); the spec constrains only what the property states, not the swap sequence",
               "DKW false-alarm probability <= 1e-12 per bootstrap_counts event"]
TRUSTED = ("index projection of results (value -> position token) in harness/src/c19.rs",)


def _key(ev):
    n = ev.get("n", 0)
    cls = "n=1" if n == 1 else "n=2" if n == 2 else "n<=64" if n <= 64 else "n>64"
    return "C19 %s %s" % (ev.get("what") or ev.get("op"), cls)


def run(R):
    R.mc("MC_Resample", "MC_Resample_%s.cfg" % R.tier, workers=8, emit=False)
    import vlib
    if R.tier == "quick":
        tr = R.record("C19", 100, extra_args=["2000"])
        evs = vlib.read_ndjson(tr)
        for e in evs:
            R.keys.add(_key(e))
        R.validate("Trace_Resample", "Trace_Resample.cfg", tr, key_of_event=_key, timeout=3000)
    else:
        for chunk in range(10):
            tr = R.record("C19", 1000, out_name="trace%d.ndjson" % chunk, extra_args=["300"], seed_offset=1000 * (chunk + 1))
            for e in vlib.read_ndjson(tr):
                R.keys.add(_key(e))
            R.validate("Trace_Resample", "Trace_Resample.cfg", tr, key_of_event=_key, timeout=6000, heap="8g")
