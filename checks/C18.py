"""C18 - distributions are a pure function of current parameters and the seed (DESIGN 4/C18)."""
LEVEL = "model_checking"
RULE = ("P1: TLC explores spec/Dist.tla for all 13 kinds on a 5..7-value grid per field (valid and invalid values, "
        "targets on both sides of the current ones): Code layer (setters/updates as written) refines the Spec layer, "
        "Valid and Fresh (cache = CacheOf) in every state; P2: the complete transition table of the spec (state x every"
        " setter/bulk-update action -> outcome and admissible parameter tuples) is walked on the real objects along "
        "EVERY path up to the depth bound; after each step the object must be observationally equal (Debug rendering, "
        "mean, var, 8 density/mass probes, 12-draw seeded sample stream) to a twin freshly constructed from the spec's "
        "parameters and observed in a thread of its own; Default::default() of every law is observationally some fresh "
        "object; the seeded streams of Normal and Gumbel in units of 2^-70 and 2^40 are the unit streams times the "
        "unit; accepted extreme values show the observations of a twin built in its own thread, also for two tiny "
        "values set one after the other; stream reproducibility and independence from other live objects per state, "
        "40000-draw requests reproducible and extending the small request; extreme magnitudes and special values "
        "(spec/MC_DistExtreme.tla, 272 cases: +-2^-1074 .. 2^1000 with validity decided symbolically; NaN and +-inf "
        "rejected where the constraint decides it and otherwise decided alike by all entry points) through constructor,"
        " setter and bulk update; the grid contains Poisson rates 11 and 160 and Binomial n = 100, 200 (three BTPE "
        "states sharing n or p) so that setters cross every sampler regime; P3: seeded random histories of 1..20 "
        "mutations recorded with observation fingerprints, validated by TLC (Trace_Dist) against the fingerprints of "
        "fresh objects. Case class = (kind, call, valid/invalid).")
ASSUMPTIONS = ["parameters on a dyadic grid (quarters) / small integers; negative values for unsigned-typed fields not offered",
               "a rejected bulk update may leave any VALID per-field mix of old and new values (setter order is not mandated)",
               "observational identity is judged on the listed observables; both sides are produced by the same code"]
EXHAUSTIVE = True


def run(R):
    cases, r = R.mc("MC_Dist", "MC_Dist_%s.cfg" % R.tier, workers=8, timeout=1800)
    depth = 2 if R.tier == "quick" else 3
    R.replay(cases, extra_args=[str(depth)], timeout=7200)
    xc, r = R.mc("MC_DistExtreme", "MC_DistExtreme.cfg", workers=2)
    R.replay(xc, extra_args=["extreme"])
    nh = 300 if R.tier == "quick" else 5000
    tr = R.record("C18", nh, extra_args=[cases])
    R.validate("Trace_Dist", "Trace_Dist.cfg", tr,
               key_of_event=lambda ev: "C18 trace %s %s" % (ev.get("kind"), ev.get("op")), timeout=3000)
