"""X01 - behaviour outside the 20 listed properties that the specification has absorbed (not in MANIFEST.json)."""
LEVEL = "model_checking"
RULE = ("spec/Extras.tla: Vector sort / sorted / diff on every integer vector of length 0..4 over -2..2, serde_json round trip of Matrix and "
        "Vector, has_dispersion table, MVN::new argument validation, Display of AR in lag order; every case replayed.")
ASSUMPTIONS = ["extra coverage only: decides none of the listed properties and is therefore not registered as a check"]
EXHAUSTIVE = True


def run(R):
    cases, r = R.mc("MC_Extras", "MC_Extras_%s.cfg" % R.tier, workers=4)
    R.replay(cases)
