"""X02 - session traces against the umbrella specification spec/Session.tla (not in MANIFEST.json)."""
LEVEL = "model_checking"
RULE = ("P3: sessions recorded from the real library (a heap of live Matrix and distribution objects plus the thread-local "
        "generator; every seed's sampling script run twice, the second time with bystander objects created, mutated and dropped "
        "between the sampling calls) validated by TLC against spec/Session.tla: each object follows its own module's state machine, "
        "no non-sampling call moves the generator token, and token + draws are a function of (seed, sampling script) alone.")
ASSUMPTIONS = ["extra coverage only: decides none of the listed properties on its own and is therefore not registered as a check",
               "draws are compared through a 64-bit FNV fingerprint of their bit patterns"]
EXHAUSTIVE = False


def run(R):
    n = 40 if R.tier == "quick" else 600
    tr = R.record("X02", n)
    R.validate("Session", "Session.cfg", tr, key_of_event=lambda ev: "X02 session %s" % ev.get("op"), timeout=3000)
