#!/usr/bin/env python3
"""Fills the seeded-changes table of DESIGN.md (between the SEEDS-TABLE markers) from seeded/*/meta.json."""
import glob, json, os, re
V = os.path.dirname(os.path.dirname(os.path.abspath(__file__)))
rows = []
for f in sorted(glob.glob(os.path.join(V, "seeded", "*", "meta.json"))):
    m = json.load(open(f))
    need = " ".join(m.get("needs_to_manifest", "").split())
    need = re.sub(r"[|`]", "", need)[:230]
    det = m.get("detected_by")
    d = ("*judged neutral*: " + m["judged"][:160]) if (not det and m.get("judged")) else "**missed**" if not det else "%s (%s): %s" % (det["check"], det["tier"], re.sub(r"[|]", "", det["keys"].replace("  key: ", "").strip(" ;"))[:150])
    rows.append("| `%s` | %s | %s | %s |" % (m["name"], m["property"], need, d))
tab = "| seed | property | what it changes / needs to manifest (from the author's notes) | detected by (first keys) |\n|---|---|---|---|\n" + "\n".join(rows)
n_det = sum(1 for r in rows if "**missed**" not in r and "*judged neutral*" not in r)
n_neu = sum(1 for r in rows if "*judged neutral*" in r)
tab += "\n\n%d seeded changes stored, %d detected by the quick tier of a check (the property's own or a sibling's), %d judged not to violate the property (see 10.1), %d missed.\n" % (len(rows), n_det, n_neu, len(rows) - n_det - n_neu)
p = os.path.join(V, "DESIGN.md"); s = open(p).read()
s = re.sub(r"<!-- SEEDS-TABLE-BEGIN -->.*<!-- SEEDS-TABLE-END -->", "<!-- SEEDS-TABLE-BEGIN -->\n" + tab + "<!-- SEEDS-TABLE-END -->", s, flags=re.S)
open(p, "w").write(s)
print(len(rows), "seeds,", n_det, "detected")
