#!/usr/bin/env python3
"""Regenerates MANIFEST.json from checks/*.py (LEVEL, TEXT, NOTE, TECHNIQUE) + not_applicable.json."""
import importlib.util, json, os, glob
V = os.path.dirname(os.path.dirname(os.path.abspath(__file__)))
checks = []
for p in sorted(glob.glob(os.path.join(V, "checks", "C*.py"))):
    pid = os.path.basename(p)[:-3]
    spec = importlib.util.spec_from_file_location("m" + pid, p); m = importlib.util.module_from_spec(spec); spec.loader.exec_module(m)
    checks.append({
        "property_id": pid,
        "quick_cmd": "bin/check %s --tier quick" % pid,
        "thorough_cmd": "bin/check %s --tier thorough" % pid,
        "evidence_file": "/verif/evidence/%s.json" % pid,
        "replay_cmd_template": "bin/check %s --replay {path}" % pid,
        "engine": "tlc+vh",
        "level_claimed": {"category": m.LEVEL, "text": getattr(m, "TEXT", m.RULE), "design_ref": "DESIGN.md section 4, " + pid},
        "level_note": getattr(m, "NOTE", "; ".join(m.ASSUMPTIONS)),
        "technique": getattr(m, "TECHNIQUE", "TLA+ specification checked by TLC; TLC-emitted cases replayed into the real code (P2) and recorded traces validated by TLC (P3)"),
    })
claimed = {c["property_id"] for c in checks}
na_path = os.path.join(V, "not_applicable.json")
na = json.load(open(na_path)) if os.path.exists(na_path) else {}
allp = [json.loads(l)["id"] for l in open(os.path.join(V, "properties.jsonl"))]
not_app = [{"property_id": p, "reason": na.get(p, "check not built yet in this round (no claim made); see DESIGN.md section 10 work order")} for p in allp if p not in claimed]
hooks_commits = json.load(open(os.path.join(V, "hooks.json"))) if os.path.exists(os.path.join(V, "hooks.json")) else []
man = {
 "version": 1,
 "setup_cmd": "bin/setup",
 "hooks": {"guard": "compute_verif",
           "enable": "RUSTFLAGS --cfg compute_verif (set in harness/.cargo/config.toml; the harness builds /repo as a path dependency)",
           "baseline_off_cmd": "cd /repo && cargo test --workspace --no-fail-fast --offline",
           "source_commits": hooks_commits, "add_only": True},
 "engines": [{"name": "tlc+vh", "path": "bin/check", "serves_properties": sorted(claimed),
              "kind_free_text": "TLA+ specs in spec/ model-checked by TLC 1.8; Rust harness harness/ (crate vh) replays TLC-emitted cases into /repo and records traces that TLC validates"}],
 "checks": checks,
 "not_applicable": not_app,
 "notes": "All checks share bin/check; exit 0 held / 1 VIOLATION / 2 tool error. known_findings.json lists fixed and open findings."
}
json.dump(man, open(os.path.join(V, "MANIFEST.json"), "w"), indent=1)
print("claimed:", sorted(claimed))
