"""Shared machinery for /verif/bin/check: TLC runs, harness runs, evidence, known findings.

Exit protocol (see DESIGN.md section 2.4):
  0  everything explored held (KNOWN-FINDING lines may be printed)
  1  VIOLATION property=<id> replay=<path>   (a violation not listed in known_findings.json)
  2  tool error / timeout / vacuity failure (never reported as a violation)
"""
import fcntl
import json
import os
import re
import shutil
import subprocess
import sys
import time

VERIF = os.path.dirname(os.path.dirname(os.path.abspath(__file__)))
SPEC = os.path.join(VERIF, "spec")
HARNESS = os.path.join(VERIF, "harness")
WORK = os.path.join(VERIF, "work")
REPLAYS = os.path.join(VERIF, "replays")
EVID = os.path.join(VERIF, "evidence")
TLAJAR = "/opt/veriftools/tla/tla2tools.jar:/opt/veriftools/tla/CommunityModules-deps.jar"
VH = os.path.join(HARNESS, "target", "release", "vh")


class ToolError(Exception):
    pass


def log(*a):
    print(*a, file=sys.stderr, flush=True)


def build_harness():
    """Rebuild the harness (and with it /repo's current working tree, hooks enabled)."""
    os.makedirs(WORK, exist_ok=True)
    lock = open(os.path.join(WORK, ".build.lock"), "w")
    fcntl.flock(lock, fcntl.LOCK_EX)
    try:
        t0 = time.time()
        # Cargo.lock of the harness follows /repo's so that the same dependency versions are used
        env = dict(os.environ, CARGO_NET_OFFLINE="true")
        p = subprocess.run(["cargo", "build", "--release", "--offline", "-q"], cwd=HARNESS,
                           env=env, stdout=subprocess.PIPE, stderr=subprocess.STDOUT, text=True)
        if p.returncode != 0:
            log(p.stdout[-4000:])
            raise ToolError("harness build failed (does /repo still compile?)")
        return time.time() - t0
    finally:
        fcntl.flock(lock, fcntl.LOCK_UN)
        lock.close()


TLC_STATES = re.compile(r"(\d+) states generated, (\d+) distinct states found, (\d+) states left")
CASE_RE = re.compile(r'^<<"(CASE|ST)", "(.*)">>$')


def _unescape(s):
    # TLC prints a TLA+ string value with \" and \\ escapes
    return s.replace('\\"', '"').replace("\\\\", "\\")


def run_tlc(module, cfg, workdir, workers=8, timeout=1800, env=None, heap="4g", extra=None,
            deque=False, out_cases=None):
    """Run TLC on spec/<module>.tla with spec/<cfg>. Returns dict(states, distinct, ok, violated,
    stdout_tail, ncases, coverage). Lines printed by the spec as <<"CASE", json>> are written to
    out_cases (ndjson)."""
    os.makedirs(workdir, exist_ok=True)
    meta = os.path.join(workdir, "tlc-meta-%s" % module)
    shutil.rmtree(meta, ignore_errors=True)
    jopts = ["-XX:+UseSerialGC", "-Xmx" + heap, "-Xss1g"]
    if deque:
        jopts.append("-Dtlc2.tool.queue.IStateQueue=StateDeque")
    cmd = ["timeout", str(timeout), "java"] + jopts + ["-cp", TLAJAR, "tlc2.TLC", "-nowarning",
           "-metadir", meta, "-cleanup", "-noGenerateSpecTE", "-coverage", "1",
           "-workers", str(workers), "-config", cfg]
    if extra:
        cmd += extra
    cmd.append(module + ".tla")
    e = dict(os.environ)
    e.pop("JAVA_TOOL_OPTIONS", None)
    if env:
        e.update(env)
    t0 = time.time()
    logpath = os.path.join(workdir, "tlc-%s.log" % module)
    ncases = 0
    res = dict(states=0, distinct=0, ok=False, violated=None, ncases=0, coverage={}, log=logpath,
               rejected_at=None, messages=[])
    with open(logpath, "w") as lf:
        p = subprocess.Popen(cmd, cwd=SPEC, env=e, stdout=subprocess.PIPE, stderr=subprocess.STDOUT,
                             text=True, bufsize=1 << 20)
        oc = open(out_cases, "w") if out_cases else None
        for line in p.stdout:
            line = line.rstrip("\n")
            m = CASE_RE.match(line)
            if m:
                if oc:
                    oc.write(_unescape(m.group(2)) + "\n")
                ncases += 1
                continue
            lf.write(line + "\n")
            m = TLC_STATES.search(line)
            if m:
                res["states"], res["distinct"] = int(m.group(1)), int(m.group(2))
            if line.startswith("Error:") or "is violated" in line:
                res["messages"].append(line)
                mm = re.search(r"Invariant (\S+) is violated", line)
                if mm:
                    res["violated"] = mm.group(1)
                elif "violated" in line and not res["violated"]:
                    res["violated"] = line
            mm = re.search(r"REJECTED at (\d+)", line)
            if mm:
                res["rejected_at"] = int(mm.group(1))
            mm = re.match(r"<(\w+) line \d+, col \d+ to line \d+, col \d+ of module (\w+)>: (\d+):(\d+)", line)
            if mm:
                res["coverage"][mm.group(1)] = res["coverage"].get(mm.group(1), 0) + int(mm.group(4))
        if oc:
            oc.close()
        rc = p.wait()
    res["rc"] = rc
    res["ncases"] = ncases
    res["wall_s"] = time.time() - t0
    if rc == 124:
        raise ToolError("TLC timed out on %s (%s)" % (module, cfg))
    # TLC exit codes: 0 ok, 12 safety violation, 13 liveness violation, others = errors
    res["ok"] = (rc == 0)
    if rc not in (0, 12, 13) and res["rejected_at"] is None:
        lines = [l for l in open(logpath).read().splitlines() if not l.startswith(("Parsing file", "Semantic processing"))]
        tail = "\n".join(lines)[-2500:]
        raise ToolError("TLC failed on %s (%s) rc=%d\n%s" % (module, cfg, rc, tail))
    return res


def run_apalache(module, inv, workdir, timeout=600, length=0):
    """Unbounded check of a state invariant with Apalache (bounded length 0 = all initial states)."""
    out = os.path.join(workdir, "apalache-" + module)
    shutil.rmtree(out, ignore_errors=True)
    t0 = time.time()
    p = subprocess.run(["timeout", str(timeout), "apalache-mc", "check", "--length=%d" % length, "--inv=" + inv,
                        "--out-dir=" + out, os.path.join(SPEC, module + ".tla")], stdout=subprocess.PIPE, stderr=subprocess.STDOUT, text=True)
    ok = "The outcome is: NoError" in p.stdout
    shutil.rmtree(out, ignore_errors=True)
    if p.returncode == 124:
        raise ToolError("apalache timed out on " + module)
    return dict(ok=ok, wall_s=time.time() - t0, tail=p.stdout[-1500:])


def run_vh(args, timeout=3600, env=None):
    e = dict(os.environ)
    if env:
        e.update(env)
    p = subprocess.run(["timeout", str(timeout), VH] + [str(a) for a in args], env=e,
                       stdout=subprocess.PIPE, stderr=subprocess.PIPE, text=True)
    if p.returncode != 0:
        raise ToolError("harness failed: vh %s rc=%d\n%s" % (" ".join(map(str, args)), p.returncode,
                                                           p.stderr[-3000:]))
    return p


def read_ndjson(path):
    out = []
    with open(path) as f:
        for line in f:
            line = line.strip()
            if line:
                out.append(json.loads(line))
    return out


def load_known():
    p = os.path.join(VERIF, "known_findings.json")
    if not os.path.exists(p):
        return {"open": [], "fixed": []}
    return json.load(open(p))


class Run:
    """One check invocation for one property."""

    def __init__(self, pid, tier, seed, level):
        self.pid, self.tier, self.seed, self.level = pid, tier, seed, level
        self.t0 = time.time()
        self.work = os.path.join(WORK, pid if tier == "quick" else pid + "-thorough")
        shutil.rmtree(self.work, ignore_errors=True)
        os.makedirs(self.work, exist_ok=True)
        os.makedirs(REPLAYS, exist_ok=True)
        os.makedirs(EVID, exist_ok=True)
        self.cov = dict(states=0, transitions=0, traces_validated_against_impl=0, evaluations=0,
                        distinct_nontrivial=0, samples=[], stages=[], exhaustive=False)
        self.assumptions = []
        self.failures = []      # dicts with key, detail, stage
        self.keys = set()
        self.rule = ""

    # ---- stages -------------------------------------------------------------------------
    def mc(self, module, cfg, workers=8, timeout=1800, emit=True, heap="4g", must_hold=True,
           required_cov=()):
        """P1 (+ emission for P2). A violated invariant here is a defect of the *specification*
        layer (Code => Spec on the transcribed design) and is a tool error, not a code violation:
        code changes are detected by P2/P3."""
        cases = os.path.join(self.work, "%s.cases.ndjson" % cfg.replace(".cfg", "")) if emit else None
        r = run_tlc(module, cfg, self.work, workers=workers, timeout=timeout, heap=heap, out_cases=cases)
        self.cov["states"] += r["distinct"]
        self.cov["transitions"] += r["states"]
        st = dict(stage="P1", module=module, cfg=cfg, states_generated=r["states"], distinct=r["distinct"],
                  emitted=r["ncases"], wall_s=round(r["wall_s"], 1))
        self.cov["stages"].append(st)
        log("[%s] P1 %s/%s: %d generated, %d distinct, %d emitted, %.1fs" %
            (self.pid, module, cfg, r["states"], r["distinct"], r["ncases"], r["wall_s"]))
        if must_hold and not r["ok"]:
            raise ToolError("P1 failed for %s/%s: %s (log %s)" % (module, cfg, r["messages"][:3], r["log"]))
        for a in required_cov:
            if r["coverage"].get(a, 0) == 0:
                raise ToolError("vacuity: action/definition %s never exercised in %s/%s" % (a, module, cfg))
        return cases, r

    def replay(self, cases_path, extra_args=(), timeout=3600):
        """P2: TLC-emitted cases replayed into the real code by the harness."""
        verd = cases_path.replace(".cases.ndjson", ".verdicts.ndjson")
        t0 = time.time()
        run_vh(["replay", self.pid, cases_path, verd] + list(extra_args), timeout=timeout,
               env={"VERIF_SEED": str(self.seed)})
        vs = read_ndjson(verd)
        summ = [v for v in vs if v.get("summary")]
        fails = [v for v in vs if not v.get("summary")]
        if not summ:
            raise ToolError("harness wrote no summary for %s" % cases_path)
        s = summ[-1]
        self.cov["evaluations"] += s.get("checked", 0)
        self.cov["traces_validated_against_impl"] += s.get("checked", 0)
        for k in s.get("keys", []):
            self.keys.add(k)
        if s.get("samples") and len(self.cov["samples"]) < 6:
            self.cov["samples"].extend(s["samples"][:3])
        self.cov["stages"].append(dict(stage="P2", cases=s.get("cases", 0), checked=s.get("checked", 0),
                                       failed=len(fails), wall_s=round(time.time() - t0, 1)))
        log("[%s] P2 %s: %d cases, %d comparisons, %d failed" %
            (self.pid, os.path.basename(cases_path), s.get("cases", 0), s.get("checked", 0), len(fails)))
        for v in fails:
            self.failures.append(dict(stage="P2", key=v.get("key", self.pid + " ?"), detail=v))
        return s, fails

    def record(self, sub, n, out_name="trace.ndjson", extra_args=(), timeout=3600, seed_offset=0):
        path = os.path.join(self.work, out_name)
        run_vh(["record", sub, str(self.seed + seed_offset), str(n), path] + list(extra_args),
               timeout=timeout, env={"VERIF_SEED": str(self.seed)})
        return path

    def validate(self, module, cfg, trace_path, key_of_event=None, timeout=1800, heap="4g"):
        """P3: a trace recorded from the real code is checked against the specification by TLC."""
        events = read_ndjson(trace_path)
        if not events:
            raise ToolError("empty trace %s" % trace_path)
        r = run_tlc(module, cfg, self.work, workers=1, timeout=timeout, env={"TRACE": trace_path},
                    heap=heap, deque=True)
        self.cov["states"] += r["distinct"]
        self.cov["transitions"] += r["states"]
        n = len(events)
        st = dict(stage="P3", module=module, events=n, distinct=r["distinct"], wall_s=round(r["wall_s"], 1))
        if r["rejected_at"] is not None:
            k = r["rejected_at"]
            ev = events[k - 1] if 0 < k <= n else None
            key = key_of_event(ev) if (key_of_event and ev) else "%s trace %s" % (self.pid, ev.get("op") if ev else "?")
            # cut the prefix that explains the rejection: from the last reset event to k
            start = 0
            for i in range(k - 1, -1, -1):
                if events[i].get("op") in ("reset", "new") or events[i].get("reset"):
                    start = i
                    break
            self.failures.append(dict(stage="P3", key=key, detail=dict(rejected_at=k, event=ev,
                                      prefix=events[start:k], trace=trace_path)))
            st["rejected_at"] = k
            self.cov["traces_validated_against_impl"] += max(0, k - 1)
            self.cov["evaluations"] += max(0, k - 1)
        elif r["ok"]:
            self.cov["traces_validated_against_impl"] += n
            self.cov["evaluations"] += n
        else:
            raise ToolError("trace validation of %s failed without a rejection point: %s (log %s)" %
                            (trace_path, r["messages"][:3], r["log"]))
        if len(self.cov["samples"]) < 8:
            self.cov["samples"].append(events[min(1, n - 1)])
        self.cov["stages"].append(st)
        log("[%s] P3 %s: %d events, %s" % (self.pid, module, n,
            "accepted" if r["rejected_at"] is None else "REJECTED at %d" % r["rejected_at"]))
        return r

    # ---- finish -------------------------------------------------------------------------
    def finish(self, rule, assumptions, exhaustive=False, trusted=()):
        known = load_known()
        open_keys = {}
        for f in known.get("open", []):
            if f["property"] == self.pid:
                open_keys[f["key"]] = f
        unlisted, listed = [], {}
        for f in self.failures:
            if f["key"] in open_keys:
                listed.setdefault(f["key"], []).append(f)
            else:
                unlisted.append(f)
        for k, fs in sorted(listed.items()):
            print("KNOWN-FINDING: property=%s %s (%s; %d occurrence(s) this run)" %
                  (self.pid, k, open_keys[k]["what"], len(fs)))
        rc = 0
        seen = set()
        nrep = 0
        for f in unlisted:
            if f["key"] in seen:
                continue
            seen.add(f["key"])
            nrep += 1
            if nrep > 20:
                break
            safe = re.sub(r"[^A-Za-z0-9_.-]+", "_", f["key"])[:80]
            path = os.path.join(REPLAYS, "%s-%s.json" % (self.pid, safe))
            same = [g["detail"] for g in unlisted if g["key"] == f["key"]][:5]
            with open(path, "w") as fh:
                json.dump(dict(property=self.pid, key=f["key"], stage=f["stage"], tier=self.tier,
                               seed=self.seed, failures=same), fh, indent=1, default=str)
            print("VIOLATION property=%s replay=%s" % (self.pid, path))
            print("  key: %s" % f["key"])
            rc = 1
        self.cov["distinct_nontrivial"] = len(self.keys)
        self.cov["rule"] = rule
        self.cov["exhaustive"] = exhaustive
        self.cov["case_classes"] = sorted(self.keys)[:400]
        if not self.cov["samples"]:
            self.cov["samples"] = ["(none)"]
        ev = dict(property_id=self.pid, tier=self.tier, seed=self.seed, level=self.level,
                  coverage=self.cov, assumptions=list(assumptions) + ["trusted base: " + ", ".join(trusted)] if trusted else list(assumptions),
                  wall_s=round(time.time() - self.t0, 1), violations=len(seen),
                  known_findings_hit=sorted(listed.keys()))
        # extra-coverage checks (ids starting with X) are not properties: their evidence stays under work/
        evdir = EVID if self.pid.startswith("C") else self.work
        if os.environ.get("VERIF_EVIDENCE_DIR"):       # bin/seed-run: runs on deliberately broken trees must not overwrite the evidence
            evdir = os.environ["VERIF_EVIDENCE_DIR"]
            os.makedirs(evdir, exist_ok=True)
        with open(os.path.join(evdir, self.pid + ".json"), "w") as fh:
            json.dump(ev, fh, indent=1, default=str)
        log("[%s] done in %.1fs: %d distinct case classes, %d violation key(s), %d known" %
            (self.pid, time.time() - self.t0, len(self.keys), len(seen), len(listed)))
        return rc
