SPECIFICATION Spec
CONSTANTS
  W = 8
  NMax = 14
INVARIANTS Inv_FitsExact Inv_LoopInvariant
CHECK_DEADLOCK FALSE
