SPECIFICATION Spec
INVARIANT Inv_Valid
POSTCONDITION Accepted
CHECK_DEADLOCK FALSE
