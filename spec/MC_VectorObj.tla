----------------------------- MODULE MC_VectorObj -----------------------------
\* bounded exploration of the Vector machine: every program of Depth calls over a small alphabet from the empty vector
EXTENDS VectorObj, TLC
CONSTANTS Depth, MaxLen
VARIABLES x, n
vars == <<x, n>>
Acts == {[op |-> "push", a |-> <<v>>] : v \in (0 - 1)..1} \cup {[op |-> o, a |-> <<>>] : o \in {"pop", "clear", "sort"}}
        \cup {[op |-> "truncate", a |-> <<k>>] : k \in 0..2} \cup {[op |-> "insert", a |-> <<k, 2>>] : k \in 0..3}
        \cup {[op |-> "remove", a |-> <<k>>] : k \in 0..2} \cup {[op |-> "extend", a |-> <<0 - 2, 2>>]}
Init == x = <<>> /\ n = 0
Next == /\ n < Depth /\ n' = n + 1
        /\ \E a \in Acts : LET r == VApply(x, a) IN Len(r.x) <= MaxLen /\ x' = r.x
Spec == Init /\ [][Next]_vars
Inv_SortIdempotent == SortSeq(SortSeq(x)) = SortSeq(x) /\ IsSortedSeq(SortSeq(x)) /\ Len(SortSeq(x)) = Len(x)
Inv_Diff == Len(DiffSeq(x)) = (IF Len(x) = 0 THEN 0 ELSE Len(x) - 1) /\ (Len(x) >= 1 => Sum(DiffSeq(x)) = x[Len(x)] - x[1])
\* a rejected call leaves the state unchanged
Inv_PanicKeeps == \A a \in Acts : VApply(x, a).out = "panic" => VApply(x, a).x = x
=============================================================================
