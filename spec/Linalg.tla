------------------------------- MODULE Linalg -------------------------------
\* Factorisations and linear solves (properties C11, C01) in exact rational arithmetic.
\* A matrix is a sequence of rows of rationals (Reals); integers are embedded with R(.).
\*   LUCode     : lu() of decomposition/lu.rs as written - per column: update with the min(i,j) inner sum,
\*                strict > pivot search from row j, row swap + pivot-vector swap, scaling guarded by # 0
\*   LUSolveCode: lu_solve() as written
\*   ParityCode : ipiv_parity() as written (swap until position i holds i)
\*   CholD      : the pivots d_j of the Cholesky recursion (via the square-root-free L D L^T form);
\*                try_cholesky succeeds iff every d_j > 0
\*   Route      : which factorisation solve()/solve_sys() use
\* Certificates (the property's own): permutation, unit lower with |L| <= 1, upper, P A = L U,
\* det = sign * prod(U_ii), A X = B.
EXTENDS Integers, Sequences, FiniteSets, Reals, TLC
\* TLCEval forces (and caches) a value: TLC evaluates operator arguments lazily, which makes
\* recursive folds over matrices re-compute their whole history at every access.

N(A) == Len(A)
RMat(n, f(_, _)) == [i \in 1..n |-> [j \in 1..n |-> f(i, j)]]
IntToRat(A) == [i \in 1..Len(A) |-> [j \in 1..Len(A[i]) |-> R(A[i][j])]]
MatMul(A0, B0) == LET A == TLCEval(A0)  B == TLCEval(B0) IN [i \in 1..Len(A) |-> [j \in 1..Len(B[1]) |-> RSum([k \in 1..Len(B) |-> RMul(A[i][k], B[k][j])])]]
IdentR(n) == RMat(n, LAMBDA i, j : IF i = j THEN ROne ELSE RZ)
TransposeM(A) == [j \in 1..Len(A[1]) |-> [i \in 1..Len(A) |-> A[i][j]]]
IsSymmetric(A) == \A i \in 1..N(A), j \in 1..N(A) : A[i][j] = A[j][i]

\* ------------------------------ LU as coded ------------------------------
MinI(a, b) == IF a <= b THEN a ELSE b
\* column update, rows in order: row i uses the already updated rows k < min(i, j) of column j
RECURSIVE ColUpdate(_, _, _)
ColUpdate(lu, j, i) ==
  IF i > N(lu) THEN lu
  ELSE LET s == RSum([k \in 1..(MinI(i, j) - 1) |-> RMul(lu[i][k], lu[k][j])])
           lu2 == [lu EXCEPT ![i][j] = RSub(lu[i][j], s)]
       IN ColUpdate(TLCEval(lu2), j, i + 1)

\* first row p >= j with strictly larger magnitude than all earlier candidates
RECURSIVE PivotSearch(_, _, _, _)
PivotSearch(lu, j, i, p) ==
  IF i > N(lu) THEN p
  ELSE IF RLt(RAbsR(lu[p][j]), RAbsR(lu[i][j])) THEN PivotSearch(lu, j, i + 1, i) ELSE PivotSearch(lu, j, i + 1, p)

SwapSeq(s, a, b) == [s EXCEPT ![a] = s[b], ![b] = s[a]]

ColStep(st, j) ==
  LET lu1 == TLCEval(ColUpdate(st.lu, j, 1))
      p   == PivotSearch(lu1, j, j + 1, j)
      lu2 == TLCEval(IF p # j THEN SwapSeq(lu1, p, j) ELSE lu1)
      pv  == IF p # j THEN SwapSeq(st.piv, p, j) ELSE st.piv
      lu3 == IF ~RIsZero(lu2[j][j])
             THEN [i \in 1..N(lu2) |-> IF i > j THEN [lu2[i] EXCEPT ![j] = RDiv(lu2[i][j], lu2[j][j])] ELSE lu2[i]]
             ELSE lu2
  IN [lu |-> TLCEval(lu3), piv |-> TLCEval(pv)]

RECURSIVE LUFrom(_, _)
LUFrom(st, j) == IF j > N(st.lu) THEN st ELSE LUFrom(TLCEval(ColStep(st, j)), j + 1)
LUCode(A) == LUFrom([lu |-> A, piv |-> [i \in 1..N(A) |-> i - 1]], 1)        \* pivots are 0-based row numbers

\* ------------------------------ certificates ------------------------------
LOf(lu) == RMat(N(lu), LAMBDA i, j : IF i = j THEN ROne ELSE IF i > j THEN lu[i][j] ELSE RZ)
UOf(lu) == RMat(N(lu), LAMBDA i, j : IF i <= j THEN lu[i][j] ELSE RZ)
PermValid(piv, n) == Len(piv) = n /\ {piv[i] : i \in 1..n} = 0..(n - 1)
PA(piv, A) == [i \in 1..N(A) |-> A[piv[i] + 1]]                              \* row i of P A is row piv[i] of A
LBounded(lu) == \A i \in 1..N(lu), j \in 1..N(lu) : i > j => RLe(RAbsR(lu[i][j]), ROne)
Reconstructs(A, lu, piv) == PA(piv, A) = MatMul(TLCEval(LOf(lu)), TLCEval(UOf(lu)))
LUCertificate(A, lu, piv) == PermValid(piv, N(A)) /\ LBounded(lu) /\ Reconstructs(A, lu, piv)

\* sign of a permutation vector by counting inversions
Sign(piv) == LET n == Len(piv) IN
             IF Cardinality({p \in (1..n) \X (1..n) : p[1] < p[2] /\ piv[p[1]] > piv[p[2]]}) % 2 = 0 THEN 1 ELSE 0 - 1
\* ipiv_parity as coded: for i in 0..n { while perm[i] != i { swap(i, perm[i]); par += 1 } }
RECURSIVE ParityLoop(_, _, _)
ParityLoop(perm, i, par) ==
  IF i > Len(perm) THEN par
  ELSE IF perm[i] # i - 1 THEN ParityLoop(SwapSeq(perm, i, perm[i] + 1), i, par + 1) ELSE ParityLoop(perm, i + 1, par)
ParityCode(piv) == IF ParityLoop(piv, 1, 0) % 2 = 0 THEN 1 ELSE 0 - 1
\* the crate as first read: a single pass, one swap per position (regression witness)
RECURSIVE ParitySinglePass(_, _, _)
ParitySinglePass(perm, i, par) ==
  IF i > Len(perm) THEN par
  ELSE IF perm[i] # i - 1 THEN ParitySinglePass(SwapSeq(perm, i, perm[i] + 1), i + 1, par + 1) ELSE ParitySinglePass(perm, i + 1, par)

\* exact determinant by cofactor expansion along the first row
RECURSIVE Det(_)
Minor(A, c) == [i \in 1..(N(A) - 1) |-> [j \in 1..(N(A) - 1) |-> A[i + 1][IF j < c THEN j ELSE j + 1]]]
Det(A) == IF N(A) = 1 THEN A[1][1]
          ELSE RSum([c \in 1..N(A) |-> RMul(IF c % 2 = 1 THEN A[1][c] ELSE RNeg(A[1][c]), Det(TLCEval(Minor(A, c))))])
RECURSIVE RProd(_)
RProd(s) == IF s = <<>> THEN ROne ELSE RMul(s[1], RProd(Tail(s)))
DetCode(A) == LET f == TLCEval(LUCode(A)) IN RMul(R(ParityCode(f.piv)), RProd([i \in 1..N(A) |-> f.lu[i][i]]))

\* ------------------------------ solving ------------------------------
\* lu_solve as coded: permute b, forward elimination with L, back substitution with U
RECURSIVE Fwd(_, _, _), Bwd(_, _, _)
Fwd(lu, x, k) == IF k > N(lu) THEN x
                 ELSE Fwd(lu, TLCEval([i \in 1..N(lu) |-> IF i > k THEN RSub(x[i], RMul(x[k], lu[i][k])) ELSE x[i]]), k + 1)
Bwd(lu, x, k) == IF k < 1 THEN x
                 ELSE LET xk == RDiv(x[k], lu[k][k]) IN
                      Bwd(lu, TLCEval([i \in 1..N(lu) |-> IF i = k THEN xk ELSE IF i < k THEN RSub(x[i], RMul(xk, lu[i][k])) ELSE x[i]]), k - 1)
LUSolveCode(lu, piv, b) == Bwd(lu, Fwd(lu, [i \in 1..N(lu) |-> b[piv[i] + 1]], 1), N(lu))
Nonsingular(A) == ~RIsZero(Det(A))
SolveCol(A, b) == LET f == TLCEval(LUCode(A)) IN LUSolveCode(f.lu, f.piv, b)
\* X for a right-hand side matrix B (columns solved one by one, as solve_sys does after its layout change)
SolveMat(A, B) == LET f == TLCEval(LUCode(A)) IN
                  TLCEval(TransposeM(TLCEval([c \in 1..Len(B[1]) |-> LUSolveCode(f.lu, f.piv, [i \in 1..N(A) |-> B[i][c]])])))

\* ------------------------------ Cholesky / routing ------------------------------
\* square-root-free recursion: A = L' D L'^T ; the Cholesky pivots are the d_j
RECURSIVE LDLFrom(_, _, _, _)
LDLFrom(A, Lp, D, j) ==
  IF j > N(A) THEN [L |-> Lp, D |-> D]
  ELSE LET dj == RSub(A[j][j], RSum([k \in 1..(j - 1) |-> RMul(RSq(Lp[j][k]), D[k])]))
       IN IF ~RLt(RZ, dj) THEN [L |-> Lp, D |-> Append(D, dj)]                   \* try_cholesky gives up here
          ELSE LET col == [i \in 1..N(A) |-> IF i > j
                              THEN RDiv(RSub(A[i][j], RSum([k \in 1..(j - 1) |-> RMul(RMul(Lp[i][k], Lp[j][k]), D[k])])), dj)
                              ELSE IF i = j THEN ROne ELSE RZ]
                   Lp2 == [i \in 1..N(A) |-> [Lp[i] EXCEPT ![j] = col[i]]]
               IN LDLFrom(A, TLCEval(Lp2), TLCEval(Append(D, dj)), j + 1)
CholD(A) == LDLFrom(A, RMat(N(A), LAMBDA i, j : RZ), <<>>, 1).D
CholSucceeds(A) == LET d == CholD(A) IN Len(d) = N(A) /\ \A j \in 1..N(A) : RLt(RZ, d[j])
PositiveDiagonal(A) == \A i \in 1..N(A) : RLt(RZ, A[i][i])
Route(A) == IF IsSymmetric(A) /\ PositiveDiagonal(A) /\ CholSucceeds(A) THEN "chol" ELSE "lu"
\* the crate as first read: symmetric with a positive diagonal was enough (regression witness)
RouteDiagOnly(A) == IF IsSymmetric(A) /\ PositiveDiagonal(A) THEN "chol" ELSE "lu"

LeadingMinor(A, k) == Det([i \in 1..k |-> [j \in 1..k |-> A[i][j]]])
IsPD(A) == IsSymmetric(A) /\ \A k \in 1..N(A) : RLt(RZ, LeadingMinor(A, k))
=============================================================================
