------------------------------- MODULE Session -------------------------------
\* Umbrella specification: a *session* of the library - a small heap of live objects (matrices and distribution
\* objects, each with the state machine of its own module) and the thread-local random generator.
\*
\* What the session adds to the per-object modules:
\*   - objects are independent: a call on one object changes no other object;
\*   - only sampling calls (and seeding) move the generator: constructing, mutating, inspecting or dropping any
\*     object leaves the generator token unchanged;
\*   - the stream is a function of the seed and of the sequence of sampling calls alone: two runs with the same
\*     seed and the same sampling script produce the same tokens and the same draws, whatever other objects
\*     exist and whatever non-sampling calls are interleaved (memo below).
\* Trace events (one per public call, logged after it returned or panicked) carry the generator token
\* (alea::get_seed()) before and after the call.
EXTENDS Integers, Sequences, FiniteSets, TLC, Json, IOUtils
A == INSTANCE Arrays
D == INSTANCE Dist

Rec == ndJsonDeserialize(IOEnv.TRACE)
VARIABLES mats,    \* id -> matrix record
          dists,   \* id -> distribution object
          seed,    \* last value passed to set_seed (0 = none yet)
          script,  \* sampling calls since the last seeding: sequence of <<kind, p, n>>
          memo,    \* <<seed, script>> -> <<token after, fingerprint of the draws>>
          l
vars == <<mats, dists, seed, script, memo, l>>
Init == l = 1 /\ mats = <<>> /\ dists = <<>> /\ seed = 0 /\ script = <<>> /\ memo = <<>>

Upd(f, k, v) == (k :> v) @@ f
NoRng(ev) == ev.rng_after = ev.rng_before            \* the call did not touch the generator

SeedEv(ev) == seed' = ev.s /\ script' = <<>> /\ UNCHANGED <<mats, dists, memo>>
NewMat(ev) == LET s == A!ShapeReq(Len(ev.data), ev.a[1], ev.a[2]) IN
              /\ NoRng(ev) /\ UNCHANGED <<dists, seed, script, memo>>
              /\ IF s = <<>> THEN ev.out = "panic" /\ UNCHANGED mats
                 ELSE ev.out = "ok" /\ mats' = Upd(mats, ev.id, A!Mat(s[1], s[2], ev.data)) /\ ev.m = mats'[ev.id]
MatOp(ev) == LET r == A!Apply(mats[ev.id], [op |-> ev.mop, a |-> ev.a]) IN
             /\ NoRng(ev) /\ UNCHANGED <<dists, seed, script, memo>>
             /\ ev.out = r.out /\ ev.m = r.m /\ ev.ret = r.ret
             /\ mats' = Upd(mats, ev.id, r.m)                  \* every other matrix is unchanged by construction
NewDist(ev) == /\ NoRng(ev) /\ UNCHANGED <<mats, seed, script, memo>>
               /\ IF D!Valid(ev.kind, ev.ps) THEN ev.out = "ok" /\ dists' = Upd(dists, ev.id, D!Obj(ev.kind, ev.ps))
                  ELSE ev.out = "panic" /\ UNCHANGED dists
DistMut(ev) == LET a == IF ev.dop = "set" THEN D!ActSet(ev.i, ev.v) ELSE D!ActUpd(ev.ps)
                   s == D!SpecApply(dists[ev.id], a) IN
               /\ NoRng(ev) /\ UNCHANGED <<mats, seed, script, memo>>
               /\ ev.out = s.out
               /\ \E x \in s.os : dists' = Upd(dists, ev.id, x)      \* a rejected bulk update may leave any valid mix; later events decide
Drop(ev) == /\ NoRng(ev) /\ UNCHANGED <<mats, dists, seed, script, memo>>                \* dropping an object is invisible
Sample(ev) == LET o == dists[ev.id]
                  sc == Append(script, <<o.kind, o.p, ev.n>>)
                  key == <<seed, sc>> IN
              /\ ev.out = "ok" /\ UNCHANGED <<mats, dists, seed>>
              /\ script' = sc
              /\ IF key \in DOMAIN memo THEN memo[key] = <<ev.rng_after, ev.fp>> /\ UNCHANGED memo
                 ELSE memo' = Upd(memo, key, <<ev.rng_after, ev.fp>>)

Next == /\ l <= Len(Rec)
        /\ LET ev == Rec[l] IN
             CASE ev.op = "seed" -> SeedEv(ev) [] ev.op = "new_mat" -> NewMat(ev) [] ev.op = "mat" -> MatOp(ev)
               [] ev.op = "new_dist" -> NewDist(ev) [] ev.op = "dist" -> DistMut(ev) [] ev.op = "drop" -> Drop(ev)
               [] ev.op = "sample" -> Sample(ev)
        /\ l' = l + 1
Spec == Init /\ [][Next]_vars
Inv_Heap == /\ \A i \in DOMAIN mats : A!WF(mats[i])
            /\ \A i \in DOMAIN dists : D!Valid(dists[i].kind, dists[i].p) /\ D!Fresh(dists[i])
Accepted == LET d == TLCGet("stats").diameter IN
            IF d - 1 = Len(Rec) THEN TRUE ELSE PrintT("REJECTED at " \o ToString(d)) /\ FALSE
=============================================================================
