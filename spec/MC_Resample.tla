---------------------------- MODULE MC_Resample ----------------------------
\* P1 for C19: the shuffle loop (all draw sequences) keeps a permutation and keeps two arrays paired;
\* after 2n swaps every permutation is reachable; jackknife / bootstrap shape definitions are sane.
EXTENDS Resample, TLC
CONSTANT NMax
VARIABLES n, p1, p2, step
vars == <<n, p1, p2, step>>
Init == n \in 1..NMax /\ p1 = Ident(n) /\ p2 = Ident(n) /\ step = 0
ShufStep == /\ step < 2 * n
            /\ \E a \in 0..(n - 1), b \in 0..(n - 1) : p1' = Swap(p1, a, b) /\ p2' = Swap(p2, a, b)
            /\ step' = step + 1 /\ UNCHANGED n
Spec == Init /\ [][ShufStep]_vars
Inv_Perm   == IsPerm(p1, n)
Inv_Paired == p1 = p2
Inv_Jack   == /\ Len(JackknifeSpec(n)) = n
              /\ \A i \in 1..n : /\ Len(JackknifeSpec(n)[i]) = n - 1
                                 /\ {JackknifeSpec(n)[i][k] : k \in 1..(n - 1)} = (0..(n - 1)) \ {i - 1}
ASSUME \A m \in 1..NMax : Reach(m, 2 * m) = Perms(m)       \* no permutation is structurally excluded
ASSUME DkwBound(20000) = 548 /\ ISqrt(0) = 0 /\ ISqrt(17) = 4
=============================================================================
