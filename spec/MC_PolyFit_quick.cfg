SPECIFICATION Spec
CONSTANTS
  NMax = 4
INVARIANTS Inv_Orthogonal Inv_Minimal Inv_Reproduces Emit
CHECK_DEADLOCK FALSE
