SPECIFICATION Spec
CONSTANTS
  W = 12
  NMax = 18
INVARIANTS Obs_NoWrapAtAll
CHECK_DEADLOCK FALSE
