-------------------------------- MODULE Dist --------------------------------
\* Distribution objects of compute::distributions as a state machine (property C18).
\*
\* An object is [kind, p, cache]: p is the tuple of current parameters, cache the parameters the
\* embedded sub-samplers were built from (Beta: two gamma generators; ChiSquared: one).
\* Real-valued parameters are dyadic and stored in QUARTERS (q stands for q/4); integer-typed
\* parameters (ChiSquared dof, DiscreteUniform bounds, Binomial n) are stored as themselves.
\*
\* Layer "Spec": the property - a call is accepted iff the resulting parameter tuple is valid,
\* an accepted call makes the object equal to a freshly constructed one (cache = CacheOf).
\* Layer "Code": the setters and bulk updates as written in the crate (which fields they check,
\* which caches they rebuild, in which order update calls them).
EXTENDS Integers, Sequences, FiniteSets

Kinds == {"Normal", "Gamma", "Beta", "ChiSquared", "T", "Pareto", "Gumbel", "Exponential",
          "Uniform", "DiscreteUniform", "Poisson", "Binomial", "Bernoulli"}

Arity(k) == IF k \in {"ChiSquared", "T", "Exponential", "Poisson", "Bernoulli"} THEN 1 ELSE 2

\* is field i of kind k integer-typed in the API?
IntField(k, i) == \/ k \in {"ChiSquared", "DiscreteUniform"}
                  \/ (k = "Binomial" /\ i = 1)

\* a parameter tuple may carry, after its Arity(k) fields, the denominator its real-valued fields are expressed in (rows of the
\* reference table for rare-event / slow-rate regimes); without it the fields are quarters
Den(k, p) == IF Len(p) > Arity(k) THEN p[Arity(k) + 1] ELSE 4

Valid(k, p) ==
  CASE k = "Normal"          -> p[2] >= 0
    [] k \in {"Gamma", "Beta", "Pareto"} -> p[1] > 0 /\ p[2] > 0
    [] k \in {"ChiSquared", "T", "Exponential", "Poisson"} -> p[1] > 0
    [] k = "Gumbel"          -> p[2] > 0
    [] k \in {"Uniform", "DiscreteUniform"} -> p[1] <= p[2]
    [] k = "Binomial"        -> p[1] >= 0 /\ p[2] >= 0 /\ p[2] <= Den(k, p)
    [] k = "Bernoulli"       -> p[1] >= 0 /\ p[1] <= Den(k, p)

CacheOf(k, p) == CASE k = "Beta" -> <<p[1], p[2]>>        \* Gamma(alpha, 1), Gamma(beta, 1)
                   [] k = "ChiSquared" -> <<p[1]>>         \* Gamma(dof / 2, 1/2)
                   [] OTHER -> <<>>

Obj(k, p)   == [kind |-> k, p |-> p, cache |-> CacheOf(k, p)]
Fresh(o)    == o.cache = CacheOf(o.kind, o.p)

\* ------------------------------- actions -------------------------------
ActSet(i, v)  == [op |-> "set", i |-> i, v |-> v, ps |-> <<>>]
ActUpd(ps)    == [op |-> "update", i |-> 0, v |-> 0, ps |-> ps]

\* ------------------------------- Spec layer -------------------------------
\* result: [out, o] ; for a rejected bulk update the object may hold any valid per-field mix
\* of old and new values (the property does not fix the order in which fields are taken over)
Mixes(p, q) == {m \in [1..Len(p) -> Int] : \A i \in 1..Len(p) : m[i] \in {p[i], q[i]}}
ValidMixes(k, p, q) == {m \in {[i \in 1..Len(p) |-> IF i \in S THEN q[i] ELSE p[i]] : S \in SUBSET (1..Len(p))} : Valid(k, m)}

SpecApply(o, a) ==
  IF a.op = "set" THEN
     LET q == [o.p EXCEPT ![a.i] = a.v] IN
     IF Valid(o.kind, q) THEN [out |-> "ok", os |-> {Obj(o.kind, q)}]
     ELSE [out |-> "panic", os |-> {o}]
  ELSE
     IF Valid(o.kind, a.ps) THEN [out |-> "ok", os |-> {Obj(o.kind, a.ps)}]
     ELSE [out |-> "panic", os |-> {Obj(o.kind, m) : m \in ValidMixes(o.kind, o.p, a.ps)}]

\* ------------------------------- Code layer -------------------------------
\* one setter as written: its own check, its field, the cache it rebuilds
SetterOk(k, p, i, v) ==
  CASE k = "Normal"   -> (i = 1) \/ v >= 0
    [] k = "Gumbel"   -> (i = 1) \/ v > 0
    [] k \in {"Gamma", "Beta", "Pareto", "ChiSquared", "T", "Exponential", "Poisson"} -> v > 0
    [] k \in {"Uniform", "DiscreteUniform"} -> IF i = 1 THEN ~(v > p[2]) ELSE ~(p[1] > v)
    [] k = "Binomial" -> (i = 1) \/ (v >= 0 /\ v <= 4)      \* set_n takes a u64: no check
    [] k = "Bernoulli" -> v >= 0 /\ v <= 4

SetterCache(o, i, v) ==
  CASE o.kind = "Beta" -> [o.cache EXCEPT ![i] = v]       \* set_alpha rebuilds alpha_gen, set_beta beta_gen
    [] o.kind = "ChiSquared" -> <<v>>                      \* set_dof rebuilds the gamma sampler
    [] OTHER -> o.cache

CodeSet(o, i, v) ==
  IF SetterOk(o.kind, o.p, i, v)
  THEN [out |-> "ok", o |-> [kind |-> o.kind, p |-> [o.p EXCEPT ![i] = v], cache |-> SetterCache(o, i, v)]]
  ELSE [out |-> "panic", o |-> o]

\* update: Uniform and DiscreteUniform rebuild the object through the constructor; every other
\* kind calls its setters in field order and stops at the first one that panics
RECURSIVE CodeUpdSeq(_, _, _)
CodeUpdSeq(o, ps, i) ==
  IF i > Len(ps) THEN [out |-> "ok", o |-> o]
  ELSE LET r == CodeSet(o, i, ps[i]) IN
       IF r.out = "panic" THEN r ELSE CodeUpdSeq(r.o, ps, i + 1)

CodeUpdate(o, ps) ==
  IF o.kind \in {"Uniform", "DiscreteUniform"}
  THEN (IF ps[1] > ps[2] THEN [out |-> "panic", o |-> o] ELSE [out |-> "ok", o |-> Obj(o.kind, ps)])
  ELSE CodeUpdSeq(o, ps, 1)

CodeApply(o, a) == IF a.op = "set" THEN CodeSet(o, a.i, a.v) ELSE CodeUpdate(o, a.ps)

\* named deviations kept as regression witnesses (DESIGN section 8): the crate as first read
BadUpdateSequentialBounds(o, ps) == CodeUpdSeq(o, ps, 1)                 \* Uniform::update = set_lower; set_upper
BadSetDofKeepsSampler(o, v) == IF v > 0 THEN [out |-> "ok", o |-> [o EXCEPT !.p = <<v>>]] ELSE [out |-> "panic", o |-> o]

\* Code refines Spec on one step
Refines(o, a) == LET c == CodeApply(o, a)  s == SpecApply(o, a) IN c.out = s.out /\ c.o \in s.os

\* ------------------------------- grids -------------------------------
RealGrid == {-4, 0, 1, 2, 4, 6, 16}          \* quarters: -1, 0, .25, .5, 1, 1.5, 4
ProbGrid == {-1, 0, 1, 2, 3, 4, 5}           \* quarters: -.25 .. 1.25
Grid(k, i) == CASE k = "ChiSquared" -> {0, 1, 2, 5, 8}
                [] k = "DiscreteUniform" -> {-3, 0, 2, 5}
                [] k = "Binomial" /\ i = 1 -> {0, 1, 10, 40, 100, 200}     \* n min(p, 1-p) on both sides of 30 (inversion / BTPE); three BTPE states sharing n or p
                [] k = "Poisson" -> RealGrid \cup {44, 640}          \* rates 11 and 160: the three sampler regimes (< 10, >= 10, >= 150)
                [] k = "Binomial" /\ i = 2 -> ProbGrid
                [] k = "Bernoulli" -> ProbGrid
                [] OTHER -> RealGrid
ParamGrid(k) == IF Arity(k) = 1 THEN {<<a>> : a \in Grid(k, 1)}
                ELSE {<<a, b>> : a \in Grid(k, 1), b \in Grid(k, 2)}
\* negative n cannot be passed to the u64 setter and is cast to 0 by update; not offered
Acts(k) == UNION {{ActSet(i, v) : v \in Grid(k, i)} : i \in 1..Arity(k)} \cup {ActUpd(ps) : ps \in ParamGrid(k)}
=============================================================================
