------------------------------ MODULE MC_Stats ------------------------------
\* C08: every integer data vector of length 1..L over -M..M paired with three companion vectors,
\* and every strictly increasing edge vector over 0..E (plus the non-decreasing ones with one repeated edge).
EXTENDS Stats, Json
CONSTANTS L, M, E
VARIABLE c
Vecs == UNION {[1..n -> (0 - M)..M] : n \in 1..L}
Companion(x, k) == LET n == Len(x) IN
                   CASE k = 1 -> [i \in 1..n |-> i]
                     [] k = 2 -> [i \in 1..n |-> ((i * i) % 5) - 2]
                     [] k = 3 -> [i \in 1..n |-> x[n + 1 - i]]
Dup(s, i) == SubSeq(s, 1, i) \o <<s[i]>> \o SubSeq(s, i + 1, Len(s))
EdgeSets == {S \in SUBSET (0..E) : Cardinality(S) >= 2 /\ Cardinality(S) <= 5}
SortedSeq(S) == LET RECURSIVE F(_) F(T) == IF T = {} THEN <<>> ELSE
                     LET m == CHOOSE a \in T : \A b \in T : a <= b IN <<m>> \o F(T \ {m}) IN F(S)
Init == \/ \E x \in Vecs, k \in 1..3 : c = [fam |-> "data", x |-> x, y |-> Companion(x, k)]
        \/ \E S \in EdgeSets : c = [fam |-> "edges", x |-> SortedSeq(S), y |-> <<>>]
        \* edges that are non-decreasing only: one edge repeated (a bin of width zero has its centre on the edge; there are
        \* still Len - 1 centres), down to the single degenerate bin <<a, a>>
        \/ \E S \in {T \in SUBSET (0..E) : Cardinality(T) >= 1 /\ Cardinality(T) <= 4} : \E i \in 1..Cardinality(S) :
              c = [fam |-> "edges", x |-> Dup(SortedSeq(S), i), y |-> <<>>]
Next == UNCHANGED c
Spec == Init /\ [][Next]_c
IsData == c.fam = "data"
n == Len(c.x)
Inv_Welford == IsData => /\ WelfordMeanCode(c.x) = MeanSpec(c.x)
                         /\ VarCode(c.x) = VarSpec(c.x)
                         /\ (n >= 2 => SampleVarCode(c.x) = SampleVarSpec(c.x))
Inv_Cov == (IsData /\ n >= 2) => /\ TwoPassCov(c.x, c.y, n) = CovSpec(c.x, c.y)
                                 /\ TwoPassCov(c.x, c.y, n - 1) = SampleCovSpec(c.x, c.y)
                                 /\ ShiftedOnePassCov(c.x, c.y) = SampleCovSpec(c.x, c.y)
                                 /\ OnlineCov(c.x, c.y) = SampleCovSpec(c.x, c.y)
Inv_Order == IsData => ArgMinCode(c.x) = ArgMinSpec(c.x) /\ ArgMaxCode(c.x) = ArgMaxSpec(c.x)
\* shift and scale laws of the definitions
Inv_Laws == IsData => /\ VarSpec(Shift(c.x, 7)) = VarSpec(c.x)
                      /\ VarSpec(Scale(c.x, 3)) = RMul(R(9), VarSpec(c.x))
                      /\ CovSpec(Shift(c.x, 7), Shift(c.y, 0 - 4)) = CovSpec(c.x, c.y)
                      /\ CovSpec(Scale(c.x, 3), Scale(c.y, 0 - 2)) = RMul(R(0 - 6), CovSpec(c.x, c.y))
                      /\ CovSpec(c.x, c.x) = VarSpec(c.x)
                      /\ MeanSpec(Shift(c.x, 7)) = RAdd(MeanSpec(c.x), R(7))
Inv_Bins == ~IsData => BinCentresCode(c.x) = BinCentresSpec(c.x)
Emit == IF IsData THEN
          PrintT(<<"CASE", ToJson([fam |-> "data", x |-> c.x, y |-> c.y, mean |-> RJ(MeanSpec(c.x)), var |-> RJ(VarSpec(c.x)),
               svar |-> IF n >= 2 THEN RJ(SampleVarSpec(c.x)) ELSE RJ(RZ),
               cov |-> RJ(CovSpec(c.x, c.y)), scov |-> IF n >= 2 THEN RJ(SampleCovSpec(c.x, c.y)) ELSE RJ(RZ),
               min |-> MinSpec(c.x), max |-> MaxSpec(c.x), argmin |-> ArgMinSpec(c.x), argmax |-> ArgMaxSpec(c.x)])>>)
        ELSE PrintT(<<"CASE", ToJson([fam |-> "edges", x |-> c.x, centres |-> RSeqJ(BinCentresSpec(c.x))])>>)
=============================================================================
