------------------------------ MODULE VectorObj ------------------------------
\* The Vector object of compute::linalg as a state machine (outside the 20 listed properties; checked by `bin/check X05`).
\* Abstract state: the sequence of its entries (integers here).  Vector dereferences to Vec<f64>, so the Vec calls push / pop /
\* truncate / insert / remove / clear act on the same state; the crate's own calls are sort, sorted, diff, to_matrix,
\* reshape, ==, close_to, Extend, FromIterator, IntoIterator (three forms), Default, Display, zeros / ones.
EXTENDS Integers, Sequences, FiniteSets
A == INSTANCE Arrays

RECURSIVE Sum(_)
Sum(s) == IF s = <<>> THEN 0 ELSE s[1] + Sum(Tail(s))
RECURSIVE InsSorted(_, _)
InsSorted(s, v) == IF s = <<>> THEN <<v>> ELSE IF v <= s[1] THEN <<v>> \o s ELSE <<s[1]>> \o InsSorted(Tail(s), v)
RECURSIVE SortSeq(_)
SortSeq(x) == IF x = <<>> THEN <<>> ELSE InsSorted(SortSeq(Tail(x)), x[1])
DiffSeq(x) == IF Len(x) = 0 THEN <<>> ELSE [i \in 1..(Len(x) - 1) |-> x[i + 1] - x[i]]
RemoveAtV(x, i) == SubSeq(x, 1, i - 1) \o SubSeq(x, i + 1, Len(x))
InsertAtV(x, i, v) == SubSeq(x, 1, i - 1) \o <<v>> \o SubSeq(x, i, Len(x))
NoRet == [t |-> "none"]
Ret(t, v) == [t |-> t, v |-> v]

\* shape requests as for Matrix::new; transcription of the code for EMPTY data: an inferred dimension is then 0 (the crate has
\* empty matrices, Matrix::empty() is 0 x 0), which the Matrix machine of Arrays (dimensions >= 1) does not model
VShapeReq(n, r, c) == IF n = 0 /\ r = -1 /\ c > 0 THEN <<0, c>> ELSE IF n = 0 /\ c = -1 /\ r > 0 THEN <<r, 0>> ELSE A!ShapeReq(n, r, c)
\* Apply(x, act) = [out, x (new state), ret]
VApply(x, a) ==
  CASE a.op = "push"     -> [out |-> "ok", x |-> Append(x, a.a[1]), ret |-> NoRet]
    [] a.op = "pop"      -> [out |-> "ok", x |-> IF x = <<>> THEN x ELSE SubSeq(x, 1, Len(x) - 1), ret |-> IF x = <<>> THEN Ret("opt", <<>>) ELSE Ret("opt", <<x[Len(x)]>>)]
    [] a.op = "truncate" -> [out |-> "ok", x |-> IF a.a[1] >= Len(x) THEN x ELSE SubSeq(x, 1, a.a[1]), ret |-> NoRet]
    [] a.op = "insert"   -> IF a.a[1] > Len(x) THEN [out |-> "panic", x |-> x, ret |-> NoRet]
                            ELSE [out |-> "ok", x |-> InsertAtV(x, a.a[1] + 1, a.a[2]), ret |-> NoRet]
    [] a.op = "remove"   -> IF a.a[1] >= Len(x) THEN [out |-> "panic", x |-> x, ret |-> NoRet]
                            ELSE [out |-> "ok", x |-> RemoveAtV(x, a.a[1] + 1), ret |-> Ret("num", x[a.a[1] + 1])]
    [] a.op = "set"      -> IF a.a[1] >= Len(x) THEN [out |-> "panic", x |-> x, ret |-> NoRet]
                            ELSE [out |-> "ok", x |-> [x EXCEPT ![a.a[1] + 1] = a.a[2]], ret |-> NoRet]
    [] a.op = "get"      -> IF a.a[1] >= Len(x) THEN [out |-> "panic", x |-> x, ret |-> NoRet]
                            ELSE [out |-> "ok", x |-> x, ret |-> Ret("num", x[a.a[1] + 1])]
    [] a.op = "clear"    -> [out |-> "ok", x |-> <<>>, ret |-> NoRet]
    [] a.op = "extend"   -> [out |-> "ok", x |-> x \o a.a, ret |-> NoRet]
    [] a.op = "sort"     -> [out |-> "ok", x |-> SortSeq(x), ret |-> NoRet]
    [] a.op = "sorted"   -> [out |-> "ok", x |-> x, ret |-> Ret("vec", SortSeq(x))]
    [] a.op = "diff"     -> [out |-> "ok", x |-> x, ret |-> Ret("vec", DiffSeq(x))]
    [] a.op = "iter_collect" -> [out |-> "ok", x |-> x, ret |-> Ret("vec", x)]                     \* (&v).into_iter().copied().collect::<Vector>()
    [] a.op = "iter_mut_add" -> [out |-> "ok", x |-> [i \in 1..Len(x) |-> x[i] + a.a[1]], ret |-> NoRet]   \* for e in &mut v { *e += c }
    [] a.op = "into_iter_sum" -> [out |-> "ok", x |-> x, ret |-> Ret("num", Sum(x))]                \* v.clone().into_iter().sum()
    [] a.op = "eq"       -> [out |-> "ok", x |-> x, ret |-> Ret("bool", x = a.a)]                   \* same length and equal entries
    [] a.op = "len"      -> [out |-> "ok", x |-> x, ret |-> Ret("num", Len(x))]
    [] a.op = "to_matrix" -> IF Len(x) = 0 THEN [out |-> "panic", x |-> x, ret |-> NoRet]           \* 1 x 0 is not a matrix
                             ELSE [out |-> "ok", x |-> x, ret |-> Ret("mat", A!Mat(1, Len(x), x))]
    [] a.op = "reshape"  -> LET s == VShapeReq(Len(x), a.a[1], a.a[2]) IN
                            IF s = <<>> THEN [out |-> "panic", x |-> x, ret |-> NoRet]
                            ELSE [out |-> "ok", x |-> x, ret |-> Ret("mat", A!Mat(s[1], s[2], x))]
\* invariants of the machine (TLC, MC_VectorObj): sorting is idempotent and keeps the multiset, diff shortens by one, ...
IsSortedSeq(s) == \A i \in 1..(Len(s) - 1) : s[i] <= s[i + 1]
=============================================================================
