---------------------------- MODULE Trace_Models ----------------------------
\* P3 for the model-object life cycle (spec/Models.tla): sessions recorded from real GLM / PolynomialRegressor /
\* AR / Adam / SGD / LM objects.  One event per public call, logged after it returned or panicked:
\*   new     id kind cfg out
\*   set     id i v [n] out           (setter of configuration field i; i = 0 hands in coefficients)
\*   clone   id from
\*   fit     id data arg out fp       (fit / optimize; fp = fingerprint of the complete observable result)
\*   obs     id status fp             (every accessor + Debug / Display rendering)
\*   pred    id x n out fp
\* memo remembers, per key, the first outcome seen; every later event with the same key must show the same.
EXTENDS Models, Json, IOUtils
Rec == ndJsonDeserialize(IOEnv.TRACE)
VARIABLES objs, memo, l
tvars == <<objs, memo, l, o, n>>     \* o, n: the design model's variables, frozen here
TInit == objs = <<>> /\ memo = <<>> /\ l = 1 /\ Init
Upd(f, k, v) == (k :> v) @@ f
Same(key, val) == IF key \in DOMAIN memo THEN memo[key] = val /\ UNCHANGED memo ELSE memo' = Upd(memo, key, val)

NewEv(ev) == /\ UNCHANGED memo
             /\ IF ValidNew(ev.kind, ev.cfg) THEN ev.out = "ok" /\ objs' = Upd(objs, ev.id, Obj(ev.kind, ev.cfg))
                ELSE ev.out = "panic" /\ UNCHANGED objs
SetEv(ev) == /\ UNCHANGED memo /\ ev.out = "ok"
             /\ objs' = Upd(objs, ev.id, IF ev.i = 0 THEN SetCoef(objs[ev.id], ev.v, ev.n) ELSE SetCfg(objs[ev.id], ev.i, ev.v))
CloneEv(ev) == UNCHANGED memo /\ objs' = Upd(objs, ev.id, objs[ev.from])
FitEv(ev) == LET ob == objs[ev.id]   key == FitKey(ob, ev.data, ev.arg) IN
             /\ Same(key, <<ev.out, ev.fp>>)                                          \* L1, L5
             /\ (GlmBadLen(ob) => ev.out = "panic")                                   \* L4
             /\ IF ev.out = "panic" THEN UNCHANGED objs ELSE objs' = Upd(objs, ev.id, Fitted(ob, key))
ObsEv(ev) == LET ob == objs[ev.id] IN
             /\ Same(ObsKey(ob), <<ev.status, ev.fp>>)                                \* L2
             /\ (ob.kind = "GLM" => ev.status = GlmStatus(ob))                        \* L4
             /\ UNCHANGED objs
PredEv(ev) == LET ob == objs[ev.id] IN
              /\ Same(PredKey(ob, ev.x, ev.n), <<ev.out, ev.fp>>)                     \* L3
              /\ (ob.kind = "GLM" /\ ob.src = NoSrc => ev.out = "err")
              /\ UNCHANGED objs

TNext == /\ l <= Len(Rec)
         /\ LET ev == Rec[l] IN
              CASE ev.op = "new" -> NewEv(ev) [] ev.op = "set" -> SetEv(ev) [] ev.op = "clone" -> CloneEv(ev)
                [] ev.op = "fit" -> FitEv(ev) [] ev.op = "obs" -> ObsEv(ev) [] ev.op = "pred" -> PredEv(ev)
         /\ l' = l + 1 /\ UNCHANGED <<o, n>>
TSpec == TInit /\ [][TNext]_tvars
TInv == \A i \in DOMAIN objs : LET ob == objs[i] IN
          /\ ob.kind \in Kinds
          /\ (ob.src[1] = "fit" => ob.src[2] = ob.fitkey)
          /\ (~Stateful(ob.kind) => ob.fitkey = <<>>)
Accepted == LET d == TLCGet("stats").diameter IN
            IF d - 1 = Len(Rec) THEN TRUE ELSE PrintT("REJECTED at " \o ToString(d)) /\ FALSE
=============================================================================
