SPECIFICATION Spec
INVARIANTS Inv_Agrees Inv_BaseValid Emit
CHECK_DEADLOCK FALSE
