SPECIFICATION Spec
CONSTANTS
  NP = 67
INVARIANTS Inv_Symmetry Inv_MulAgrees Emit
CHECK_DEADLOCK FALSE
