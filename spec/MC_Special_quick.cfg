SPECIFICATION Spec
CONSTANTS
  NP = 67
INVARIANTS Inv_Symmetry Inv_MulAgrees Inv_BigAgrees Emit
CHECK_DEADLOCK FALSE
