------------------------------ MODULE MC_Kernels ------------------------------
\* C20: kernel axioms on the spec (symmetry, value at zero distance, positivity, monotone in distance,
\* PSD Gram matrices for RQ over all point sets), emission of scalar and Gram cases.
EXTENDS Kernels, Json
CONSTANTS PMax
VARIABLE c
Params == {[v |-> v, alpha |-> a, l |-> l] : v \in {R(1), <<1, 4>>, R(3)}, a \in 1..2, l \in {R(1), <<1, 2>>, R(2)}}
Pts == {R(0 - 2), R(0 - 1), <<0 - 1, 2>>, R(0), R(1), R(2)}
PointSets == {S \in SUBSET Pts : Cardinality(S) >= 1 /\ Cardinality(S) <= PMax}
SortedSeq(S) == LET RECURSIVE F(_) F(T) == IF T = {} THEN <<>> ELSE
                     LET m == CHOOSE a \in T : \A b \in T : RLe(a, b) IN <<m>> \o F(T \ {m}) IN F(S)
\* mixture parameter exactly 1/2 on Pythagorean distances (in units of the length scale): 13 second-argument points
PythY(l) == [j \in 1..13 |-> RMul(l, <<<<0, 1>>, <<3, 4>>, <<0 - 3, 4>>, <<4, 3>>, <<0 - 4, 3>>, <<5, 12>>, <<0 - 5, 12>>, <<12, 5>>, <<0 - 12, 5>>,
                                       <<8, 15>>, <<0 - 8, 15>>, <<15, 8>>, <<0 - 15, 8>>>>[j])]
HalfCases == {[fam |-> "gram", half |-> TRUE, p |-> [v |-> v, alpha |-> 0, l |-> l], X |-> X] :
                 v \in {R(1), <<1, 4>>, R(3)}, l \in {R(1), <<1, 2>>, R(2)}, X \in {<<R(0)>>, <<R(0), R(0)>>}}
\* mixture parameter 3/2: base 1 + d^2 / (3 l^2) is a rational square for d / l in {0, 3, 12} (1, 4, 49): value v / base^(3/2)
ThreeHalvesY(l) == [j \in 1..9 |-> RMul(l, <<R(0), R(3), R(0 - 3), R(12), R(0 - 12), R(3), R(0), R(12), R(0 - 3)>>[j])]
ThreeHalvesCases == {[fam |-> "gram", threehalves |-> TRUE, p |-> [v |-> v, alpha |-> 0, l |-> l], X |-> <<R(0)>>] : v \in {R(1), R(3)}, l \in {R(1), <<1, 2>>}}
Init == \/ c \in HalfCases \cup ThreeHalvesCases
        \/ \E p \in Params, S \in PointSets : c = [fam |-> "gram", p |-> p, X |-> SortedSeq(S)]
        \/ \E p \in Params \cup {[v |-> v, alpha |-> a, l |-> l] : v \in {<<1, 64>>, R(64)}, a \in {1, 2, 64}, l \in {<<1, 64>>, R(64)}}
                        \cup {[v |-> R(1), alpha |-> 64, l |-> R(1)], [v |-> R(3), alpha |-> 16, l |-> <<1, 2>>]} :
              c = [fam |-> "scalar", p |-> p, X |-> <<>>]      \* incl. the corners of the parameter box (1e-2, 1e2)
        \* non-integer mixture parameters for the relational checks (axioms; matrix form = scalar form), down to the corner where both the
        \* mixture parameter and the length scale are at the small end of the box (alpha l^2 of the order of 1e-6)
        \/ \E a \in {<<3, 2>>, <<5, 2>>, <<7, 10>>, <<19, 8>>, <<1, 64>>, <<1, 100>>}, l \in {R(1), <<1, 2>>, <<1, 64>>} : c = [fam |-> "scalar", ralpha |-> a, p |-> [v |-> R(2), alpha |-> 0, l |-> l], X |-> <<>>]
Next == UNCHANGED c
Spec == Init /\ [][Next]_c
Half == "half" \in DOMAIN c \/ "threehalves" \in DOMAIN c
TH == "threehalves" \in DOMAIN c
K(x, y) == IF TH THEN RQThreeHalves(c.p.v, c.p.l, x, y) ELSE IF Half THEN RQHalf(c.p.v, c.p.l, x, y) ELSE RQ(c.p.v, c.p.alpha, c.p.l, x, y)
IsG == c.fam = "gram"
G == TLCEval(Gram(K, c.X, c.X))
Inv_Symmetric == IsG => \A i, j \in 1..Len(c.X) : G[i][j] = G[j][i]
Inv_Diagonal  == IsG => \A i \in 1..Len(c.X) : G[i][i] = c.p.v
Inv_Positive  == IsG => \A i, j \in 1..Len(c.X) : RLt(RZ, G[i][j]) /\ RLe(G[i][j], c.p.v)
\* non-increasing in the distance: X is sorted, so along a row the values fall off on both sides of the diagonal
Inv_Monotone  == (IsG /\ ~Half) => \A i, j, k \in 1..Len(c.X) : (i <= j /\ j <= k) => (RLe(G[i][k], G[i][j]) /\ RLe(G[k][i], G[k][j]))
\* exact minors stay within 32-bit integers for unit variance and length scale on integer points (sets of up to 3
\* points for alpha = 2) and for pairs of points in general
IntegerPoints == \A i \in 1..Len(c.X) : c.X[i][2] = 1
Inv_PSD       == (IsG /\ ~Half /\ (Len(c.X) <= 2 \/ (c.p.v = R(1) /\ c.p.l = R(1) /\ IntegerPoints /\ (c.p.alpha = 1 \/ Len(c.X) <= 3)))) => PSD(G)
Flat(M) == LET RECURSIVE Fl(_) Fl(k) == IF k = 0 THEN <<>> ELSE Fl(k - 1) \o M[k] IN Fl(Len(M))
\* second point set for rectangular Gram matrices: the first |X| - 1 points shifted by 1/2, plus 5
Y == IF TH THEN ThreeHalvesY(c.p.l) ELSE IF Half THEN PythY(c.p.l) ELSE [j \in 1..(Len(c.X) + 1) |-> IF j <= Len(c.X) THEN RAdd(c.X[j], <<1, 2>>) ELSE R(5)]
\* the premise of the exact square root
Inv_HalfExact == Half => \A i \in 1..Len(c.X), j \in 1..Len(Y) : IsSquareQ(IF TH THEN ThreeHalvesBase(c.p.l, c.X[i], Y[j]) ELSE HalfBase(c.p.l, c.X[i], Y[j]))
Emit == IF IsG THEN PrintT(<<"CASE", ToJson([fam |-> "gram", v |-> RJ(c.p.v), alpha |-> (IF TH THEN RJ(<<3, 2>>) ELSE IF Half THEN RJ(<<1, 2>>) ELSE RJ(R(c.p.alpha))), l |-> RJ(c.p.l),
                               X |-> RSeqJ(c.X), Y |-> RSeqJ(Y),
                               rq |-> RSeqJ(Flat(Gram(K, c.X, Y))),
                               rbf_t |-> RSeqJ(Flat(Gram(LAMBDA x, y : RBFExponent(c.p.l, x, y), c.X, Y)))])>>)
        ELSE PrintT(<<"CASE", ToJson([fam |-> "scalar", v |-> RJ(c.p.v), alpha |-> (IF "ralpha" \in DOMAIN c THEN RJ(c.ralpha) ELSE RJ(R(c.p.alpha))), l |-> RJ(c.p.l)])>>)
=============================================================================
