------------------------------- MODULE PolyFit -------------------------------
\* Polynomial regression (property C14) in exact rational arithmetic.
\*   FitSpec  : the unique coefficient vector c with V^T V c = V^T y (V the Vandermonde matrix of x)
\*   Orthogonal / NoBetterNeighbour : the property's own certificates of a least-squares solution
\*   Predict  : c0 + c1 x + ... + cd x^d
\* The regressor object is a state machine: its coefficients after fit(x, y) depend on that call only
\* (the degree is fixed at construction), whatever was fitted before.
EXTENDS Integers, Sequences, FiniteSets, Reals, TLC, Linalg

Vander(x, d) == [i \in 1..Len(x) |-> [j \in 1..(d + 1) |-> RPow(x[i], j - 1)]]
NormalMatrix(x, d) == LET V == TLCEval(Vander(x, d)) IN TLCEval(MatMul(TransposeM(V), V))
NormalRhs(x, y, d) == LET V == TLCEval(Vander(x, d)) IN
                      [j \in 1..(d + 1) |-> RSum([i \in 1..Len(x) |-> RMul(V[i][j], y[i])])]
FitSpec(x, y, d) == SolveCol(NormalMatrix(x, d), NormalRhs(x, y, d))
PredictAt(c, t) == LET RECURSIVE H(_) H(k) == IF k > Len(c) THEN RZ ELSE RAdd(c[k], RMul(t, H(k + 1))) IN H(1)
Residual(x, y, c) == [i \in 1..Len(x) |-> RSub(y[i], PredictAt(c, x[i]))]
RSS(x, y, c) == RSum([i \in 1..Len(x) |-> RSq(Residual(x, y, c)[i])])
Orthogonal(x, y, c) == \A j \in 0..(Len(c) - 1) : RIsZero(RSum([i \in 1..Len(x) |-> RMul(Residual(x, y, c)[i], RPow(x[i], j))]))
\* no perturbation of one coefficient by +-1/4 lowers the residual sum of squares
NoBetterNeighbour(x, y, c) == \A k \in 1..Len(c), s \in {<<1, 4>>, <<0 - 1, 4>>} :
                                RLe(RSS(x, y, c), RSS(x, y, [c EXCEPT ![k] = RAdd(c[k], s)]))
DistinctCount(x) == Cardinality({x[i] : i \in 1..Len(x)})
=============================================================================
