---------------------------- MODULE MC_DistMoments ----------------------------
\* C02: one state per row of the reference table spec/ref/dist.ndjson (kind, parameters, evaluation points).
EXTENDS DistMoments, TLC, Json, IOUtils
Rows == ndJsonDeserialize(IOEnv.DISTTABLE)
VARIABLE c
RECURSIVE ISumM(_), IProdM(_)
ISumM(s) == IF s = <<>> THEN 0 ELSE s[1] + ISumM(Tail(s))
IProdM(s) == IF s = <<>> THEN 1 ELSE s[1] * IProdM(Tail(s))
\* multivariate normal: covariance L L^T with an integer lower-triangular L, evaluation points mu + L z
MvnLs == {<< <<2>> >>, << <<1, 0>>, <<0 - 1, 2>> >>, << <<2, 0>>, <<1, 1>> >>, << <<1, 0, 0>>, <<2, 1, 0>>, <<0 - 1, 1, 2>> >>,
          << <<1, 0, 0, 0>>, <<1, 1, 0, 0>>, <<0, 0 - 1, 2, 0>>, <<1, 0, 0, 1>> >>,
          \* covariances with an exact zero where the Cholesky factor fills in: (3,2) entry of L L^T is 2*1 + (-1)*2 = 0
          << <<1, 0, 0>>, <<1, 2, 0>>, <<2, 0 - 1, 1>> >>,
          << <<2, 0, 0, 0>>, <<1, 1, 0, 0>>, <<1, 0 - 1, 1, 0>>, <<0 - 1, 1, 1, 2>> >>}
Zs(d) == {[i \in 1..d |-> 0], [i \in 1..d |-> IF i = 1 THEN 2 ELSE 0], [i \in 1..d |-> (i % 3) - 1], [i \in 1..d |-> IF i = d THEN 0 - 4 ELSE 1],
          \* far in the tails: |z|^2 = 1600 and beyond (the density underflows, its logarithm does not)
          [i \in 1..d |-> IF i = 1 THEN 40 ELSE 0], [i \in 1..d |-> IF i = d THEN 0 - 30 ELSE 25]}
Init == \/ \E i \in 1..Len(Rows) : c = [i |-> i]
        \/ \E L \in MvnLs : \E z \in Zs(Len(L)) : c = [i |-> 0, L |-> L, z |-> z]
Next == UNCHANGED c
Spec == Init /\ [][Next]_c
IsMvn == c.i = 0
Row == Rows[IF IsMvn THEN 1 ELSE c.i]
K == Row.kind
Pp == Row.p
Inv_Valid == IsMvn \/ Valid(K, Pp)
Inv_Moments == IsMvn \/ (HasExactPmf(K, Pp) => (MassIsOne(K, Pp) /\ MeanIsFirstMoment(K, Pp) /\ VarIsCentralMoment(K, Pp)))
\* a finite variance needs a finite mean; moments are non-negative where they must be
Inv_Sane == IsMvn \/ ((Var(K, Pp).t = "rat" => Mean(K, Pp).t = "rat") /\ (Var(K, Pp).t = "rat" => RLe(RZ, Var(K, Pp).v)))
MvnOut == LET d == Len(c.L)
              mu == [i \in 1..d |-> 3 - i]
              sigma == [i \in 1..d |-> [j \in 1..d |-> ISumM([k \in 1..d |-> c.L[i][k] * c.L[j][k]])]]
              x == [i \in 1..d |-> mu[i] + ISumM([k \in 1..d |-> c.L[i][k] * c.z[k]])]
              detL == IProdM([i \in 1..d |-> c.L[i][i]])
              q == ISumM([k \in 1..d |-> c.z[k] * c.z[k]]) IN
          [row |-> 0, kind |-> "MVN", d |-> d, L |-> c.L, mu |-> mu, sigma |-> sigma, x |-> x, detL |-> detL, q |-> q]
Emit == IF IsMvn THEN PrintT(<<"CASE", ToJson(MvnOut)>>) ELSE
        PrintT(<<"CASE", ToJson([row |-> c.i, kind |-> K, p |-> Pp, mean |-> Mean(K, Pp), var |-> Var(K, Pp),
          insupport |-> [j \in 1..Len(Row.pts) |-> InSupport(K, Pp, Norm(Row.pts[j].xn, Row.pts[j].xd))],
          support |-> SupportBounds(K, Pp), discrete |-> Discrete(K),
          boundary |-> [j \in 1..Len(Row.pts) |-> OnBoundary(K, Pp, Norm(Row.pts[j].xn, Row.pts[j].xd))],
          closed_end |-> [j \in 1..Len(Row.pts) |-> ClosedEnd(K, Pp, Norm(Row.pts[j].xn, Row.pts[j].xd))],
          pmf |-> IF HasExactPmf(K, Pp) THEN [j \in 1..Len(Row.pts) |->
                      LET x == Norm(Row.pts[j].xn, Row.pts[j].xd) IN
                      IF InSupport(K, Pp, x) THEN RJ(Pmf(K, Pp, x[1])) ELSE RJ(RZ)] ELSE <<>>])>>)
=============================================================================
