---------------------------- MODULE Trace_OptimLM ----------------------------
\* P3 for C10 (relational observations): Levenberg-Marquardt on exponential / logistic curve fits and on a
\* one-parameter line over a short abscissa window never returns a larger residual sum of squares than it
\* started from, returns finite parameters and a p x p covariance; on the line it reaches the least-squares
\* slope (relative 2^-20).  The recorder ends with budget sweeps (every step budget 1..8 on twelve non-linear problems): the
\* statements below hold for EVERY budget - in particular when it runs out on an accepted step, or right after a rejected one.
EXTENDS Integers, Sequences, TLC, Json, IOUtils
Rec == ndJsonDeserialize(IOEnv.TRACE)
VARIABLE l
Init == l = 1
\* covariance = s^2 (J^T J)^-1 AT THE RETURNED POINT: (J^T J) C - s^2 I, in units of eps (p ||J^T J|| ||C|| + s^2) plus the rounding
\* floor of the residual sum of squares, stays below 64 (measured maximum on the unchanged tree over 3 600 fits: 1)
Step(ev) == /\ ev.out = "ok" /\ ev.finite = TRUE /\ ev.rss_not_increased = TRUE /\ ev.cov_shape_ok = TRUE /\ ev.ls_dev_log2 <= -20
            /\ ev.cov_resid >= 0 /\ ev.cov_resid <= 64
Next == l <= Len(Rec) /\ Step(Rec[l]) /\ l' = l + 1
Spec == Init /\ [][Next]_l
Accepted == LET d == TLCGet("stats").diameter IN
            IF d - 1 = Len(Rec) THEN TRUE ELSE PrintT("REJECTED at " \o ToString(d)) /\ FALSE
=============================================================================
