SPECIFICATION Spec
INVARIANTS Inv_Valid Inv_Moments Inv_Sane Emit
CHECK_DEADLOCK FALSE
