------------------------------ MODULE TimeSeries ------------------------------
\* Autocovariance / autocorrelation, differencing, AR fitting and forecasting (property C13), exact
\* rational arithmetic on integer series.
\*   C(x, k)       : n^3 * biased autocovariance at lag k, an integer:  sum_i (n x_i - S)(n x_{i-k} - S)
\*   YuleWalker    : coefficients of order 1 and 2 in closed form (Cramer on the Toeplitz system)
\*   PredictSpec   : mean + AR recursion on the mean-centred history
\*   PredictCode   : AR::predict as written: last p centred values, coefficients stored reversed,
\*                   predict_one = dot(last p values, reversed coefficients), intercept added at the end
EXTENDS Integers, Sequences, FiniteSets, Reals, TLC

RECURSIVE ISumT(_)
ISumT(x) == IF x = <<>> THEN 0 ELSE x[1] + ISumT(Tail(x))
AbsT(k) == IF k < 0 THEN 0 - k ELSE k
C(x, k) == LET n == Len(x)  S == ISumT(x)  a == AbsT(k) IN
           ISumT([i \in 1..(n - a) |-> (n * x[i + a] - S) * (n * x[i] - S)])
Acovf(x, k) == Norm(C(x, k), Len(x) * Len(x) * Len(x))
Acf(x, k)   == Norm(C(x, k), C(x, 0))                          \* C(x, 0) > 0: the series is not constant
MeanT(x)    == Norm(ISumT(x), Len(x))
Difference(x) == [i \in 1..(Len(x) - 1) |-> x[i + 1] - x[i]]
\* d-fold differencing: every pass shortens the series by one, down to the empty series after Len(x) passes
RECURSIVE DiffK(_, _)
DiffK(x, d) == IF d = 0 THEN x ELSE DiffK(Difference(x), d - 1)
RECURSIVE CumSum(_)
CumSum(x) == IF Len(x) = 0 THEN <<>> ELSE LET p == CumSum(SubSeq(x, 1, Len(x) - 1)) IN
             Append(p, (IF Len(p) = 0 THEN 0 ELSE p[Len(p)]) + x[Len(x)])

\* Yule-Walker coefficients phi_1..phi_p for p in {1, 2}
YuleWalker(x, p) ==
  LET r1 == Acf(x, 1)  r2 == Acf(x, 2) IN
  IF p = 1 THEN <<r1>>
  ELSE LET det == RSub(ROne, RSq(r1)) IN
       <<RDiv(RSub(r1, RMul(r1, r2)), det), RDiv(RSub(r2, RSq(r1)), det)>>
YWDefined(x, p) == C(x, 0) > 0 /\ (p = 2 => ~REq(RSq(Acf(x, 1)), ROne))
\* the defining equations: sum_j phi_j rho_|i-j| = rho_i, i = 1..p
YWHolds(x, phi) == LET p == Len(phi) IN
  \A i \in 1..p : RSum([j \in 1..p |-> RMul(phi[j], Acf(x, i - j))]) = Acf(x, i)

\* forecasts: data and mu rationals, phi = <<phi_1, .., phi_p>>
RECURSIVE SpecFrom(_, _, _, _)
SpecFrom(z, phi, h, acc) ==       \* z: centred history (most recent last)
  IF h = 0 THEN acc
  ELSE LET p == Len(phi)  n == Len(z)
           nxt == RSum([j \in 1..p |-> RMul(phi[j], z[n + 1 - j])])
       IN SpecFrom(TLCEval(Append(z, nxt)), phi, h - 1, TLCEval(Append(acc, nxt)))
PredictSpec(data, phi, mu, h) ==
  LET z == [i \in 1..Len(data) |-> RSub(data[i], mu)] IN
  [i \in 1..h |-> RAdd(mu, SpecFrom(z, phi, h, <<>>)[i])]

Reverse(s) == [i \in 1..Len(s) |-> s[Len(s) + 1 - i]]
RECURSIVE CodeFrom(_, _, _)
CodeFrom(d, coeffs, i) ==           \* d[i] = dot(d[i-p .. i-1], coeffs) for i = p+1 .. Len(d)
  IF i > Len(d) THEN d
  ELSE LET p == Len(coeffs) IN
       CodeFrom(TLCEval([d EXCEPT ![i] = RSum([k \in 1..p |-> RMul(d[i - p - 1 + k], coeffs[k])])]), coeffs, i + 1)
PredictCode(data, phi, mu, h) ==
  LET p == Len(phi)  coeffs == Reverse(phi)
      d0 == [i \in 1..(p + h) |-> IF i <= p THEN RSub(data[Len(data) - p + i], mu) ELSE RZ]
      d == CodeFrom(d0, coeffs, p + 1) IN
  [i \in 1..h |-> RAdd(d[p + i], mu)]
\* the crate as first read (regression witness): recursion on the raw values
PredictCodeRaw(data, phi, mu, h) ==
  LET p == Len(phi)  coeffs == Reverse(phi)
      d0 == [i \in 1..(p + h) |-> IF i <= p THEN data[Len(data) - p + i] ELSE RZ]
      d == CodeFrom(d0, coeffs, p + 1) IN
  [i \in 1..h |-> RAdd(d[p + i], mu)]
=============================================================================
