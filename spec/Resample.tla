------------------------------ MODULE Resample ------------------------------
\* Resampling (property C19): bootstrap, jackknife, shuffle, shuffle_two.
\* Data are position tokens 0..n-1, so a result IS its index vector.
\*   ShufStep : the shuffle loop as written - 2n transpositions with both indices drawn from 0..n-1
\*              (draws are nondeterministic here); the same swaps are applied to both arrays of
\*              shuffle_two.
EXTENDS Integers, Sequences, FiniteSets

Ident(n)      == [i \in 1..n |-> i - 1]
IsPerm(s, n)  == Len(s) = n /\ {s[i] : i \in 1..n} = 0..(n - 1)
Swap(s, a, b) == [s EXCEPT ![a + 1] = s[b + 1], ![b + 1] = s[a + 1]]     \* 0-based positions a, b
RemoveAt(s, i) == [k \in 1..(Len(s) - 1) |-> IF k < i THEN s[k] ELSE s[k + 1]]   \* 1-based i
JackknifeSpec(n) == [i \in 1..n |-> RemoveAt(Ident(n), i)]
BootRowOk(row, n) == Len(row) = n /\ \A k \in 1..n : row[k] \in 0..(n - 1)

\* all sequences reachable from the identity by exactly k swaps
RECURSIVE Reach(_, _)
Reach(n, k) == IF k = 0 THEN {Ident(n)}
               ELSE {Swap(p, a, b) : p \in Reach(n, k - 1), a \in 0..(n - 1), b \in 0..(n - 1)}
Perms(n) == {p \in [1..n -> 0..(n - 1)] : {p[i] : i \in 1..n} = 0..(n - 1)}

\* integer square root (floor) by search in a bounded range
ISqrt(k) == CHOOSE r \in 0..46340 : r * r <= k /\ (r + 1) * (r + 1) > k

\* Dvoretzky-Kiefer-Wolfowitz band for N draws, alpha = 1e-12: eps = sqrt(ln(2/alpha) / (2N)),
\* ln(2e12) / 2 = 14.16..; an integer upper bound of eps * N is ISqrt(15 N) + 1
DkwBound(N) == ISqrt(15 * N) + 1
RECURSIVE Cum(_, _)
Cum(c, j) == IF j = 0 THEN 0 ELSE c[j] + Cum(c, j - 1)
\* pooled index counts c[1..n] of N draws are uniform on 0..n-1 within the band
UniformWithinBand(c, n, N) ==
  /\ Len(c) = n /\ Cum(c, n) = N
  /\ \A j \in 1..n : LET e == Cum(c, j) * n - j * N IN
                     (IF e < 0 THEN 0 - e ELSE e) <= n * DkwBound(N)
=============================================================================
