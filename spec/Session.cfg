SPECIFICATION Spec
INVARIANT Inv_Heap
POSTCONDITION Accepted
CHECK_DEADLOCK FALSE
