SPECIFICATION Spec
CONSTANTS
  LMin = 3
  LMax = 7
  M = 1
  H = 6
INVARIANTS Inv_DiffK Inv_Even Inv_Bound Inv_Shift Inv_Diff Inv_YW Inv_Predict Emit
CHECK_DEADLOCK FALSE
