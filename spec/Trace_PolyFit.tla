---------------------------- MODULE Trace_PolyFit ----------------------------
\* P3 for C14 (observations on n up to 2000 points, uniform / Chebyshev / clustered / integer abscissae in
\* [-2, 2], polynomial + noise of scale 0 .. 1e3): the residual of the fitted polynomial is orthogonal to
\* every power of x (relative to ||y|| ||x^j||) and no coefficient perturbation lowers the residual sum of
\* squares.  Bounds: 2^-36 (degree <= 3) / 2^-20 (degree 4..6, where the normal equations square the
\* Vandermonde condition number); measured maxima on the unchanged tree 2^-47 / 2^-30; RSS never lowered.
EXTENDS Integers, Sequences, TLC, Json, IOUtils
Rec == ndJsonDeserialize(IOEnv.TRACE)
VARIABLE l
Init == l = 1
Step(ev) == /\ ev.out = "ok" /\ ev.finite = TRUE
            /\ ev.orth_log2 <= (IF ev.d <= 3 THEN -36 ELSE -20)
            /\ ev.lowered_log2 <= -40
Next == l <= Len(Rec) /\ Step(Rec[l]) /\ l' = l + 1
Spec == Init /\ [][Next]_l
Accepted == LET d == TLCGet("stats").diameter IN
            IF d - 1 = Len(Rec) THEN TRUE ELSE PrintT("REJECTED at " \o ToString(d)) /\ FALSE
=============================================================================
