---------------------------- MODULE MC_Witnesses ----------------------------
\* Regression witnesses (DESIGN section 8): the deviations of the crate as first read are kept in the
\* specification modules as named operators.  Each ASSUME below states that the specification tells the
\* deviation apart from the property-level definition on a concrete small input - i.e. TLC produces the
\* counterexample - so a model that silently accepted the old behaviour could not pass.
EXTENDS Integers, Sequences, FiniteSets, TLC
L == INSTANCE Linalg
I == INSTANCE Interp
Q == INSTANCE Quad
S == INSTANCE Stats
T == INSTANCE TimeSeries
K == INSTANCE Kernels
P == INSTANCE Products
D == INSTANCE Dist
Rr(n) == <<n, 1>>

\* C11: single-pass parity is wrong on the 4-cycle pivot vector
ASSUME LET piv == <<1, 2, 3, 0>> IN (IF L!ParitySinglePass(piv, 1, 0) % 2 = 0 THEN 1 ELSE 0 - 1) # L!Sign(piv) /\ L!ParityCode(piv) = L!Sign(piv)
\* C01: routing on "symmetric with positive diagonal" sends an indefinite matrix to Cholesky
ASSUME LET A == << <<Rr(1), Rr(2)>>, <<Rr(2), Rr(1)>> >> IN L!RouteDiagOnly(A) = "chol" /\ L!Route(A) = "lu" /\ ~L!IsPD(A)
\* C16: the capped scan never sees a target to the right of the last knot
ASSUME LET x == <<Rr(0), Rr(1), Rr(3)>>  y == <<Rr(2), Rr(5), Rr(4)>>  m == [kind |-> "fill", left |-> Rr(0 - 7), right |-> Rr(9)] IN
       I!ICodeCapped(x, y, Rr(4), m) # I!ISpec(x, y, Rr(4), m) /\ I!ICode(x, y, Rr(4), m) = I!ISpec(x, y, Rr(4), m)
\* C07: the trapezoid rule with the doubled left end point is not exact on constants
ASSUME Q!TrapzCodeDoubleEnd(<<1>>, Rr(0), Rr(1), 4) = <<5, 4>> /\ Q!TrapzCode(<<1>>, Rr(0), Rr(1), 4) = Rr(1)
\* C08: shifted one-pass covariance without the correction term; cumulative bin centres on non-uniform edges
ASSUME LET x == <<1, 2, 4, 7>>  y == <<2, 1, 5, 3>> IN S!ShiftedOnePassCovNoCorrection(x, y) # S!SampleCovSpec(x, y) /\ S!ShiftedOnePassCov(x, y) = S!SampleCovSpec(x, y)
ASSUME S!BinCentresCumulative(<<0, 1, 3, 7>>) # S!BinCentresSpec(<<0, 1, 3, 7>>)
\* C13: forecasting on raw values is not shift equivariant
ASSUME LET d == <<Rr(3), Rr(0 - 1), Rr(4)>>  phi == << <<1, 2>> >> IN
       T!PredictCodeRaw(d, phi, Rr(2), 2) # T!PredictSpec(d, phi, Rr(2), 2) /\ T!PredictCode(d, phi, Rr(2), 2) = T!PredictSpec(d, phi, Rr(2), 2)
\* C20: exponent +alpha makes the kernel grow with distance
ASSUME K!RQWrongSign(Rr(1), 1, Rr(1), Rr(0), Rr(2)) = Rr(3) /\ K!RQ(Rr(1), 1, Rr(1), Rr(0), Rr(2)) = <<1, 3>>
\* C05: (A B)^T is not A^T B^T
ASSUME LET A == P!SA(2, 3)  B == P!SB(3, 2) IN P!MatmulCodeABT(A, B, TRUE, TRUE) # P!ProdSpec(A, B, TRUE, TRUE) /\ P!MatmulCode(A, B, TRUE, TRUE) = P!ProdSpec(A, B, TRUE, TRUE)
\* C18: Uniform::update as set_lower; set_upper rejects a valid interval above the current one; set_dof keeping the sampler is not fresh
ASSUME LET o == D!Obj("Uniform", <<0, 4>>) IN D!BadUpdateSequentialBounds(o, <<20, 24>>).out = "panic" /\ D!CodeUpdate(o, <<20, 24>>).out = "ok"
ASSUME LET o == D!Obj("ChiSquared", <<2>>) IN ~D!Fresh(D!BadSetDofKeepsSampler(o, 5).o) /\ D!Fresh(D!CodeSet(o, 1, 5).o)

VARIABLE dummy
Init == dummy = 0
Next == UNCHANGED dummy
Spec == Init /\ [][Next]_dummy
=============================================================================
