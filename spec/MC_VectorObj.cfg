SPECIFICATION Spec
CONSTANTS
  Depth = 4
  MaxLen = 5
INVARIANTS Inv_SortIdempotent Inv_Diff Inv_PanicKeeps
CHECK_DEADLOCK FALSE
