SPECIFICATION Spec
INVARIANTS Inv_Orth Inv_CovSym Emit
CHECK_DEADLOCK FALSE
