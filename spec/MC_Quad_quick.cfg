SPECIFICATION Spec
CONSTANTS
  NT = 5
  DMax = 12
  BigN = {1, 7, 64}
INVARIANTS Inv_TrapzExact Inv_TrapzSign Inv_TrapzBound Inv_TrapzLinear Inv_RombergExact Inv_RombergTol Emit
CHECK_DEADLOCK FALSE
