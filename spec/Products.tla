------------------------------ MODULE Products ------------------------------
\* Matrix products (property C05).
\*   ProdSpec   : (op(A) op(B))[i,j] = SUM_k op(A)[i,k] op(B)[k,j], op = transpose iff flag
\*   MatmulCode : matmul of linalg/utils.rs as written: both flags -> transpose(matmul(b, a, F, F));
\*                otherwise explicit transposition and the i-k-j loop
\*   BlockedCode: matmul_blocked - explicit transposition, tile loops jj, kk with min(..) edges
\*   DotSpec    : the Dot trait table (receiver kind x argument kind x method): promotion of vectors,
\*                shape requirement, result kind
\* Matrices are [nrows, ncols, data] with integer entries (Arrays).
EXTENDS Integers, Sequences, FiniteSets, Arrays

PPanic == [panic |-> TRUE]
RECURSIVE SumTo(_, _)
SumTo(f, n) == IF n = 0 THEN 0 ELSE f[n] + SumTo(f, n - 1)

Op(A, t) == IF t THEN Transpose(A) ELSE A
Conformable(A, B, ta, tb) == Op(A, ta).ncols = Op(B, tb).nrows

MulPlain(X, Y) ==   \* X.ncols = Y.nrows
  Mat(X.nrows, Y.ncols, [q \in 1..(X.nrows * Y.ncols) |->
        LET i == (q - 1) \div Y.ncols  j == (q - 1) % Y.ncols IN
        SumTo([k \in 1..X.ncols |-> At(X, i, k - 1) * At(Y, k - 1, j)], X.ncols)])

ProdSpec(A, B, ta, tb) == IF ~Conformable(A, B, ta, tb) THEN PPanic ELSE MulPlain(Op(A, ta), Op(B, tb))

MatmulCode(A, B, ta, tb) ==
  IF ta /\ tb THEN (IF B.ncols # A.nrows THEN PPanic ELSE Transpose(MulPlain(B, A)))
  ELSE IF ~Conformable(A, B, ta, tb) THEN PPanic ELSE MulPlain(Op(A, ta), Op(B, tb))

\* the crate as first read (regression witnesses)
MatmulCodeABT(A, B, ta, tb) == IF ta /\ tb THEN Transpose(MulPlain(A, B)) ELSE MatmulCode(A, B, ta, tb)

Min2(a, b) == IF a <= b THEN a ELSE b
\* c[i][j] accumulates a[i][k] b[k][j] once for every tile pair (jj, kk) whose ranges contain j and k
BlockedCode(A, B, ta, tb, bs) ==
  IF ~Conformable(A, B, ta, tb) THEN PPanic
  ELSE LET X == Op(A, ta)  Y == Op(B, tb)  l == X.ncols  n == Y.ncols
           JTiles(j) == {jj \in 0..(n \div bs) : jj * bs <= j /\ j < Min2(jj * bs + bs, n)}
           KTiles(k) == {kk \in 0..(l \div bs) : kk * bs <= k /\ k < Min2(kk * bs + bs, l)}
       IN Mat(X.nrows, n, [q \in 1..(X.nrows * n) |->
             LET i == (q - 1) \div n  j == (q - 1) % n IN
             Cardinality(JTiles(j)) *
               SumTo([k \in 1..l |-> Cardinality(KTiles(k - 1)) * At(X, i, k - 1) * At(Y, k - 1, j)], l)])

\* ------------------------------ Dot trait ------------------------------
\* kinds: "M" matrix, "V" vector (a vector is given as a 1 x n matrix here); methods dot, t_dot, dot_t, t_dot_t
TA(meth) == meth \in {"t_dot", "t_dot_t"}
TB(meth) == meth \in {"dot_t", "t_dot_t"}
ColOf(v) == Mat(v.ncols, 1, v.data)          \* vector promoted by appending a 1
DotSpec(rk, ak, meth, A, B) ==
  CASE rk = "M" /\ ak = "M" -> ProdSpec(A, B, TA(meth), TB(meth))
    [] rk = "M" /\ ak = "V" -> ProdSpec(A, ColOf(B), TA(meth), FALSE)       \* transposing the vector does nothing
    [] rk = "V" /\ ak = "M" -> ProdSpec(A, B, FALSE, TB(meth))              \* A is the 1 x n row
    [] rk = "V" /\ ak = "V" -> IF A.ncols # B.ncols THEN PPanic ELSE MulPlain(A, ColOf(B))

\* storage operands with position dependent, non-symmetric, non-commuting entries
SA(r, c) == Mat(r, c, [q \in 1..(r * c) |-> ((q - 1) \div c) + 2 * ((q - 1) % c) + 1])
SB(r, c) == Mat(r, c, [q \in 1..(r * c) |-> 3 * ((q - 1) \div c) - ((q - 1) % c) + 2])
=============================================================================
