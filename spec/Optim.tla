-------------------------------- MODULE Optim --------------------------------
\* First-order optimizers (property C10) as state machines over exact rationals.
\*   SGD family on quadratics   f(x) = sum_i a_i x_i^2 + b_i x_i  (+ c x_1 x_2),   grad_i = 2 a_i x_i + b_i + c x_other
\*       plain:     x' = x - alpha g(x)
\*       momentum:  u' = mu u + alpha g(x);              x' = x - u'
\*       Nesterov:  u' = mu u + alpha g(x - mu u);       x' = x - u'      (look-ahead gradient)
\*   Adam on  f(x) = sum_i c_i |x_i - a_i|,  grad_i = c_i sign(x_i - a_i)  (so sqrt(vhat) = c_i exactly):
\*       m' = b1 m + (1 - b1) g;  v' = b2 v + (1 - b2) g^2;  mhat = m' / (1 - b1^t);  vhat = v' / (1 - b2^t)
\*       x' = x - alpha mhat / (sqrt(vhat) + eps)
\*   The loop stops early only when no coordinate changed in the last step ("converged").
EXTENDS Integers, Sequences, FiniteSets, Reals, TLC

Dim(cfg) == Len(cfg.x0)
\* ---- SGD ----
QGrad(cfg, x) == [i \in 1..Dim(cfg) |->
   RAdd(RAdd(RMul(R(2 * cfg.a[i]), x[i]), R(cfg.b[i])),
        IF Dim(cfg) >= 2 /\ i <= 2 THEN RMul(R(cfg.c), x[3 - i]) ELSE RZ)]
SgdStep(cfg, st) ==
  LET at == IF cfg.nesterov THEN [i \in 1..Dim(cfg) |-> RSub(st.x[i], RMul(cfg.mu, st.u[i]))] ELSE st.x
      g  == QGrad(cfg, at)
      u2 == [i \in 1..Dim(cfg) |-> RAdd(RMul(cfg.mu, st.u[i]), RMul(cfg.alpha, g[i]))]
      x2 == [i \in 1..Dim(cfg) |-> RSub(st.x[i], u2[i])]
  IN [t |-> st.t + 1, x |-> x2, u |-> u2, converged |-> (x2 = st.x)]
SgdInit(cfg) == [t |-> 0, x |-> cfg.x0, u |-> [i \in 1..Dim(cfg) |-> RZ], converged |-> FALSE]

\* ---- Adam ----
\* objective per coordinate: c |x - a| (gradient +-c) or, with cfg.hinge, the one-sided c (|x - a| + (x - a)) whose
\* gradient is 2c to the right of a and EXACTLY ZERO to the left of it - the moments keep moving such a coordinate
SignOf(r) == IF r[1] > 0 THEN 1 ELSE IF r[1] < 0 THEN 0 - 1 ELSE 0
Hinge(cfg) == "hinge" \in DOMAIN cfg /\ cfg.hinge
GMag(cfg, i) == IF Hinge(cfg) THEN RMul(R(2), cfg.cw[i]) ELSE cfg.cw[i]
AGrad(cfg, x) == [i \in 1..Dim(cfg) |-> RMul(cfg.cw[i], R(SignOf(RSub(x[i], cfg.at[i])) + (IF Hinge(cfg) THEN 1 ELSE 0)))]
\* sqrt(vhat) must be rational for the exact oracle: it is looked up among multiples of the gradient magnitude and the
\* state is marked inexact (and not expanded or emitted) when no candidate squares to vhat
RootCands(cfg, i) == {RMul(GMag(cfg, i), k) : k \in {ROne, Norm(1, 2), Norm(1, 3), Norm(2, 3), Norm(3, 5), RZ}}     \* RZ: a coordinate that never saw a gradient
HasRoot(cfg, i, vh) == \E r \in RootCands(cfg, i) : RSq(r) = vh
RootOf(cfg, i, vh) == CHOOSE r \in RootCands(cfg, i) : RSq(r) = vh
AdamStep(cfg, st) ==
  LET t  == st.t + 1
      g  == AGrad(cfg, st.x)
      m2 == [i \in 1..Dim(cfg) |-> RAdd(RMul(cfg.b1, st.m[i]), RMul(RSub(ROne, cfg.b1), g[i]))]
      v2 == [i \in 1..Dim(cfg) |-> RAdd(RMul(cfg.b2, st.v[i]), RMul(RSub(ROne, cfg.b2), RSq(g[i])))]
      mh == [i \in 1..Dim(cfg) |-> RDiv(m2[i], RSub(ROne, RPow(cfg.b1, t)))]
      vh == [i \in 1..Dim(cfg) |-> RDiv(v2[i], RSub(ROne, RPow(cfg.b2, t)))]
      ex == \A i \in 1..Dim(cfg) : HasRoot(cfg, i, vh[i])
      x2 == IF ex THEN [i \in 1..Dim(cfg) |-> RSub(st.x[i], RDiv(RMul(cfg.alpha, mh[i]), RAdd(RootOf(cfg, i, vh[i]), cfg.eps)))] ELSE st.x
  IN [t |-> t, x |-> x2, m |-> m2, v |-> v2, exact |-> ex, zero_grad |-> (\E i \in 1..Dim(cfg) : RIsZero(g[i])), converged |-> (ex /\ x2 = st.x)]
\* closed form while no coordinate has crossed its kink: |g_i| = c_i at every step, so mhat_i = c_i sign, vhat_i = c_i^2 and every
\* step moves coordinate i by alpha c_i / (c_i + eps) towards a_i
AdamClosedForm(cfg, t) == [i \in 1..Dim(cfg) |-> RSub(cfg.x0[i], RMul(R(t * SignOf(RSub(cfg.x0[i], cfg.at[i]))), RDiv(RMul(cfg.alpha, cfg.cw[i]), RAdd(cfg.cw[i], cfg.eps))))]
NoCrossingPossible(cfg, t) == \A i \in 1..Dim(cfg) : RLt(RMul(R(t), cfg.alpha), RAbsR(RSub(cfg.x0[i], cfg.at[i])))
AdamInit(cfg) == [t |-> 0, x |-> cfg.x0, m |-> [i \in 1..Dim(cfg) |-> RZ], v |-> [i \in 1..Dim(cfg) |-> RZ], exact |-> TRUE, zero_grad |-> FALSE, converged |-> FALSE]
=============================================================================
