----------------------------- MODULE DistMoments -----------------------------
\* Closed-form mean / variance, support and exact mass functions of the 13 univariate laws (property C02).
\* Parameters as in Dist: quarters for real fields, integers for integer fields.
\* Extended values: [t |-> "rat", v |-> <<n, d>>], [t |-> "inf"], [t |-> "nan"], and for Gumbel (irrational
\* constants) [t |-> "gumbel_mean", mu, beta] = mu + beta * EulerGamma, [t |-> "gumbel_var", beta] = pi^2/6 beta^2.
EXTENDS Dist, Reals

P(k, p, i) == IF IntField(k, i) THEN R(p[i]) ELSE Norm(p[i], Den(k, p))
Rat(v) == [t |-> "rat", v |-> v]
InfV == [t |-> "inf"]
NanV == [t |-> "nan"]

Mean(k, p) ==
  CASE k = "Normal"      -> Rat(P(k, p, 1))
    [] k = "Gamma"       -> Rat(RDiv(P(k, p, 1), P(k, p, 2)))
    [] k = "Beta"        -> Rat(RDiv(P(k, p, 1), RAdd(P(k, p, 1), P(k, p, 2))))
    [] k = "ChiSquared"  -> Rat(P(k, p, 1))
    [] k = "T"           -> IF RLt(ROne, P(k, p, 1)) THEN Rat(RZ) ELSE NanV
    [] k = "Pareto"      -> IF RLe(P(k, p, 1), ROne) THEN InfV
                            ELSE Rat(RDiv(RMul(P(k, p, 1), P(k, p, 2)), RSub(P(k, p, 1), ROne)))
    [] k = "Gumbel"      -> [t |-> "gumbel_mean", mu |-> RJ(P(k, p, 1)), beta |-> RJ(P(k, p, 2))]
    [] k = "Exponential" -> Rat(RDiv(ROne, P(k, p, 1)))
    [] k \in {"Uniform", "DiscreteUniform"} -> Rat(RDiv(RAdd(P(k, p, 1), P(k, p, 2)), R(2)))
    [] k = "Poisson"     -> Rat(P(k, p, 1))
    [] k = "Binomial"    -> Rat(RMul(P(k, p, 1), P(k, p, 2)))
    [] k = "Bernoulli"   -> Rat(P(k, p, 1))

Var(k, p) ==
  CASE k = "Normal"      -> Rat(RSq(P(k, p, 2)))
    [] k = "Gamma"       -> Rat(RDiv(P(k, p, 1), RSq(P(k, p, 2))))
    [] k = "Beta"        -> LET a == P(k, p, 1)  b == P(k, p, 2)  s == RAdd(a, b) IN
                            Rat(RDiv(RMul(a, b), RMul(RSq(s), RAdd(s, ROne))))
    [] k = "ChiSquared"  -> Rat(RMul(R(2), P(k, p, 1)))
    [] k = "T"           -> LET v == P(k, p, 1) IN
                            IF RLt(R(2), v) THEN Rat(RDiv(v, RSub(v, R(2)))) ELSE IF RLt(ROne, v) THEN InfV ELSE NanV
    [] k = "Pareto"      -> LET a == P(k, p, 1)  m == P(k, p, 2) IN
                            IF RLe(a, R(2)) THEN InfV
                            ELSE Rat(RDiv(RMul(RSq(m), a), RMul(RSq(RSub(a, ROne)), RSub(a, R(2)))))
    [] k = "Gumbel"      -> [t |-> "gumbel_var", beta |-> RJ(P(k, p, 2))]
    [] k = "Exponential" -> Rat(RDiv(ROne, RSq(P(k, p, 1))))
    [] k = "Uniform"     -> Rat(RDiv(RSq(RSub(P(k, p, 2), P(k, p, 1))), R(12)))
    [] k = "DiscreteUniform" -> LET w == RAdd(RSub(P(k, p, 2), P(k, p, 1)), ROne) IN Rat(RDiv(RSub(RSq(w), ROne), R(12)))
    [] k = "Poisson"     -> Rat(P(k, p, 1))
    [] k = "Binomial"    -> Rat(RMul(RMul(P(k, p, 1), P(k, p, 2)), RSub(ROne, P(k, p, 2))))
    [] k = "Bernoulli"   -> Rat(RMul(P(k, p, 1), RSub(ROne, P(k, p, 1))))

Discrete(k) == k \in {"DiscreteUniform", "Poisson", "Binomial", "Bernoulli"}
\* closed support (points where the density / mass may be non-zero); x a rational
InSupport(k, p, x) ==
  CASE k \in {"Normal", "T", "Gumbel"} -> TRUE
    [] k \in {"Gamma", "ChiSquared"} -> RLt(RZ, x)
    [] k = "Exponential" -> RLe(RZ, x)
    [] k = "Beta"        -> RLe(RZ, x) /\ RLe(x, ROne)
    [] k = "Pareto"      -> RLe(P(k, p, 2), x)
    [] k = "Uniform"     -> RLe(P(k, p, 1), x) /\ RLe(x, P(k, p, 2))
    [] k = "DiscreteUniform" -> IsInt(x) /\ RLe(P(k, p, 1), x) /\ RLe(x, P(k, p, 2))
    [] k = "Poisson"     -> IsInt(x) /\ RLe(RZ, x)
    [] k = "Binomial"    -> IsInt(x) /\ RLe(RZ, x) /\ RLe(x, P(k, p, 1))
    [] k = "Bernoulli"   -> x \in {RZ, ROne}

\* support as an interval: [lo, hi] with "ninf"/"pinf" for unbounded ends and open flags (strict inequality)
SupportBounds(k, p) ==
  CASE k \in {"Normal", "T", "Gumbel"} -> [lo |-> "ninf", hi |-> "pinf", lo_open |-> TRUE, hi_open |-> TRUE]
    [] k \in {"Gamma", "ChiSquared"} -> [lo |-> RJ(RZ), hi |-> "pinf", lo_open |-> TRUE, hi_open |-> TRUE]
    [] k = "Exponential" -> [lo |-> RJ(RZ), hi |-> "pinf", lo_open |-> FALSE, hi_open |-> TRUE]
    [] k = "Beta"    -> [lo |-> RJ(RZ), hi |-> RJ(ROne), lo_open |-> FALSE, hi_open |-> FALSE]
    [] k = "Pareto"  -> [lo |-> RJ(P(k, p, 2)), hi |-> "pinf", lo_open |-> FALSE, hi_open |-> TRUE]
    [] k \in {"Uniform", "DiscreteUniform"} -> [lo |-> RJ(P(k, p, 1)), hi |-> RJ(P(k, p, 2)), lo_open |-> FALSE, hi_open |-> FALSE]
    [] k = "Poisson" -> [lo |-> RJ(RZ), hi |-> "pinf", lo_open |-> FALSE, hi_open |-> TRUE]
    [] k = "Binomial" -> [lo |-> RJ(RZ), hi |-> RJ(P(k, p, 1)), lo_open |-> FALSE, hi_open |-> FALSE]
    [] k = "Bernoulli" -> [lo |-> RJ(RZ), hi |-> RJ(ROne), lo_open |-> FALSE, hi_open |-> FALSE]

\* end points that belong to the support as the crate documents it (closed ends): there the density must equal the
\* textbook formula like at any other point of the support (where the formula is finite).  ChiSquared: the crate states
\* "if dof = 1 then x should be positive, otherwise non-negative"; Gamma documents an open support and stays unjudged.
ClosedEnd(k, p, x) ==
  CASE k = "Exponential" -> RIsZero(x)
    [] k = "ChiSquared" -> RIsZero(x) /\ RLe(R(2), P(k, p, 1))
    [] k = "Beta" -> RIsZero(x) \/ x = ROne
    [] k = "Pareto" -> x = P(k, p, 2)
    [] k = "Uniform" -> x = P(k, p, 1) \/ x = P(k, p, 2)
    [] OTHER -> FALSE
\* end points of the support of a density: at an open end the value is a convention and
\* is not judged (only finiteness and non-negativity)
OnBoundary(k, p, x) ==
  CASE k \in {"Gamma", "ChiSquared", "Exponential"} -> RIsZero(x)
    [] k = "Beta" -> RIsZero(x) \/ x = ROne
    [] k = "Pareto" -> x = P(k, p, 2)
    [] k = "Uniform" -> x = P(k, p, 1) \/ x = P(k, p, 2)
    [] OTHER -> FALSE

\* exact mass functions of the finite-support laws (Binomial for small n)
RECURSIVE Choose(_, _)
Choose(n, j) == IF j = 0 \/ j = n THEN 1 ELSE Choose(n - 1, j - 1) + Choose(n - 1, j)
\* (rows on a finer grid than quarters are judged against the reference table only: their exact moments leave TLC's integers)
HasExactPmf(k, p) == Den(k, p) = 4 /\ (k \in {"Bernoulli", "DiscreteUniform"} \/ (k = "Binomial" /\ p[1] <= 12))
SupportPoints(k, p) == CASE k = "Bernoulli" -> {0, 1} [] k = "DiscreteUniform" -> p[1]..p[2] [] k = "Binomial" -> 0..p[1]
Pmf(k, p, j) ==
  CASE k = "Bernoulli" -> IF j = 1 THEN P(k, p, 1) ELSE RSub(ROne, P(k, p, 1))
    [] k = "DiscreteUniform" -> Norm(1, p[2] - p[1] + 1)
    [] k = "Binomial" -> RMul(R(Choose(p[1], j)), RMul(RPow(P(k, p, 2), j), RPow(RSub(ROne, P(k, p, 2)), p[1] - j)))
SumOver(S, f(_)) == LET RECURSIVE F(_) F(T) == IF T = {} THEN RZ ELSE LET e == CHOOSE e \in T : TRUE IN RAdd(f(e), F(T \ {e})) IN F(S)
MassIsOne(k, p) == SumOver(SupportPoints(k, p), LAMBDA j : Pmf(k, p, j)) = ROne
MeanIsFirstMoment(k, p) == Rat(SumOver(SupportPoints(k, p), LAMBDA j : RMul(R(j), Pmf(k, p, j)))) = Mean(k, p)
VarIsCentralMoment(k, p) == LET m == Mean(k, p).v IN
  Rat(SumOver(SupportPoints(k, p), LAMBDA j : RMul(RSq(RSub(R(j), m)), Pmf(k, p, j)))) = Var(k, p)
=============================================================================
