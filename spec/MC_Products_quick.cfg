SPECIFICATION Spec
CONSTANTS
  K = 5
  KV = 20
  KC = 3
INVARIANTS Inv_Panics Inv_MatmulCode Inv_BlockedCode Inv_TransposeIdentity Inv_Homogeneous Emit
CHECK_DEADLOCK FALSE
