SPECIFICATION Spec
CONSTANTS
  Regimes = {"gamma_lt_third_unboosted"}
INVARIANT Inv_Range
PROPERTY Terminates
CHECK_DEADLOCK FALSE
