--------------------------- MODULE Trace_SpecialFn ---------------------------
EXTENDS SpecialFn, Json, IOUtils
Rec == ndJsonDeserialize(IOEnv.TRACE)
VARIABLE l
Init == l = 1
Next == l <= Len(Rec) /\ Accept(Rec[l]) /\ l' = l + 1
Spec == Init /\ [][Next]_l
Accepted == LET d == TLCGet("stats").diameter IN
            IF d - 1 = Len(Rec) THEN TRUE ELSE PrintT("REJECTED at " \o ToString(d)) /\ FALSE
=============================================================================
