--------------------------- MODULE MC_DistExtreme ---------------------------
\* C18 at extreme magnitudes: a real-valued parameter v = s * 2^e (s in {-1, 0, 1}; e from the smallest denormal to
\* near overflow) handed to the constructor, to the field's setter and to the bulk update of an object that holds
\* the base tuple.  TLC cannot hold 2^1000, so validity is decided symbolically from sign and magnitude class;
\* the claim replayed into the code is the property's: all three entry points accept exactly the valid values.
EXTENDS Dist, TLC, Json
VARIABLE c
Exps == {0 - 1074, 0 - 1000, 0 - 60, 0 - 53, 60, 1000}
RealKinds == Kinds \ {"ChiSquared", "DiscreteUniform"}
Base(k) == CASE k = "Uniform" -> <<0, 4>> [] k = "Binomial" -> <<10, 2>> [] k = "Bernoulli" -> <<2>>
             [] Arity(k) = 1 -> <<4>> [] OTHER -> <<4, 4>>
\* sign of (s * 2^e - b/4) for a grid value b: tiny magnitudes compare like 0 unless b = 0, huge ones like their sign
Cmp(s, e, b) == IF s = 0 THEN (IF b > 0 THEN 0 - 1 ELSE IF b = 0 THEN 0 ELSE 1)
                ELSE IF e < 0 THEN (IF b > 0 THEN 0 - 1 ELSE IF b < 0 THEN 1 ELSE s)
                ELSE s
ExtValid(k, i, s, e) ==
  CASE k = "Normal"  -> (i = 1) \/ s >= 0
    [] k = "Gumbel"  -> (i = 1) \/ s > 0
    [] k \in {"Gamma", "Beta", "Pareto", "T", "Exponential", "Poisson"} -> s > 0
    [] k = "Uniform" -> IF i = 1 THEN Cmp(s, e, Base(k)[2]) <= 0 ELSE Cmp(s, e, Base(k)[1]) >= 0
    [] k \in {"Binomial", "Bernoulli"} -> s >= 0 /\ Cmp(s, e, 4) <= 0
Cases == {[kind |-> k, i |-> i, s |-> s, e |-> e] : k \in RealKinds, i \in 1..2, s \in {0 - 1, 0, 1}, e \in Exps}
\* NaN and the infinities.  An infinite value is decided by the constraint where the constraint is one-sided on that side
\* (-inf violates "> 0", +inf violates "<= upper", ...); for NaN, and for infinities the constraint admits, the property's
\* word is "alike": constructor, setter and bulk update must agree (verdict "alike")
SpecialValid(k, i, sp) ==
  IF sp = "nan" THEN "alike"
  ELSE LET s == IF sp = "pinf" THEN 1 ELSE 0 - 1 IN
       IF ExtValid(k, i, s, 1000) THEN "alike" ELSE "invalid"
Specials == {[kind |-> k, i |-> i, s |-> 0, e |-> 0, special |-> sp] : k \in RealKinds, i \in 1..2, sp \in {"nan", "pinf", "ninf"}}
Init == c \in {x \in Cases : x.i <= Arity(x.kind) /\ ~IntField(x.kind, x.i) /\ (x.s = 0 => x.e = 60)} \cup {x \in Specials : x.i <= Arity(x.kind) /\ ~IntField(x.kind, x.i)}
Next == UNCHANGED c
Spec == Init /\ [][Next]_c
\* the symbolic rule agrees with Valid wherever both apply (s = 0, the only value on the integer grid)
IsSpecial == "special" \in DOMAIN c
Inv_Agrees == (c.s = 0 /\ ~IsSpecial) => (ExtValid(c.kind, c.i, 0, c.e) <=> Valid(c.kind, [Base(c.kind) EXCEPT ![c.i] = 0]))
Inv_BaseValid == Valid(c.kind, Base(c.kind))
\* at the smallest subnormal half the parameter (the shape of the embedded gamma generator of T, ...) is no longer a positive
\* number: whether such a value counts as valid is not fixed by the property; its word there is "alike" as well
AtFloor == ~IsSpecial /\ c.s = 1 /\ c.e = 0 - 1074
Emit == IF IsSpecial
        THEN LET sv == SpecialValid(c.kind, c.i, c.special) IN
             IF sv = "alike" THEN PrintT(<<"CASE", ToJson([fam |-> "extreme", kind |-> c.kind, i |-> c.i, s |-> 0, e |-> 0, special |-> c.special, base |-> Base(c.kind), valid |-> "alike"])>>)
             ELSE PrintT(<<"CASE", ToJson([fam |-> "extreme", kind |-> c.kind, i |-> c.i, s |-> 0, e |-> 0, special |-> c.special, base |-> Base(c.kind), valid |-> FALSE])>>)
        ELSE PrintT(<<"CASE", ToJson([fam |-> "extreme", kind |-> c.kind, i |-> c.i, s |-> c.s, e |-> c.e, base |-> Base(c.kind),
                                      valid |-> IF AtFloor /\ ExtValid(c.kind, c.i, c.s, c.e) THEN "alike" ELSE ExtValid(c.kind, c.i, c.s, c.e)])>>)
=============================================================================
