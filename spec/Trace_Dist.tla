----------------------------- MODULE Trace_Dist -----------------------------
\* P3 for C18. The trace starts with "fresh" events: one freshly constructed object per valid
\* grid tuple, with the fingerprint of everything observable about it (Debug rendering, mean,
\* variance, density/mass probes, seeded sample stream).  Then come random histories.  After
\* every constructor / setter / bulk-update event the logged fingerprint must be the one of the
\* fresh object with the parameters the specification holds at that point.
EXTENDS Dist, TLC, Json, IOUtils

Rec == ndJsonDeserialize(IOEnv.TRACE)

VARIABLES o, fp, l
vars == <<o, fp, l>>
NoObj == [kind |-> "none", p |-> <<>>, cache |-> <<>>]

Init == l = 1 /\ o = NoObj /\ fp = <<>>

Key(k, p) == <<k, p>>

FreshEv(ev) == /\ Valid(ev.kind, ev.ps) /\ ev.out = "ok"
               /\ fp' = (Key(ev.kind, ev.ps) :> ev.fp) @@ fp
               /\ UNCHANGED o

NewEv(ev) == /\ UNCHANGED fp
             /\ IF Valid(ev.kind, ev.ps)
                THEN ev.out = "ok" /\ o' = Obj(ev.kind, ev.ps) /\ ev.fp = fp[Key(ev.kind, ev.ps)]
                ELSE ev.out = "panic" /\ o' = NoObj

MutEv(ev) == LET a == IF ev.op = "set" THEN ActSet(ev.i, ev.v) ELSE ActUpd(ev.ps)
                 s == SpecApply(o, a) IN
             /\ UNCHANGED fp
             /\ o.kind = ev.kind
             /\ ev.out = s.out
             /\ \E x \in s.os : ev.fp = fp[Key(x.kind, x.p)] /\ o' = x

Next == /\ l <= Len(Rec)
        /\ LET ev == Rec[l] IN
             CASE ev.op = "fresh" -> FreshEv(ev)
               [] ev.op = "new" -> NewEv(ev)
               [] OTHER -> MutEv(ev)
        /\ l' = l + 1

Spec == Init /\ [][Next]_vars

Inv_Valid == o.kind # "none" => Valid(o.kind, o.p) /\ Fresh(o)

Accepted == LET d == TLCGet("stats").diameter IN
            IF d - 1 = Len(Rec) THEN TRUE
            ELSE PrintT("REJECTED at " \o ToString(d)) /\ FALSE
=============================================================================
