------------------------------- MODULE MC_GLM -------------------------------
EXTENDS GLM, Json
VARIABLE c
RowsToRat(M) == [i \in 1..Len(M) |-> [j \in 1..Len(M[i]) |-> R(M[i][j])]]
Designs == { << <<1, 0>>, <<1, 1>>, <<1, 2>>, <<1, 3>>, <<1, 5>> >>,
             << <<1, 0 - 1, 1>>, <<1, 0, 0>>, <<1, 1, 1>>, <<1, 2, 4>>, <<1, 3, 9>>, <<1, 0 - 2, 4>> >>,
             << <<1, 1, 0>>, <<1, 0, 1>>, <<1, 1, 1>>, <<1, 0, 0>>, <<1, 2, 1>>, <<1, 1, 3>>, <<1, 0 - 1, 2>> >> }
YPat(n, v) == [i \in 1..n |-> R(((i * i * v + 3 * i) % 9) - 2)]
WPat(n, k) == [i \in 1..n |-> IF k = 0 THEN ROne ELSE R(1 + ((i * k) % 3))]
OPat(n, k) == [i \in 1..n |-> IF k = 0 THEN RZ ELSE Norm((i % 3) - 1, 2)]
D1 == << <<1, 0>>, <<1, 1>>, <<1, 2>>, <<1, 3>>, <<1, 5>> >>
D2 == << <<1, 0 - 1, 1>>, <<1, 0, 0>>, <<1, 1, 1>>, <<1, 2, 4>>, <<1, 3, 9>>, <<1, 0 - 2, 4>> >>
D3 == << <<1, 1, 0>>, <<1, 0, 1>>, <<1, 1, 1>>, <<1, 0, 0>>, <<1, 2, 1>>, <<1, 1, 3>>, <<1, 0 - 1, 2>> >>
GCase(X, v, wk, ok, al) == [fam |-> "gaussian", X |-> RowsToRat(X), y |-> YPat(Len(X), v), w |-> WPat(Len(X), wk), o |-> OPat(Len(X), ok), alpha |-> al, wk |-> wk, ok |-> ok]
\* the combinations are limited by 32-bit integers in the exact solve: the richest ones on the smallest design
Gauss == {GCase(D1, v, wk, ok, al) : v \in 1..2, wk \in 0..1, ok \in 0..1, al \in {RZ, <<1, 8>>, R(1), R(10)}}
    \cup {GCase(D2, v, wk, 0, al) : v \in 1..2, wk \in 0..1, al \in {RZ, R(1)}}
    \cup {GCase(D2, 1, 0, 1, al) : al \in {RZ, R(10)}}
    \cup {GCase(D3, v, 0, 0, al) : v \in 1..2, al \in {RZ, R(1), R(10)}}
    \cup {GCase(D3, 1, 1, 0, RZ)}
Groups == { <<1, 1, 2, 2, 2>>, <<1, 2, 3, 1, 2, 3, 1>>, <<1, 1, 1, 2, 2, 3, 3, 3>> }
\* responses valid for every family: group means strictly between 0 and 1 for Bernoulli, positive otherwise
RankIn(g, i) == Cardinality({j \in 1..(i - 1) : g[j] = g[i]})
YFor(f, g) == IF f = "Bernoulli" THEN [i \in 1..Len(g) |-> R(RankIn(g, i) % 2)]
              ELSE [i \in 1..Len(g) |-> R(1 + ((i * i + g[i]) % 5))]
Grouped == {[fam |-> "grouped", family |-> f, g |-> g, y |-> YFor(f, g), w |-> WPat(Len(g), wk), wk |-> wk] : f \in Families, g \in Groups, wk \in 0..1}
Init == c \in Gauss \cup Grouped
Next == UNCHANGED c
Spec == Init /\ [][Next]_c
IsG == c.fam = "gaussian"
G == IF IsG THEN 0 ELSE Cardinality({c.g[i] : i \in 1..Len(c.g)})
Beta == TLCEval(GaussianBeta(c.X, c.y, c.w, c.o, c.alpha))
Inv_GaussianScore == IsG => GaussianScoreZero(c.X, c.y, c.w, c.o, c.alpha, Beta)
Inv_GroupedScore == ~IsG => GroupedScoreZero(c.y, c.w, c.g, G)
Inv_BernoulliInterior == (~IsG /\ c.family = "Bernoulli") => \A i \in 1..Len(c.g) : LET m == GroupedMu(c.y, c.w, c.g)[i] IN RLt(RZ, m) /\ RLt(m, ROne)
Flat(M) == LET RECURSIVE Fl(_) Fl(k) == IF k = 0 THEN <<>> ELSE Fl(k - 1) \o M[k] IN Fl(Len(M))
Emit == IF IsG THEN
          LET mu == Linear(c.X, Beta, c.o)  n == Len(c.y)  p == Len(Beta)
              \* the residual sum of squares is formed only where it stays within 32-bit integers
              small == \A i \in 1..n : mu[i][2] <= 200 /\ RAbs(mu[i][1]) <= 20000
              rss == IF small THEN RSSOf(c.y, mu) ELSE <<0 - 1, 1>>
              disp == IF small THEN RDiv(rss, R(n - p)) ELSE <<0 - 1, 1>> IN
          PrintT(<<"CASE", ToJson([fam |-> "gaussian", n |-> n, p |-> p, X |-> RSeqJ(Flat(c.X)), y |-> RSeqJ(c.y), w |-> RSeqJ(c.w), o |-> RSeqJ(c.o),
                    unit_w |-> (c.wk = 0), has_o |-> (c.ok = 1), alpha |-> RJ(c.alpha), beta |-> RSeqJ(Beta), mu |-> RSeqJ(mu), rss |-> RJ(rss),
                    disp |-> RJ(disp), infinv |-> RSeqJ(InvDiag(XtWX(c.X, c.w)))])>>)
        ELSE
          PrintT(<<"CASE", ToJson([fam |-> "grouped", family |-> c.family, n |-> Len(c.g), p |-> G, X |-> RSeqJ(Flat(GroupDesign(c.g, G))), y |-> RSeqJ(c.y),
                    w |-> RSeqJ(c.w), unit_w |-> (c.wk = 0), mu |-> RSeqJ(GroupedMu(c.y, c.w, c.g)), has_dispersion |-> HasDispersion(c.family),
                    infinv |-> RSeqJ(InvDiag(GroupedInfo(c.family, c.y, c.w, c.g, G)))])>>)
=============================================================================
