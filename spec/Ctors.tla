------------------------------- MODULE Ctors -------------------------------
\* Constructors, grids, predicates and comparisons of compute::linalg (property C15, stateless part).
\* Every case is a record [call, args.., exp]; exp is the defining pattern, computed here.
\* Reals are dyadic: a value v in "eighths" stands for v/8.
EXTENDS Integers, Sequences, FiniteSets, Arrays

Abs(x) == IF x < 0 THEN 0 - x ELSE x
Pow(b, e) == LET RECURSIVE P(_) P(k) == IF k = 0 THEN 1 ELSE b * P(k - 1) IN P(e)

Eye(n)       == Mat(n, n, [k \in 1..(n * n) |-> IF (k - 1) \div n = (k - 1) % n THEN 1 ELSE 0])
Fill(r, c, v) == Mat(r, c, [k \in 1..(r * c) |-> v])
DiagMatrix(v) == LET n == Len(v) IN [k \in 1..(n * n) |-> IF (k - 1) \div n = (k - 1) % n THEN v[((k - 1) \div n) + 1] ELSE 0]
Toeplitz(x)  == LET n == Len(x) IN [k \in 1..(n * n) |-> x[Abs(((k - 1) \div n) - ((k - 1) % n)) + 1]]
Vandermonde(x, n) == [k \in 1..(Len(x) * n) |-> Pow(x[((k - 1) \div n) + 1], (k - 1) % n)]
\* one regressor column x (length rows): rows x 2, first column ones
\* design matrix of k predictor columns stored one after the other (column-major), `r` observations: row i = <<1, x_1[i], ..., x_k[i]>>;
\* data that does not fill its columns is not a matrix (rejected)
DesignK(x, r) == LET k == Len(x) \div r IN
                 [q \in 1..(r * (k + 1)) |-> LET i == (q - 1) \div (k + 1)  j == (q - 1) % (k + 1) IN IF j = 0 THEN 1 ELSE x[(j - 1) * r + i + 1]]
Design1(x)   == [k \in 1..(2 * Len(x)) |-> IF (k - 1) % 2 = 0 THEN 1 ELSE x[((k - 1) \div 2) + 1]]

\* arange in eighths: all a + i*s < b, i = 0, 1, ...  (s > 0)
ArangeCount(a, b, s) == IF b <= a THEN 0 ELSE ((b - a - 1) \div s) + 1
Arange(a, b, s) == [i \in 1..ArangeCount(a, b, s) |-> a + (i - 1) * s]
\* the same with the stop value infinitesimally ABOVE b: a grid point equal to b now belongs to [a, stop)
ArangeCountAbove(a, b, s) == IF b < a THEN 0 ELSE ((b - a) \div s) + 1
ArangeAbove(a, b, s) == [i \in 1..ArangeCountAbove(a, b, s) |-> a + (i - 1) * s]
\* linspace(a, b, n), n >= 2, integers a, b: element i is the rational a + i (b - a)/(n - 1)
Linspace(a, b, n) == [i \in 1..n |-> [n |-> a * (n - 1) + (i - 1) * (b - a), d |-> n - 1]]

IsPerfectSquare(n) == \E k \in 1..n : k * k = n
Sqrt(n) == CHOOSE k \in 1..n : k * k = n

\* comparison of two reals x/8, y/8 with tolerance 1/2^tb: relative difference w.r.t. the smaller
\* magnitude; a zero operand makes it absolute; opposite non-zero signs are never close.
SameSign(x, y) == (x > 0 /\ y > 0) \/ (x < 0 /\ y < 0)
CloseTo(x, y, tb) == IF x = 0 THEN Abs(y) * Pow(2, tb) <= 8
                     ELSE IF y = 0 THEN Abs(x) * Pow(2, tb) <= 8
                     ELSE SameSign(x, y) /\ Abs(Abs(x) - Abs(y)) * Pow(2, tb) <= (IF Abs(x) < Abs(y) THEN Abs(x) ELSE Abs(y))

\* rotation patterns over the symbols 0, 1, c, s, ms (= -s); clockwise about X, Y, Z
RotCW(ax) == CASE ax = "X" -> <<"1", "0", "0", "0", "c", "s", "0", "ms", "c">>
               [] ax = "Y" -> <<"c", "0", "ms", "0", "1", "0", "s", "0", "c">>
               [] ax = "Z" -> <<"c", "s", "0", "ms", "c", "0", "0", "0", "1">>
TransposeSyms(p) == [k \in 1..9 |-> p[((k - 1) % 3) * 3 + ((k - 1) \div 3) + 1]]
RotCCW(ax) == TransposeSyms(RotCW(ax))

Upper(n) == {k \in 1..(n * n) : ((k - 1) \div n) < ((k - 1) % n)}
NearSymCases(n) ==
  {[call |-> "t_near_symmetric", n |-> n, x |-> [k \in 1..(n * n) |-> (((k - 1) \div n) + ((k - 1) % n)) % 4],
    bump |-> [k \in 1..(n * n) |-> IF k \in B THEN 1 ELSE 0], src |-> Transpose(Mat(n, n, [k \in 1..(n * n) |-> k])).data] :
       B \in {Upper(n)} \cup {{k} : k \in Upper(n)}}

IntVecs(n, lo, hi) == [1..n -> lo..hi]

Cases ==
     {[call |-> "eye", n |-> n, exp |-> Eye(n)] : n \in 1..6}
  \cup {[call |-> "zeros", r |-> r, c |-> c, exp |-> Fill(r, c, 0)] : r \in 1..4, c \in 1..4}
  \cup {[call |-> "ones", r |-> r, c |-> c, exp |-> Fill(r, c, 1)] : r \in 1..4, c \in 1..4}
  \cup {[call |-> "diag_matrix", x |-> [i \in 1..n |-> i + 1], exp |-> DiagMatrix([i \in 1..n |-> i + 1])] : n \in 1..5}
  \cup {[call |-> "toeplitz", x |-> [i \in 1..n |-> 2 * i - 1], exp |-> Toeplitz([i \in 1..n |-> 2 * i - 1])] : n \in 1..6}
  \cup {[call |-> "vandermonde", x |-> x, n |-> n, exp |-> Vandermonde(x, n)] :
           x \in {<<2>>, <<-1, 2>>, <<0, 1, -2>>, <<3, -3, 2, 1>>}, n \in 1..5}
  \cup {[call |-> "design", x |-> x, exp |-> Design1(x)] : x \in {<<5>>, <<2, 3>>, <<-1, 0, 4>>, <<7, 7, 7, 1>>}}
  \cup {[call |-> "design", r |-> r, x |-> [i \in 1..n |-> 3 * i - 7], panic |-> (n % r # 0),
         exp |-> IF n % r = 0 THEN DesignK([i \in 1..n |-> 3 * i - 7], r) ELSE <<>>] : n \in 1..9, r \in 1..4}
  \cup {[call |-> "arange", a |-> a, b |-> b, s |-> s, exp |-> Arange(a, b, s)] :
           a \in {-8, 0, 3}, b \in {-8, 0, 5, 8, 16, 19}, s \in {1, 2, 3, 8, 12}}
  \cup {[call |-> "arange", a |-> a, b |-> b, s |-> s, above |-> TRUE, exp |-> ArangeAbove(a, b, s)] :
           a \in {-8, 0, 3}, b \in {-8, 0, 3, 5, 8, 16, 19}, s \in {1, 2, 3, 8, 12}}
  \cup {[call |-> "linspace", a |-> a, b |-> b, n |-> n, exp |-> Linspace(a, b, n)] :
           a \in {-50, 0, 2}, b \in {-60, 4, 40}, n \in {2, 3, 6, 7, 60, 64}}
  \cup {[call |-> "is_square", len |-> n, exp |-> IF IsPerfectSquare(n) THEN Sqrt(n) ELSE -1] : n \in 1..50}
  \cup {[call |-> "is_matrix", len |-> n, r |-> r, exp |-> IF n % r = 0 THEN n \div r ELSE -1] : n \in 1..24, r \in 1..6}
  \cup {[call |-> "is_symmetric", n |-> 2, x |-> x, exp |-> (x[2] = x[3])] : x \in IntVecs(4, -1, 1)}
  \cup {[call |-> "is_symmetric", n |-> 3, x |-> <<1, a, b, c, 1, d, e, f, 1>>, exp |-> (a = c /\ b = e /\ d = f)] :
           a \in (-1)..1, b \in (-1)..1, c \in (-1)..1, d \in (-1)..1, e \in 0..1, f \in 0..1}
  \* transposition moves elements, whatever their values: matrices that are symmetric up to the last bit (mirrored entries one
  \* unit in the last place apart - the harness supplies the values; `bump` marks the raised positions) are transposed like any other;
  \* src[k] = position the k-th element of the result comes from
  \cup UNION {NearSymCases(n) : n \in 2..4}
  \cup {[call |-> "is_design", r |-> 3, x |-> <<a, 5, b, 6, c, 7>>, exp |-> (a = 1 /\ b = 1 /\ c = 1)] :
           a \in 0..2, b \in 0..2, c \in 0..2}
  \cup {[call |-> "close_to", x |-> x, y |-> y, tb |-> tb, exp |-> CloseTo(x, y, tb)] :
           x \in {-16, -8, -1, 0, 1, 8, 9, 16}, y \in {-16, -8, -1, 0, 1, 8, 9, 16}, tb \in {0, 1, 3, 4, 10}}
  \cup {[call |-> "eq", x |-> x, y |-> y, exp |-> (x = y)] : x \in {-8, 0, 8, 9}, y \in {-8, 0, 8, 9}}
  \* vectors of different length that agree on the common prefix are neither equal nor close (the empty vector included)
  \cup {[call |-> "len_mismatch", n |-> n, m |-> m, exp |-> (n = m)] : n \in 0..4, m \in 0..4}
  \cup {[call |-> "shape_mismatch", r |-> r, c |-> c, exp |-> FALSE] : r \in {1, 2, 3, 6}, c \in {1, 2, 3, 6}}
  \cup {[call |-> "rotation", axis |-> ax, k |-> k, cw |-> RotCW(ax), ccw |-> RotCCW(ax)] :
           ax \in {"X", "Y", "Z"}, k \in (-32)..32}

\* ---- spec-level sanity (P1): the defining patterns have the properties the statement names ----
Sane(c) ==
  CASE c.call = "eye" -> IsSym(c.exp) /\ Diag(c.exp) = [i \in 1..c.n |-> 1]
    [] c.call = "diag_matrix" -> LET n == Len(c.x) IN Diag(Mat(n, n, c.exp)) = c.x /\ IsSym(Mat(n, n, c.exp))
    [] c.call = "toeplitz" -> LET n == Len(c.x) IN IsSym(Mat(n, n, c.exp)) /\ Row(Mat(n, n, c.exp), 0) = c.x
    [] c.call = "vandermonde" -> \A i \in 1..Len(c.x) : c.exp[(i - 1) * c.n + 1] = 1
    [] c.call = "t_near_symmetric" -> /\ IsSym(Mat(c.n, c.n, c.x)) /\ \A k \in 1..(c.n * c.n) : c.src[c.src[k]] = k
                                      /\ \A k \in 1..(c.n * c.n) : c.bump[k] = 1 => ((k - 1) \div c.n) < ((k - 1) % c.n)
    [] c.call = "design" /\ "r" \in DOMAIN c -> c.panic \/ (LET k == Len(c.x) \div c.r IN Len(c.exp) = c.r * (k + 1) /\ \A i \in 1..c.r : c.exp[(i - 1) * (k + 1) + 1] = 1)
    [] c.call = "design" -> \A i \in 1..Len(c.x) : c.exp[2 * i - 1] = 1 /\ c.exp[2 * i] = c.x[i] /\ c.exp = DesignK(c.x, Len(c.x))
    [] c.call = "arange" /\ "above" \in DOMAIN c -> LET n == Len(c.exp) IN
          /\ (n > 0 => c.exp[1] = c.a /\ c.exp[n] <= c.b /\ c.exp[n] + c.s > c.b)
          /\ (n = 0 => c.b < c.a)
    [] c.call = "arange" -> LET n == Len(c.exp) IN
          /\ (n > 0 => c.exp[1] = c.a /\ c.exp[n] < c.b /\ c.exp[n] + c.s >= c.b)
          /\ (n = 0 => c.b <= c.a)
    [] c.call = "linspace" -> /\ c.exp[1].n = c.a * c.exp[1].d
                              /\ c.exp[c.n].n = c.b * c.exp[c.n].d     \* both end points included
    [] c.call = "close_to" -> /\ (c.exp => ~(c.x > 0 /\ c.y < 0) /\ ~(c.x < 0 /\ c.y > 0))
                              /\ (c.x = c.y => c.exp)
                              /\ c.exp = CloseTo(c.y, c.x, c.tb)            \* symmetric
    [] c.call = "rotation" -> TransposeSyms(c.cw) = c.ccw /\ TransposeSyms(c.ccw) = c.cw
    [] OTHER -> TRUE
=============================================================================
