SPECIFICATION Spec
CONSTANTS
  N = 5
  XMax = 6
INVARIANTS Inv_Increasing Inv_CodeIsSpec Inv_Knot Inv_Between Inv_ScaleInvariant Emit
CHECK_DEADLOCK FALSE
