------------------------------ MODULE Broadcast ------------------------------
\* Broadcast arithmetic between matrices (property C12).
\*   BSpec : the NumPy rule the property states.
\*   BCode : the classifier of linalg/array/broadcast.rs as written (leaves None / Hstack / Vstack /
\*           IsScalar / Invalid, the assertions, the operand swap) and the per-leaf loops with their
\*           operand order.
\* Matrices are [nrows, ncols, data] (Arrays); entries are integers; results of "div" are rationals.
EXTENDS Integers, Sequences, FiniteSets, Reals, Arrays

Ops == {"add", "sub", "mul", "div"}
\* scalar operation on integers, result as a rational
Sc(op, x, y) == CASE op = "add" -> R(x + y) [] op = "sub" -> R(x - y) [] op = "mul" -> R(x * y)
                  [] op = "div" -> Norm(x, y)

Max(a, b) == IF a >= b THEN a ELSE b
Compatible(l, r) == /\ (l.nrows = r.nrows \/ l.nrows = 1 \/ r.nrows = 1)
                    /\ (l.ncols = r.ncols \/ l.ncols = 1 \/ r.ncols = 1)

\* ------------------------------ the property ------------------------------
BSpec(op, l, r) ==
  IF ~Compatible(l, r) THEN [out |-> "panic"]
  ELSE LET nr == Max(l.nrows, r.nrows)  nc == Max(l.ncols, r.ncols) IN
       [out |-> "ok", nrows |-> nr, ncols |-> nc,
        data |-> [k \in 1..(nr * nc) |->
                    LET i == (k - 1) \div nc  j == (k - 1) % nc IN
                    Sc(op, At(l, IF l.nrows = 1 THEN 0 ELSE i, IF l.ncols = 1 THEN 0 ELSE j),
                           At(r, IF r.nrows = 1 THEN 0 ELSE i, IF r.ncols = 1 THEN 0 ELSE j))]]

\* ------------------------------ the code ------------------------------
\* calc_broadcast_shape: <<left leaf, right leaf>>; "AssertFail" = an assert! fired (a panic)
RECURSIVE Leaf(_, _, _, _)
Leaf(a1, b1, a2, b2) ==
  IF a1 = a2 /\ b1 = b2 THEN <<"None", "None">>
  ELSE IF a1 = 1 \/ b1 = 1 THEN
     IF a1 = 1 THEN
        IF ~(b1 = b2 \/ b2 = 1 \/ b1 = 1) THEN <<"AssertFail", "AssertFail">>
        ELSE IF b1 = b2 THEN <<"V", "None">> ELSE IF b2 = 1 THEN <<"V", "H">> ELSE <<"Scalar", "None">>
     ELSE
        IF ~(a1 = a2 \/ a2 = 1 \/ a1 = 1) THEN <<"AssertFail", "AssertFail">>
        ELSE IF a1 = a2 THEN <<"H", "None">> ELSE IF a2 = 1 THEN <<"H", "V">> ELSE <<"Scalar", "None">>
  ELSE IF a2 = 1 \/ b2 = 1 THEN LET s == Leaf(a2, b2, a1, b1) IN <<s[2], s[1]>>
  ELSE <<"Invalid", "Invalid">>

OkMat(nr, nc, f(_, _)) == [out |-> "ok", nrows |-> nr, ncols |-> nc,
                           data |-> [k \in 1..(nr * nc) |-> f((k - 1) \div nc, (k - 1) % nc)]]

BCode(op, l, r) ==
  LET lf == Leaf(l.nrows, l.ncols, r.nrows, r.ncols) IN
  CASE lf = <<"None", "None">> -> OkMat(l.nrows, l.ncols, LAMBDA i, j : Sc(op, At(l, i, j), At(r, i, j)))
    [] lf = <<"H", "None">>    -> OkMat(r.nrows, r.ncols, LAMBDA i, j : Sc(op, At(l, i, 0), At(r, i, j)))
    [] lf = <<"V", "None">>    -> OkMat(r.nrows, r.ncols, LAMBDA i, j : Sc(op, At(l, 0, j), At(r, i, j)))
    [] lf = <<"None", "H">>    -> OkMat(l.nrows, l.ncols, LAMBDA i, j : Sc(op, At(l, i, j), At(r, i, 0)))
    [] lf = <<"None", "V">>    -> OkMat(l.nrows, l.ncols, LAMBDA i, j : Sc(op, At(l, i, j), At(r, 0, j)))
    [] lf = <<"H", "V">>       -> OkMat(l.nrows, r.ncols, LAMBDA i, j : Sc(op, At(l, i, 0), At(r, 0, j)))
    [] lf = <<"V", "H">>       -> OkMat(r.nrows, l.ncols, LAMBDA i, j : Sc(op, At(l, 0, j), At(r, i, 0)))
    [] lf[1] = "Scalar"        -> OkMat(r.nrows, r.ncols, LAMBDA i, j : Sc(op, At(l, 0, 0), At(r, i, j)))
    [] lf[2] = "Scalar"        -> OkMat(l.nrows, l.ncols, LAMBDA i, j : Sc(op, At(l, i, j), At(r, 0, 0)))
    [] OTHER -> [out |-> "panic"]

\* operands with position-dependent distinct non-zero entries
LMat(r, c) == Mat(r, c, [k \in 1..(r * c) |-> 3 * k + 1])
RMat(r, c) == Mat(r, c, [k \in 1..(r * c) |-> 2 * k + 5])

LeafClass(l, r) == LET lf == Leaf(l.nrows, l.ncols, r.nrows, r.ncols) IN lf[1] \o "-" \o lf[2]
=============================================================================
