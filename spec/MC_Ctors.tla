------------------------------ MODULE MC_Ctors ------------------------------
EXTENDS Ctors, TLC, Json
VARIABLE c
Init == c \in Cases
Next == UNCHANGED c
Spec == Init /\ [][Next]_c
Inv_Sane == Sane(c)
Emit == PrintT(<<"CASE", ToJson(c)>>)
=============================================================================
