--------------------------- MODULE MC_Elementwise ---------------------------
\* C04: every length 0..NMax x operator x form (+ unary maps, reductions), exhaustive.
EXTENDS Elementwise, TLC, Json, SequencesExt
CONSTANT NMax
VARIABLE c
NSpecial == 12          \* size of the table of special values the harness supplies

Binary == {[fam |-> "binary", op |-> op, form |-> f, n |-> n, dr |-> dr] :
             op \in Ops, f \in Forms, n \in 0..NMax, dr \in {0 - 1, 0, 1}}
\* scalar operand of the scalar forms: NaN (index 4) and the identities / absorbing values of the four operators: +0, -0, +inf, 1, -1.5
Special == {[fam |-> "special", form |-> f, n |-> n, s |-> si] : f \in Forms, n \in 0..NMax, si \in {4, 0, 1, 2, 7, 8}}
Unary == {[fam |-> "unary", n |-> n] : n \in 0..NMax}
Reduce == {[fam |-> "reduce", n |-> n] : n \in 0..NMax}
Quarter == {[fam |-> "quarter", n |-> n] : n \in 0..NMax}
Init == c \in Binary \cup Special \cup Unary \cup Reduce \cup Quarter
Next == UNCHANGED c
Spec == Init /\ [][Next]_c

Valid == c.fam = "binary" => (c.n + c.dr >= 0 /\ (c.dr # 0 => NeedsEqualLen(c.form)))
Inv_Covered == CoveredOnce(c.n)
\* binary forms never mix positions: position i depends on l[i], r[i], s only (checked by perturbation)
Inv_Local == (c.fam = "binary" /\ c.dr = 0 /\ c.n >= 2) =>
   LET l == LVec(c.n)  r == RVec(c.n)  l2 == [l EXCEPT ![1] = 1000]
       a == Meaning(c.form, c.op, l, r, 7)  b == Meaning(c.form, c.op, l2, r, 7) IN
   \A i \in 2..c.n : a.v[i] = b.v[i]

\* the integer-valued maps on quarters: floor <= round <= ceil, round is within a half, a tie moves away from zero, round is odd
Inv_Rounding == c.fam = "quarter" => \A i \in 1..c.n : LET q == QVec(c.n)[i]  r == RoundQ(q) IN
   /\ FloorQ(q) <= r /\ r <= CeilQ(q) /\ CeilQ(q) - FloorQ(q) = (IF q % 4 = 0 THEN 0 ELSE 1)
   /\ AbsI(4 * r - q) <= 2 /\ (AbsI(4 * r - q) = 2 => 4 * AbsI(r) > AbsI(q))
   /\ RoundQ(0 - q) = 0 - r /\ FloorQ(0 - q) = 0 - CeilQ(q)

SIdxL(n) == [i \in 1..n |-> (5 * i + 8) % NSpecial]          \* every table entry appears as a left operand from n = 12 on (-0.0 first)
SIdxR(n) == [i \in 1..n |-> (7 * i + 2) % NSpecial]
\* reduction data: small integers with both signs; products stay small
RedX(n) == [i \in 1..n |-> ((i * 5) % 7) - 3]
RedY(n) == [i \in 1..n |-> ((i * 3) % 5) - 1]
PrdX(n) == [i \in 1..n |-> IF i % 5 = 0 THEN 2 ELSE IF i % 3 = 0 THEN 0 - 1 ELSE 1]

Out ==
  CASE c.fam = "binary" ->
         LET l == LVec(c.n)  r == RVec(c.n + c.dr)  m == Meaning(c.form, c.op, l, r, 7) IN
         [fam |-> "binary", op |-> c.op, form |-> c.form, n |-> c.n, l |-> l, r |-> r, s |-> 7,
          shapes |-> IF c.n = 0 THEN <<>> ELSE SetToSeq(Factorizations(c.n)),
          exp |-> RSeqJ(m.v), panic |-> m.panic]
    [] c.fam = "special" ->
         [fam |-> "special", form |-> c.form, n |-> c.n, l |-> SIdxL(c.n), r |-> SIdxR(c.n), s |-> c.s,
          exp |-> MeaningIdx(c.form, SIdxL(c.n), SIdxR(c.n), c.s).v]
    [] c.fam = "unary" -> [fam |-> "unary", n |-> c.n, x |-> SIdxL(c.n),
                           shapes |-> IF c.n = 0 THEN <<>> ELSE SetToSeq(Factorizations(c.n))]
    [] c.fam = "quarter" ->
         LET q == QVec(c.n) IN
         [fam |-> "quarter", n |-> c.n, q |-> q, floor |-> [i \in 1..c.n |-> FloorQ(q[i])], ceil |-> [i \in 1..c.n |-> CeilQ(q[i])],
          round |-> [i \in 1..c.n |-> RoundQ(q[i])], signum |-> [i \in 1..c.n |-> SignQ(q[i])], abs4 |-> [i \in 1..c.n |-> AbsI(q[i])],
          shapes |-> IF c.n = 0 THEN <<>> ELSE SetToSeq(Factorizations(c.n))]
    [] c.fam = "reduce" ->
         LET x == RedX(c.n)  y == RedY(c.n)  p == PrdX(c.n) IN
         [fam |-> "reduce", n |-> c.n, x |-> x, y |-> y, p |-> p,
          sum |-> SumS(x), prod |-> ProdS(p), dot |-> DotS(x, y), sumsq |-> DotS(x, x),
          shapes |-> IF c.n = 0 THEN <<>> ELSE SetToSeq(Factorizations(c.n)),
          infnorms |-> IF c.n = 0 THEN <<>> ELSE [k \in 1..Cardinality(Factorizations(c.n)) |->
                          InfNorm(x, SetToSeq(Factorizations(c.n))[k][1])]]
Emit == Valid => PrintT(<<"CASE", ToJson(Out)>>)
=============================================================================
