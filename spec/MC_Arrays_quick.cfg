SPECIFICATION Spec
CONSTANTS
  K = 3
  MaxSize = 12
  MaxDepth = 2
VIEW View
INVARIANTS Inv_WF Inv_Ref Inv_Post Emit
CHECK_DEADLOCK FALSE
