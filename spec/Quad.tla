-------------------------------- MODULE Quad --------------------------------
\* Quadrature (property C07) on polynomials with integer coefficients, exact rational arithmetic.
\* A polynomial is its coefficient sequence <<c0, c1, ..., cd>>.
\*   Exact       : the integral from the antiderivative
\*   TrapzCode   : trapz() as written: dx (sum_{k=1}^{n-1} f(a + k dx) + (f(b) + f(a)) / 2)
\*   RombergCode : romberg() as written: first column by interval halving, Richardson columns with factors
\*                 4^m - 1, the stopping rule on successive diagonal entries (relative or absolute below eps)
\*   SampledCode : trapezoid() on samples with abscissae or constant spacing
EXTENDS Integers, Sequences, FiniteSets, Reals, TLC

RECURSIVE Horner(_, _, _)
Horner(c, x, k) == IF k > Len(c) THEN RZ ELSE RAdd(R(c[k]), RMul(x, Horner(c, x, k + 1)))
Eval(c, x) == Horner(c, x, 1)
Exact(c, a, b) == RSum([k \in 1..Len(c) |-> RMul(Norm(c[k], k), RSub(RPow(b, k), RPow(a, k)))])
Degree(c) == Len(c) - 1

TrapzCode(c, a, b, n) ==
  LET dx == RDiv(RSub(b, a), R(n)) IN
  RMul(dx, RAdd(RSum([k \in 1..(n - 1) |-> Eval(c, RAdd(a, RMul(R(k), dx)))]),
                RDiv(RAdd(Eval(c, b), Eval(c, a)), R(2))))
\* the crate as first read (regression witness): the sum started at k = 0
TrapzCodeDoubleEnd(c, a, b, n) ==
  LET dx == RDiv(RSub(b, a), R(n)) IN
  RMul(dx, RAdd(RSum([k \in 1..n |-> Eval(c, RAdd(a, RMul(R(k - 1), dx)))]),
                RDiv(RAdd(Eval(c, b), Eval(c, a)), R(2))))

\* error bound of the composite trapezoid rule for a monomial x^d on [a, b]: (b-a) h^2 / 12 max|f''|
MaxAbs(a, b) == RMax(RAbsR(a), RAbsR(b))
TrapzBound(d, a, b, n) == IF d < 2 THEN RZ ELSE
  LET h == RDiv(RSub(b, a), R(n)) IN
  RAbsR(RMul(RMul(RSub(b, a), RSq(h)), RMul(Norm(d * (d - 1), 12), RPow(MaxAbs(a, b), d - 2))))

\* ------------------------------ Romberg ------------------------------
Pow2(k) == LET RECURSIVE P(_) P(j) == IF j = 0 THEN 1 ELSE 2 * P(j - 1) IN P(k)
Pow4(k) == Pow2(2 * k)
RelDiff(x, y) == IF RIsZero(x) THEN RAbsR(y) ELSE IF RIsZero(y) THEN RAbsR(x)
                 ELSE RDiv(RAbsR(RSub(RAbsR(x), RAbsR(y))), RMin(RAbsR(x), RAbsR(y)))
\* first column: R[n][0], n = 0..nmax-1 (1-based sequence)
RECURSIVE FirstCol(_, _, _, _, _)
FirstCol(c, a, b, nmax, col) ==
  LET n == Len(col) IN
  IF n >= nmax THEN col
  ELSE LET hn == RDiv(RSub(b, a), R(Pow2(n)))
           s == RSum([k \in 1..Pow2(n - 1) |-> Eval(c, RAdd(a, RMul(R(2 * k - 1), hn)))])
       IN FirstCol(c, a, b, nmax, TLCEval(Append(col, RAdd(RMul(<<1, 2>>, col[n]), RMul(hn, s)))))
\* row n (0-based) of the tableau from the previous row: r[m] for m = 0..n
RECURSIVE RowFrom(_, _, _, _)
RowFrom(prev, first, m, acc) ==      \* acc holds r[n][0..m-1]
  IF m > Len(prev) THEN acc
  ELSE LET v == RAdd(acc[m], RDiv(RSub(acc[m], prev[m]), R(Pow4(m) - 1))) IN RowFrom(prev, first, m + 1, TLCEval(Append(acc, v)))
\* returns [v |-> value, level |-> n at which it stopped, margin_ok |-> no comparison was borderline]
RECURSIVE RombergFrom(_, _, _, _, _, _)
RombergFrom(col, eps, nmax, n, prev, ok) ==
  IF n >= nmax THEN [v |-> prev[Len(prev)], level |-> nmax - 1, margin_ok |-> ok]
  ELSE LET row == TLCEval(RowFrom(prev, col[n + 1], 1, <<col[n + 1]>>))
           d1 == RelDiff(row[n + 1], prev[n])  d2 == RAbsR(RSub(row[n + 1], prev[n]))
           stop == n > 1 /\ (RLt(d1, eps) \/ RLt(d2, eps))
           clear(d) == RLt(RMul(R(4), d), eps) \/ RLt(RMul(R(4), eps), d) \/ RIsZero(eps)
       IN IF stop THEN [v |-> row[n + 1], level |-> n, margin_ok |-> ok /\ (clear(d1) \/ clear(d2))]
          ELSE RombergFrom(col, eps, nmax, n + 1, row, ok /\ (n <= 1 \/ (clear(d1) /\ clear(d2))))
RombergCode(c, a, b, eps, nmax) ==
  LET col == FirstCol(c, a, b, nmax, <<RMul(RDiv(RSub(b, a), R(2)), RAdd(Eval(c, a), Eval(c, b)))>>) IN
  RombergFrom(col, eps, nmax, 1, <<col[1]>>, TRUE)

\* ------------------------------ samples ------------------------------
SampledCode(y, dxs) == RSum([i \in 1..(Len(y) - 1) |-> RMul(RDiv(RAdd(y[i + 1], y[i]), R(2)), dxs[i])])
=============================================================================
