------------------------------ MODULE Samplers ------------------------------
\* Control flow of the rejection / iteration samplers (property C03): the loops that can fail to terminate
\* or leave the support.  Uniform and normal draws are nondeterministic; a numeric guard is abstracted to
\* "satisfiable in this parameter regime".  Termination is checked under strong fairness of the accepting
\* steps (an accepting outcome that is possible infinitely often is eventually drawn).
\*
\*   gamma    : shape < 1 -> boost (one Gamma(shape + 1) draw times U^(1/shape)); shape >= 1 -> Marsaglia-Tsang:
\*              inner loop until v = (1 + x / sqrt(9 d))^3 > 0, outer loop until squeeze / log test accepts
\*   poisson  : rate < 10 multiplication loop; rate >= 10 transformed rejection (PTRS)
\*   binomial : shortcuts (n = 0, p = 0, p = 1), flip p > 1/2, inversion (n p <= 30) or BTPE, un-flip
EXTENDS Integers, TLC

CONSTANT Regimes      \* the sampler / parameter regimes to explore (one behaviour family per regime)
VARIABLES Regime, pc, boosted, flipped, val
vars == <<Regime, pc, boosted, flipped, val>>
Keep == Regime' = Regime

GammaRegimes == {"gamma_lt1", "gamma_ge1", "gamma_lt_third_unboosted"}   \* the last one: the crate as first read
Init == /\ Regime \in Regimes /\ pc = "start" /\ boosted = FALSE /\ flipped = FALSE /\ val = "none"

\* ---- gamma ----
\* d = shape - 1/3 > 0 is what makes v > 0 satisfiable; without the boost a shape below 1/3 has d < 0 (sqrt of a
\* negative number: v is NaN and the inner test never succeeds)
VPositiveSatisfiable == Regime # "gamma_lt_third_unboosted"
GStart == /\ pc = "start" /\ Regime \in GammaRegimes
          /\ IF Regime = "gamma_lt1" /\ ~boosted THEN boosted' = TRUE /\ pc' = "inner"      \* recursive draw with shape + 1 >= 1
             ELSE boosted' = boosted /\ pc' = "inner"
          /\ UNCHANGED <<flipped, val>>
GInnerReject == pc = "inner" /\ pc' = "inner" /\ UNCHANGED <<boosted, flipped, val>>
GInnerAccept == pc = "inner" /\ VPositiveSatisfiable /\ pc' = "outer" /\ UNCHANGED <<boosted, flipped, val>>
GOuterReject == pc = "outer" /\ pc' = "inner" /\ UNCHANGED <<boosted, flipped, val>>
GOuterAccept == pc = "outer" /\ pc' = "done" /\ val' = "positive" /\ UNCHANGED <<boosted, flipped>>   \* d v / rate (times U^(1/shape) if boosted)

\* ---- poisson ----
PStart == pc = "start" /\ Regime \in {"poisson_lt10", "poisson_ge10"}
          /\ pc' = (IF Regime = "poisson_lt10" THEN "mult" ELSE "ptrs") /\ UNCHANGED <<boosted, flipped, val>>
PMultMore == pc = "mult" /\ pc' = "mult" /\ UNCHANGED <<boosted, flipped, val>>                 \* product still above exp(-rate)
PMultStop == pc = "mult" /\ pc' = "done" /\ val' = "count" /\ UNCHANGED <<boosted, flipped>>
PPtrsRetry == pc = "ptrs" /\ pc' = "ptrs" /\ UNCHANGED <<boosted, flipped, val>>                 \* k < 0, corner, or log test fails
PPtrsAccept == pc = "ptrs" /\ pc' = "done" /\ val' = "count" /\ UNCHANGED <<boosted, flipped>>

\* ---- binomial ----
BRegimes == {"binom_n0_or_p0", "binom_p1", "binom_small", "binom_small_flip", "binom_btpe", "binom_btpe_flip"}
BStart == /\ pc = "start" /\ Regime \in BRegimes
          /\ CASE Regime = "binom_n0_or_p0" -> pc' = "done" /\ val' = "zero" /\ flipped' = FALSE
               [] Regime = "binom_p1" -> pc' = "done" /\ val' = "n" /\ flipped' = FALSE
               [] Regime \in {"binom_small", "binom_small_flip"} -> pc' = "inv" /\ val' = val /\ flipped' = (Regime = "binom_small_flip")
               [] OTHER -> pc' = "btpe" /\ val' = val /\ flipped' = (Regime = "binom_btpe_flip")
          /\ UNCHANGED boosted
BInvMore == pc = "inv" /\ pc' = "inv" /\ UNCHANGED <<boosted, flipped, val>>
BInvStop == pc = "inv" /\ pc' = "unflip" /\ val' = "in0..n" /\ UNCHANGED <<boosted, flipped>>
BBtpeRetry == pc = "btpe" /\ pc' = "btpe" /\ UNCHANGED <<boosted, flipped, val>>
BBtpeAccept == pc = "btpe" /\ pc' = "unflip" /\ val' = "in0..n" /\ UNCHANGED <<boosted, flipped>>
BUnflip == pc = "unflip" /\ pc' = "done" /\ UNCHANGED <<boosted, flipped, val>>                 \* n - res when flipped: still in 0..n

Accepts == GInnerAccept \/ GOuterAccept \/ PMultStop \/ PPtrsAccept \/ BInvStop \/ BBtpeAccept
Next == /\ Keep
        /\ \/ GStart \/ GInnerReject \/ GInnerAccept \/ GOuterReject \/ GOuterAccept
           \/ PStart \/ PMultMore \/ PMultStop \/ PPtrsRetry \/ PPtrsAccept
           \/ BStart \/ BInvMore \/ BInvStop \/ BBtpeRetry \/ BBtpeAccept \/ BUnflip
Spec == Init /\ [][Next]_vars /\ WF_vars(Next)
             /\ SF_vars(GInnerAccept /\ Keep) /\ SF_vars(GOuterAccept /\ Keep) /\ SF_vars(PMultStop /\ Keep)
             /\ SF_vars(PPtrsAccept /\ Keep) /\ SF_vars(BInvStop /\ Keep) /\ SF_vars(BBtpeAccept /\ Keep)
Terminates == <>(pc = "done")
Inv_Range == pc = "done" => val \in {"positive", "count", "zero", "n", "in0..n"}
=============================================================================
