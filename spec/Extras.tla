------------------------------- MODULE Extras -------------------------------
\* Behaviour of compute outside the 20 listed properties that the specification has absorbed so far (DESIGN 11):
\* Vector::sort / sorted / diff, serde round trip of Vector / Matrix, MVN::new argument validation, the
\* has_dispersion table of the exponential families, Display of a fitted AR model (coefficients un-reversed).
\* Checked by `bin/check X01` (not registered in MANIFEST.json: it decides none of the listed properties).
EXTENDS Integers, Sequences, FiniteSets, Arrays

RECURSIVE InsertSorted(_, _)
InsertSorted(s, v) == IF s = <<>> THEN <<v>> ELSE IF v <= s[1] THEN <<v>> \o s ELSE <<s[1]>> \o InsertSorted(Tail(s), v)
RECURSIVE SortSpec(_)
SortSpec(x) == IF x = <<>> THEN <<>> ELSE InsertSorted(SortSpec(Tail(x)), x[1])
IsSorted(s) == \A i \in 1..(Len(s) - 1) : s[i] <= s[i + 1]
SameMultiset(a, b) == Len(a) = Len(b) /\ \A v \in {a[i] : i \in 1..Len(a)} \cup {b[i] : i \in 1..Len(b)} :
                         Cardinality({i \in 1..Len(a) : a[i] = v}) = Cardinality({i \in 1..Len(b) : b[i] = v})
DiffSpec(x) == [i \in 1..(Len(x) - 1) |-> x[i + 1] - x[i]]
HasDispersionSpec(f) == f \in {"Gaussian", "QuasiPoisson", "Gamma"}
\* MVN::new(mean, cov) is accepted iff cov is square, symmetric and as wide as the mean (Cholesky needs it positive definite)
MvnArgsOk(meanLen, cov) == cov.nrows = cov.ncols /\ IsSym(cov) /\ meanLen = cov.ncols
=============================================================================
