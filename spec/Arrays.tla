------------------------------- MODULE Arrays -------------------------------
(***************************************************************************)
(* The Matrix object of compute::linalg as a state machine (property C15). *)
(*                                                                         *)
(* A matrix is the record [nrows, ncols, data] with data a row-major       *)
(* sequence.  Every public structural call is one *action record*          *)
(*     [op |-> name, a |-> <<integer arguments>>]                          *)
(* and Apply(m, act) is its complete meaning: the outcome (ok or panic),    *)
(* the matrix held afterwards and the value returned.  Indices in action   *)
(* arguments are 0-based, exactly as in the Rust API.                      *)
(*                                                                         *)
(* Two layers (DESIGN 1, D3):                                              *)
(*   - the flat layer (Apply) is written like the implementation: index    *)
(*     arithmetic on one flat sequence;                                    *)
(*   - the reference layer (Ref..) is the property's own plain row-major     *)
(*     reference model: a sequence of rows.   Inv_Ref states that both     *)
(*     agree, Inv_WF states the element-count invariant.                   *)
(***************************************************************************)
EXTENDS Integers, Sequences, FiniteSets

Mat(r, c, d) == [nrows |-> r, ncols |-> c, data |-> d]
Size(m)      == m.nrows * m.ncols
WF(m)        == /\ m.nrows >= 1 /\ m.ncols >= 1
                /\ Len(m.data) = m.nrows * m.ncols
At(m, i, j)  == m.data[i * m.ncols + j + 1]                 \* 0-based (i, j)
Min(a, b)    == IF a <= b THEN a ELSE b

(* The shape that a reshape request (r, c) denotes for n elements; <<>> = reject. *)
ShapeReq(n, r, c) ==
  IF r > 0 /\ c > 0 THEN (IF r * c = n THEN <<r, c>> ELSE <<>>)
  ELSE IF r = -1 /\ c > 0 THEN (IF n % c = 0 /\ n \div c >= 1 THEN <<n \div c, c>> ELSE <<>>)
  ELSE IF c = -1 /\ r > 0 THEN (IF n % r = 0 /\ n \div r >= 1 THEN <<r, n \div r>> ELSE <<>>)
  ELSE <<>>                                                  \* 0, < -1, both -1

Transpose(m) == Mat(m.ncols, m.nrows,
                    [k \in 1..Size(m) |-> At(m, (k - 1) % m.nrows, (k - 1) \div m.nrows)])

HCat(m, o) == LET w == m.ncols + o.ncols IN
              Mat(m.nrows, w, [k \in 1..(m.nrows * w) |->
                    LET i == (k - 1) \div w  j == (k - 1) % w IN
                    IF j < m.ncols THEN At(m, i, j) ELSE At(o, i, j - m.ncols)])
VCat(m, o) == Mat(m.nrows + o.nrows, m.ncols, m.data \o o.data)
HRepeat(m, n) == LET w == m.ncols * n IN
              Mat(m.nrows, w, [k \in 1..(m.nrows * w) |-> At(m, (k - 1) \div w, ((k - 1) % w) % m.ncols)])
VRepeat(m, n) == Mat(m.nrows * n, m.ncols, [k \in 1..(Size(m) * n) |-> m.data[((k - 1) % Size(m)) + 1]])

Row(m, i) == [j \in 1..m.ncols |-> At(m, i, j - 1)]
Col(m, j) == [i \in 1..m.nrows |-> At(m, i - 1, j)]
Diag(m)   == [i \in 1..Min(m.nrows, m.ncols) |-> At(m, i - 1, i - 1)]

F(f, x) == IF f = 1 THEN x + 1 ELSE 2 * x                     \* the two closures used by drivers

SumSeq(s) == LET RECURSIVE S(_) S(k) == IF k = 0 THEN 0 ELSE s[k] + S(k - 1) IN S(Len(s))
\* first position (0-based) holding the smallest / largest value
ArgMinSeq(s) == CHOOSE k \in 0..(Len(s) - 1) : /\ \A q \in 1..Len(s) : s[k + 1] <= s[q]
                                               /\ \A q \in 1..k : s[q] > s[k + 1]
ArgMaxSeq(s) == CHOOSE k \in 0..(Len(s) - 1) : /\ \A q \in 1..Len(s) : s[k + 1] >= s[q]
                                               /\ \A q \in 1..k : s[q] < s[k + 1]

\* operand used by hcat / vcat: shape (r, c), entries 101, 102, ...
Operand(r, c) == Mat(r, c, [k \in 1..(r * c) |-> 100 + k])

None      == [t |-> "none"]
RNum(x)   == [t |-> "num", v |-> x]
RBool(b)  == [t |-> "bool", v |-> b]
RSeq(s)   == [t |-> "seq", v |-> s]
RPair(a, b) == [t |-> "seq", v |-> <<a, b>>]
Ok(m2, ret) == [out |-> "ok", m |-> m2, ret |-> ret]
Panic(m)    == [out |-> "panic", m |-> m, ret |-> None]

IsSym(m)   == m.nrows = m.ncols /\ \A i \in 0..(m.nrows - 1), j \in 0..(m.ncols - 1) : At(m, i, j) = At(m, j, i)
IsUpper(m) == \A i \in 0..(m.nrows - 1), j \in 0..(m.ncols - 1) : j < i => At(m, i, j) = 0
IsLower(m) == \A i \in 0..(m.nrows - 1), j \in 0..(m.ncols - 1) : j > i => At(m, i, j) = 0

Apply(m, act) ==
  LET op == act.op  a == act.a  n == Size(m) IN
  CASE op = "reshape_mut" ->
         LET s == ShapeReq(n, a[1], a[2]) IN
         IF s = <<>> THEN Panic(m) ELSE Ok(Mat(s[1], s[2], m.data), None)
    [] op = "reshape" ->                                      \* m := m.reshape(r, c)
         LET s == ShapeReq(n, a[1], a[2]) IN
         IF s = <<>> THEN Panic(m) ELSE Ok(Mat(s[1], s[2], m.data), None)
    [] op = "vec_reshape" ->                                  \* m := Vector(m.data).reshape(r, c)
         LET s == ShapeReq(n, a[1], a[2]) IN
         IF s = <<>> THEN Panic(m) ELSE Ok(Mat(s[1], s[2], m.data), None)
    [] op = "vec_to_matrix" -> Ok(Mat(1, n, m.data), None)    \* m := Vector(m.data).to_matrix()
    [] op = "t_mut" -> Ok(Transpose(m), None)
    [] op = "t"     -> Ok(Transpose(m), None)                 \* m := m.t()
    [] op = "hcat"  -> IF a[1] # m.nrows THEN Panic(m) ELSE Ok(HCat(m, Operand(a[1], a[2])), None)
    [] op = "vcat"  -> IF a[2] # m.ncols THEN Panic(m) ELSE Ok(VCat(m, Operand(a[1], a[2])), None)
    [] op = "hrepeat" -> Ok(HRepeat(m, a[1]), None)
    [] op = "vrepeat" -> Ok(VRepeat(m, a[1]), None)
    [] op = "neg"   -> Ok(Mat(m.nrows, m.ncols, [k \in 1..n |-> 0 - m.data[k]]), None)
    [] op = "apply_row" ->
         IF a[1] >= m.nrows THEN Panic(m)
         ELSE Ok(Mat(m.nrows, m.ncols, [k \in 1..n |-> IF (k - 1) \div m.ncols = a[1]
                                                        THEN F(a[2], m.data[k]) ELSE m.data[k]]), None)
    [] op = "apply_col" ->
         IF a[1] >= m.ncols THEN Panic(m)
         ELSE Ok(Mat(m.nrows, m.ncols, [k \in 1..n |-> IF (k - 1) % m.ncols = a[1]
                                                        THEN F(a[2], m.data[k]) ELSE m.data[k]]), None)
    [] op = "flat_replace" ->
         IF a[1] >= n THEN Panic(m) ELSE Ok(Mat(m.nrows, m.ncols, [m.data EXCEPT ![a[1] + 1] = a[2]]), None)
    [] op = "set_idx" ->
         IF a[1] >= m.nrows \/ a[2] >= m.ncols THEN Panic(m)
         ELSE Ok(Mat(m.nrows, m.ncols, [m.data EXCEPT ![a[1] * m.ncols + a[2] + 1] = a[3]]), None)
    \* ---------------- observers: state unchanged, value returned ----------------
    [] op = "get_row"  -> IF a[1] >= m.nrows THEN Panic(m) ELSE Ok(m, RSeq(Row(m, a[1])))
    [] op = "row"      -> IF a[1] >= m.nrows THEN Panic(m) ELSE Ok(m, RSeq(Row(m, a[1])))
    [] op = "get_col"  -> IF a[1] >= m.ncols THEN Panic(m) ELSE Ok(m, RSeq(Col(m, a[1])))
    [] op = "flat_idx" -> IF a[1] >= n THEN Panic(m) ELSE Ok(m, RNum(m.data[a[1] + 1]))
    [] op = "idx"      -> IF a[1] >= m.nrows \/ a[2] >= m.ncols THEN Panic(m) ELSE Ok(m, RNum(At(m, a[1], a[2])))
    [] op = "diag"     -> Ok(m, RSeq(Diag(m)))
    [] op = "to_vec"   -> Ok(m, RSeq(m.data))
    [] op = "shape"    -> Ok(m, RPair(m.nrows, m.ncols))
    [] op = "size"     -> Ok(m, RNum(n))
    [] op = "is_square" -> Ok(m, RBool(m.nrows = m.ncols))
    [] op = "is_symmetric" -> Ok(m, RBool(IsSym(m)))
    [] op = "is_upper" -> Ok(m, RBool(IsUpper(m)))
    [] op = "is_lower" -> Ok(m, RBool(IsLower(m)))
    [] op = "r2c"      -> Ok(m, RSeq(Transpose(m).data))      \* row_to_col_major(data, nrows)
    [] op = "c2r"      ->                                     \* col_to_row_major(data, nrows): data read as column-major
         Ok(m, RSeq([k \in 1..n |-> m.data[((k - 1) % m.ncols) * m.nrows + ((k - 1) \div m.ncols) + 1]]))
    [] op = "transpose_slice" -> Ok(m, RSeq(Transpose(m).data))
    [] op = "sum_rows" -> Ok(m, RSeq([i \in 1..m.nrows |-> SumSeq(Row(m, i - 1))]))
    [] op = "sum_cols" -> Ok(m, RSeq([j \in 1..m.ncols |-> SumSeq(Col(m, j - 1))]))
    [] op = "argmin"   -> LET k == ArgMinSeq(m.data) IN Ok(m, RPair(k \div m.ncols, k % m.ncols))
    [] op = "argmax"   -> LET k == ArgMaxSeq(m.data) IN Ok(m, RPair(k \div m.ncols, k % m.ncols))
    [] op = "rows_iter" -> Ok(m, [t |-> "rows", v |-> [i \in 1..m.nrows |-> Row(m, i - 1)]])

MutOps == {"reshape_mut", "reshape", "vec_reshape", "vec_to_matrix", "t_mut", "t", "hcat", "vcat",
           "hrepeat", "vrepeat", "neg", "apply_row", "apply_col", "flat_replace", "set_idx"}

(* All actions offered in state m for dimension bound K: every argument value in range and just
   outside it (one past the end; 0, -1, -2 for shape requests). *)
Acts(m, K) ==
  LET n == Size(m)  Dims == (-2)..(K + 1) IN
     {[op |-> o, a |-> <<r, c>>] : o \in {"reshape_mut", "reshape", "vec_reshape"}, r \in Dims, c \in Dims}
  \cup {[op |-> o, a |-> <<>>] : o \in {"vec_to_matrix", "t_mut", "t", "neg", "diag", "to_vec", "shape", "size",
          "is_square", "is_symmetric", "is_upper", "is_lower", "r2c", "c2r", "transpose_slice",
          "sum_rows", "sum_cols", "argmin", "argmax", "rows_iter"}}
  \cup {[op |-> o, a |-> <<r, c>>] : o \in {"hcat", "vcat"}, r \in 1..3, c \in 1..3}
  \cup {[op |-> o, a |-> <<k>>] : o \in {"hrepeat", "vrepeat"}, k \in 1..3}
  \cup {[op |-> "apply_row", a |-> <<i, f>>] : i \in 0..m.nrows, f \in 1..2}
  \cup {[op |-> "apply_col", a |-> <<j, f>>] : j \in 0..m.ncols, f \in 1..2}
  \cup {[op |-> "flat_replace", a |-> <<k, 50>>] : k \in 0..n}
  \cup {[op |-> "set_idx", a |-> <<i, j, 60>>] : i \in 0..m.nrows, j \in 0..m.ncols}
  \cup {[op |-> o, a |-> <<i>>] : o \in {"get_row", "row"}, i \in 0..m.nrows}
  \cup {[op |-> "get_col", a |-> <<j>>] : j \in 0..m.ncols}
  \cup {[op |-> "flat_idx", a |-> <<k>>] : k \in 0..n}
  \cup {[op |-> "idx", a |-> <<i, j>>] : i \in 0..m.nrows, j \in 0..m.ncols}

(***************************************************************************)
(* Reference layer: a matrix as a sequence of rows (the Vec<Vec<f64>> model *)
(* the property statement names).                                          *)
(***************************************************************************)
RowsOf(m)   == [i \in 1..m.nrows |-> Row(m, i - 1)]
Flatten(rs) == LET RECURSIVE Fl(_) Fl(k) == IF k = 0 THEN <<>> ELSE Fl(k - 1) \o rs[k] IN Fl(Len(rs))
Chunk(d, r, c) == [i \in 1..r |-> [j \in 1..c |-> d[(i - 1) * c + j]]]
RefT(rs)       == [j \in 1..Len(rs[1]) |-> [i \in 1..Len(rs) |-> rs[i][j]]]
RefHCat(rs, os) == [i \in 1..Len(rs) |-> rs[i] \o os[i]]
RefVCat(rs, os) == rs \o os
RefHRep(rs, n) == [i \in 1..Len(rs) |-> LET RECURSIVE Rp(_) Rp(k) == IF k = 0 THEN <<>> ELSE Rp(k - 1) \o rs[i] IN Rp(n)]
RefVRep(rs, n) == LET RECURSIVE Rp(_) Rp(k) == IF k = 0 THEN <<>> ELSE Rp(k - 1) \o rs IN Rp(n)

RefAgrees(m, act) ==
  LET r == Apply(m, act)  rs == RowsOf(m)  a == act.a IN
  r.out = "ok" =>
    CASE act.op \in {"reshape_mut", "reshape", "vec_reshape"} ->
            RowsOf(r.m) = Chunk(Flatten(rs), r.m.nrows, r.m.ncols) /\ r.m.nrows * r.m.ncols = Size(m)
      [] act.op \in {"t", "t_mut"} -> RowsOf(r.m) = RefT(rs)
      [] act.op = "hcat" -> RowsOf(r.m) = RefHCat(rs, RowsOf(Operand(a[1], a[2])))
      [] act.op = "vcat" -> RowsOf(r.m) = RefVCat(rs, RowsOf(Operand(a[1], a[2])))
      [] act.op = "hrepeat" -> RowsOf(r.m) = RefHRep(rs, a[1])
      [] act.op = "vrepeat" -> RowsOf(r.m) = RefVRep(rs, a[1])
      [] act.op = "get_col" -> r.ret.v = [i \in 1..Len(rs) |-> rs[i][a[1] + 1]]
      [] act.op = "get_row" -> r.ret.v = rs[a[1] + 1]
      [] act.op = "diag" -> r.ret.v = [i \in 1..Min(Len(rs), Len(rs[1])) |-> rs[i][i]]
      [] act.op \in {"r2c", "transpose_slice"} -> r.ret.v = Flatten(RefT(rs))
      [] act.op = "c2r" -> \* reading data as column-major with nrows rows and writing it row-major
            LET cm == [i \in 1..m.nrows |-> [j \in 1..m.ncols |-> m.data[(j - 1) * m.nrows + i]]] IN r.ret.v = Flatten(cm)
      [] act.op = "idx" -> r.ret.v = rs[a[1] + 1][a[2] + 1]
      [] OTHER -> TRUE
=============================================================================
