SPECIFICATION Spec
INVARIANT Inv_WF
POSTCONDITION Accepted
CHECK_DEADLOCK FALSE
