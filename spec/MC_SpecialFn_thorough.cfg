SPECIFICATION Spec
INVARIANTS Inv_FactRec Inv_Harm Emit
CHECK_DEADLOCK FALSE
