-------------------------- MODULE Trace_TimeSeries --------------------------
\* P3 for C13 (observations on simulated stationary series, orders 1..8, offsets 0 / 50 / 1e6):
\*   yw            max residual of the Yule-Walker equations at the fitted coefficients, in units of machine
\*                 epsilon (log2), and deviation of the intercept from the series mean
\*   forecast_obs  deviation from shift equivariance over 20 steps and distance of the 1000-step forecast from the
\*                 mean, both relative to the spread of the series (log2)
\* Bounds: residual <= 2^20 eps (2^30 eps at offset 1e6, where centring itself costs eps * 1e6 / spread),
\* intercept within 2^10 eps, shift deviation and convergence distance <= 2^-20.
\* Measured maxima on the unchanged tree: 2^7 (2^17), 2^4, 2^-34, 2^-30.
EXTENDS Integers, Sequences, TLC, Json, IOUtils
Rec == ndJsonDeserialize(IOEnv.TRACE)
VARIABLE l
Init == l = 1
Step(ev) == /\ ev.out = "ok"
            /\ CASE ev.kind = "yw" -> /\ ev.resid_eps_log2 <= (IF ev.offset_class = 2 THEN 30 ELSE 20)
                                      /\ ev.intercept_dev_eps_log2 <= 10
                 [] ev.kind = "forecast_obs" -> ev.finite = TRUE /\ ev.shift_dev_log2 <= -20 /\ ev.conv_dev_log2 <= -20
                 \* a fitted object forecasts from the history it is handed (another history of the training length included), exactly
                 \* like an object that only holds the same coefficients and intercept (PredictSpec has no other argument)
                 [] ev.kind = "forecast_history" -> ev.same = TRUE
Next == l <= Len(Rec) /\ Step(Rec[l]) /\ l' = l + 1
Spec == Init /\ [][Next]_l
Accepted == LET d == TLCGet("stats").diameter IN
            IF d - 1 = Len(Rec) THEN TRUE ELSE PrintT("REJECTED at " \o ToString(d)) /\ FALSE
=============================================================================
