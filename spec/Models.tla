------------------------------- MODULE Models -------------------------------
\* Life cycle of the fitted-model and optimizer objects: GLM, PolynomialRegressor, AR, Adam, SGD, LM.
\*
\* Abstract state of one object:
\*   kind    which type it is
\*   cfg     its configuration, as the codes of the last values handed to constructor / setters
\*             GLM  <<family, penalty, tolerance, weights, offsets>>     Poly <<number of coefficients>>
\*             AR   <<order>>     Adam <<step size>>     SGD <<step size, momentum, nesterov>>     LM <<preset>>
\*   src     where the current coefficients come from: <<"none">>, <<"set", v>> (handed in by the caller) or
\*           <<"fit", key>> (stored by a fit; key names every input of that fit)
\*   fitkey  the key of the last fit that stored its results (<<>> if none)
\* A fit key is <<kind, cfg at the time of the call, data set, budget>>.
\*
\* Laws (checked on recorded sessions, Trace part below):
\*   L1  fitting is a function of the key: whatever the object went through before (other fits, other settings,
\*       coefficients handed in, clones taken), the outcome and everything observable afterwards are those of a
\*       fresh object configured the same way and fitted once - no warm start, no stale cache, no leftover tape;
\*   L2  what the accessors show is a function of (kind, cfg, src, fitkey) - in particular a clone shows what its
\*       original shows, and setters change only their own field;
\*   L3  predictions are a function of (kind, prediction-relevant cfg, src, fitkey, points);
\*   L4  GLM accessors answer Err exactly as long as nothing is stored: coef() needs src # none, deviance /
\*       dispersion / covariance / standard errors / aic / bic need a stored fit; a fit that panics (bad weight
\*       or offset length) stores nothing; a fit that reports non-convergence does store its last iterate
\*       (deliberate transcription of the code: Err after the stores);
\*   L5  optimizers are stateless between calls: optimize() is a function of (cfg, problem, start, budget).
EXTENDS Integers, Sequences, FiniteSets, TLC

Kinds == {"GLM", "Poly", "AR", "Adam", "SGD", "LM"}
Stateful(k) == k \in {"GLM", "Poly", "AR"}
NoSrc == <<"none">>
Obj(k, c) == [kind |-> k, cfg |-> c, src |-> NoSrc, fitkey |-> <<>>]

\* constructor validation transcribed from the code: AR::new asserts p > 0
ValidNew(k, c) == IF k = "AR" THEN c[1] > 0 ELSE TRUE

\* GLM configuration codes with a wrong length (weights / offsets code 9) make fit panic before anything is stored
GlmBadLen(o) == o.kind = "GLM" /\ (o.cfg[4] = 9 \/ o.cfg[5] = 9)

FitKey(o, data, arg) == <<o.kind, o.cfg, data, arg>>
ObsKey(o)            == <<"obs", o.kind, o.cfg, o.src, o.fitkey>>
PredCfg(o)           == IF o.kind = "GLM" THEN <<o.cfg[1], o.cfg[5]>> ELSE o.cfg     \* GLM: family and offsets; AR / Poly: order / length
PredKey(o, x, n)     == <<"pred", o.kind, PredCfg(o), o.src, o.fitkey, x, n>>

\* successor of a setter: field i of the configuration takes code v; i = 0 hands in coefficients
SetCfg(o, i, v) == IF i = 0 THEN [o EXCEPT !.src = <<"set", v>>]
                   ELSE IF o.kind = "Poly" THEN [o EXCEPT !.src = <<"set", v>>]       \* unreachable: Poly has no cfg setter
                   ELSE [o EXCEPT !.cfg[i] = v]
\* Poly: the number of coefficients IS the configuration (fit uses coef.len()); handing in a vector of length n sets it
SetCoef(o, v, n) == IF o.kind = "Poly" THEN [o EXCEPT !.src = <<"set", v>>, !.cfg = <<n>>]
                    ELSE [o EXCEPT !.src = <<"set", v>>]

\* successor of a fit that did not panic
Fitted(o, key) == IF Stateful(o.kind) THEN [o EXCEPT !.src = <<"fit", key>>, !.fitkey = key] ELSE o

\* L4: status vector <<coef, deviance, dispersion, covariance, std error, aic, bic>> of a GLM
GlmStatus(o) == LET c == o.src # NoSrc   f == o.fitkey # <<>> IN <<c, f, f, f, f, f, f>>

\* ---- bounded design model: programs over a small alphabet, checking the laws' shape (vacuity control) ----
\* (the recorded sessions are checked by Trace_Models; here TLC explores every program of Depth calls on one
\*  GLM object over two data sets and verifies the invariants of the abstract state)
CONSTANTS Depth
VARIABLES o, n
vars == <<o, n>>
Init == o = Obj("GLM", <<1, 0, 5, 0, 0>>) /\ n = 0
Step == /\ n < Depth /\ n' = n + 1
        /\ \/ \E i \in 2..5, v \in {0, 1, 9} : (i \in {2, 3} => v # 9) /\ o' = SetCfg(o, i, v)
           \/ \E v \in 1..2 : o' = SetCoef(o, v, 2)
           \/ \E d \in 1..2, a \in {1, 50} : o' = IF GlmBadLen(o) THEN o ELSE Fitted(o, FitKey(o, d, a))
Spec == Init /\ [][Step]_vars
\* a stored fit was made under a configuration without length errors, and coefficients from a fit name that fit
Inv_Stored == /\ o.fitkey # <<>> => o.fitkey[2][4] # 9 /\ o.fitkey[2][5] # 9
              /\ o.src[1] = "fit" => o.src[2] = o.fitkey
\* L4 shape: deviance-type accessors can answer only after a stored fit; coef() may answer earlier
Inv_Status == LET s == GlmStatus(o) IN (s[2] => s[1]) /\ (s[2] <=> o.fitkey # <<>>)
=============================================================================
