SPECIFICATION Spec
CONSTANTS
  Regimes = {"gamma_lt1", "gamma_ge1", "poisson_lt10", "poisson_ge10", "binom_n0_or_p0", "binom_p1", "binom_small", "binom_small_flip", "binom_btpe", "binom_btpe_flip"}
INVARIANT Inv_Range
PROPERTY Terminates
CHECK_DEADLOCK FALSE
