SPECIFICATION Spec
INVARIANTS Inv_Sane Emit
CHECK_DEADLOCK FALSE
