------------------------------ MODULE Families ------------------------------
\* The exponential families of compute::predict::glms (ExponentialFamily) as tables over exact rationals: variance
\* function, derivative of the inverse link (as a function of the mean), deviance where it is rational, the starting
\* values offered to the scoring iteration, the dispersion convention.  Used by GLM.tla's narrative; checked on its own
\* by `bin/check X04` (unregistered: it decides none of the listed properties, it pins the building blocks of C06).
EXTENDS Integers, Sequences, FiniteSets, Reals

Fams == {"Gaussian", "Bernoulli", "QuasiPoisson", "Poisson", "Gamma", "Exponential"}
LogLink(f) == f \in {"QuasiPoisson", "Poisson", "Gamma", "Exponential"}
\* domain of the mean
MeanOk(f, mu) == CASE f = "Gaussian" -> TRUE [] f = "Bernoulli" -> RLt(RZ, mu) /\ RLt(mu, ROne) [] OTHER -> RLt(RZ, mu)

Variance(f, mu) == CASE f = "Gaussian" -> ROne
                     [] f = "Bernoulli" -> RMul(mu, RSub(ROne, mu))
                     [] f \in {"QuasiPoisson", "Poisson"} -> mu
                     [] OTHER -> RMul(mu, mu)
\* d mu / d eta expressed through mu: identity link 1, logit link mu (1 - mu), log link mu
DInvLink(f, mu) == CASE f = "Gaussian" -> ROne
                     [] f = "Bernoulli" -> RMul(mu, RSub(ROne, mu))
                     [] OTHER -> mu
\* working weight of one observation in the information matrix: (d mu / d eta)^2 / Var(mu)
WorkingWeight(f, mu) == RDiv(RSq(DInvLink(f, mu)), Variance(f, mu))
\* canonical links (identity, logit, log for Poisson): working weight = variance; log link on Gamma / Exponential: 1
Canonical(f) == f \in {"Gaussian", "Bernoulli", "QuasiPoisson", "Poisson"}

HasDispersion(f) == f \in {"Gaussian", "QuasiPoisson", "Gamma"}

\* deviance on points where it is rational
RECURSIVE SumR(_)
SumR(s) == IF s = <<>> THEN RZ ELSE RAdd(s[1], SumR(Tail(s)))
GaussianDeviance(y, mu) == SumR([i \in 1..Len(y) |-> RSq(RSub(y[i], mu[i]))])
\* Poisson: 2 sum (mu - y - y ln mu + y ln y): rational when every y is 0 or equals its mean
PoissonDevianceSimple(y, mu) == RMul(R(2), SumR([i \in 1..Len(y) |-> IF RIsZero(y[i]) THEN mu[i] ELSE RZ]))   \* y_i in {0, mu_i}
\* Gamma / Exponential: 2 sum ((y - mu)/mu - ln(y/mu)) vanishes at y = mu
\* Bernoulli: -2 sum (y ln mu + (1 - y) ln(1 - mu)); at mu = 1/2 every observation contributes 2 ln 2

\* starting values offered by the family (None for the log-link families): working response and weights
HasInitial(f) == f \in {"Gaussian", "Bernoulli"}
InitialResponse(f, y) == IF f = "Gaussian" THEN y ELSE [i \in 1..Len(y) |-> RSub(RMul(R(4), y[i]), R(2))]        \* (y - 1/2) / (1/4)
InitialWeights(f, n) == IF f = "Gaussian" THEN [i \in 1..n |-> Norm(1, n)] ELSE [i \in 1..n |-> Norm(1, 4 * n)]
=============================================================================
