----------------------------- MODULE Trace_Stats -----------------------------
\* P3 for C08: statistics recorded from the real code on random integer vectors must equal the
\* definitions: res = <<mean, welford_mean, var, sample_var, cov, sample_cov, onepass, online, min, max,
\* argmin, argmax>>, each a rationalised observation [p, q, e] with e <= -36.
EXTENDS Stats, Json, IOUtils
Rec == ndJsonDeserialize(IOEnv.TRACE)
VARIABLE l
Init == l = 1
Is(o, r) == o.q > 0 /\ o.e <= -36 /\ Norm(o.p, o.q) = r
\* shift_ok: variance and the covariances (all algorithms) of the same data moved to 2^20 and to +-1e8 agree with the values at
\* the origin within 2^-40 (spread^2 + spread |offset|) - VarSpec(Shift(x, c)) = VarSpec(x) is Inv_Laws of MC_Stats
Step(ev) == /\ ev.out = "ok" /\ ev.shift_ok = TRUE
            /\ LET x == ev.x  y == ev.y  r == ev.res IN
               /\ Is(r[1], MeanSpec(x)) /\ Is(r[2], MeanSpec(x))
               /\ Is(r[3], VarSpec(x)) /\ Is(r[4], SampleVarSpec(x))
               /\ Is(r[5], CovSpec(x, y)) /\ Is(r[6], SampleCovSpec(x, y))
               /\ Is(r[7], SampleCovSpec(x, y)) /\ Is(r[8], SampleCovSpec(x, y))       \* the alternative algorithms agree
               /\ Is(r[9], R(MinSpec(x))) /\ Is(r[10], R(MaxSpec(x)))
               /\ Is(r[11], R(ArgMinSpec(x))) /\ Is(r[12], R(ArgMaxSpec(x)))
Next == l <= Len(Rec) /\ Step(Rec[l]) /\ l' = l + 1
Spec == Init /\ [][Next]_l
Accepted == LET d == TLCGet("stats").diameter IN
            IF d - 1 = Len(Rec) THEN TRUE ELSE PrintT("REJECTED at " \o ToString(d)) /\ FALSE
=============================================================================
