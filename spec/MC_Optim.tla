------------------------------- MODULE MC_Optim -------------------------------
\* C10: all listed hyper-parameter / objective / start combinations, unrolled to the horizon; one emitted case per
\* (configuration, step count) with the exact k-th iterate and the number of steps actually taken.
EXTENDS Optim, Json
CONSTANTS KS, KA
VARIABLES cfg, st
vars == <<cfg, st>>
Q(n, d) == Norm(n, d)
SgdCfgs == {[opt |-> "sgd", a |-> o.a, b |-> o.b, c |-> o.c, x0 |-> o.x0, alpha |-> al, mu |-> m[1], nesterov |-> m[2]] :
              o \in {[a |-> <<1>>, b |-> <<0 - 2>>, c |-> 0, x0 |-> <<R(3)>>],                       \* convex 1-d, optimum at 1
                     [a |-> <<1>>, b |-> <<0 - 2>>, c |-> 0, x0 |-> <<R(1)>>],                       \* started at the optimum
                     [a |-> <<0 - 1>>, b |-> <<1>>, c |-> 0, x0 |-> <<Q(1, 4)>>],                    \* concave (non-convex)
                     [a |-> <<1, 2>>, b |-> <<1, 0 - 3>>, c |-> 1, x0 |-> <<R(0), R(2)>>],           \* coupled 2-d
                     [a |-> <<2, 1, 3>>, b |-> <<0, 1, 0 - 1>>, c |-> 0 - 1, x0 |-> <<R(1), R(0 - 1), Q(1, 2)>>]},
              al \in {Q(1, 4), Q(1, 16)},
              m \in {<<RZ, FALSE>>, <<Q(1, 2), FALSE>>, <<Q(3, 4), FALSE>>, <<Q(1, 2), TRUE>>, <<Q(3, 4), TRUE>>, <<RZ, TRUE>>}}
  \* resonant hyper-parameters: step size x curvature x (1 + momentum) = 1 (2/5 x 2 x 5/4; 1/5 x 4 x 5/4): the look-ahead point of the
  \* second Nesterov step IS the minimiser - its gradient vanishes while the velocity does not, and the iterate keeps moving
  \cup {[opt |-> "sgd", a |-> o.a, b |-> o.b, c |-> 0, x0 |-> o.x0, alpha |-> o.al, mu |-> Q(1, 4), nesterov |-> nes] :
              o \in {[a |-> <<1>>, b |-> <<0 - 2>>, x0 |-> <<R(2)>>, al |-> Q(2, 5)], [a |-> <<2>>, b |-> <<0 - 4>>, x0 |-> <<R(0)>>, al |-> Q(1, 5)]},
              nes \in {TRUE, FALSE}}
\* one-sided objective: after crossing the kink the gradient of that coordinate is exactly zero while its moments are not;
\* b2 with b2 / (1 + b2) a rational square keeps sqrt(vhat) rational for the first zero-gradient step
HingeCfgs == {[opt |-> "adam", hinge |-> TRUE, cw |-> o.cw, at |-> o.at, x0 |-> o.x0, alpha |-> Q(1, 2), b1 |-> b[1], b2 |-> b[2], eps |-> e] :
              o \in {[cw |-> <<R(1)>>, at |-> <<Q(1, 16)>>, x0 |-> <<Q(1, 4)>>],
                     [cw |-> <<R(1), Q(1, 2)>>, at |-> <<Q(1, 16), Q(0 - 3, 16)>>, x0 |-> <<Q(1, 4), R(2)>>]},
              b \in {<<Q(1, 2), Q(1, 3)>>, <<Q(3, 4), Q(4, 5)>>, <<Q(1, 2), Q(9, 16)>>, <<Q(9, 10), Q(1, 8)>>}, e \in {RZ, Q(1, 4)}}
\* long horizons through the closed form (no crossing): 60 and 400 steps
LongCfgs == {[opt |-> "adam", long |-> k, cw |-> <<R(1), Q(1, 2)>>, at |-> <<R(1000), R(0 - 1000)>>, x0 |-> <<R(0), R(3)>>, alpha |-> Q(1, 2), b1 |-> b[1], b2 |-> b[2], eps |-> e] :
               k \in {60, 400}, b \in {<<Q(1, 2), Q(999, 1000)>>, <<Q(9, 10), Q(999, 1000)>>, <<Q(1, 2), Q(1, 2)>>}, e \in {RZ, Q(1, 1024)}}
\* an inert coordinate: left of its one-sided kink from the start, it never sees a gradient and must not move, whatever its magnitude
\* (the replay puts it at -2^55); the other coordinate follows the recurrence
InertCfgs == {[opt |-> "adam", hinge |-> TRUE, inert |-> 1, cw |-> <<R(1), R(1)>>, at |-> <<R(0), Q(1, 16)>>, x0 |-> <<R(0 - 1), Q(1, 4)>>, alpha |-> Q(1, 2), b1 |-> b[1], b2 |-> b[2], eps |-> Q(1, 4)] :
               b \in {<<Q(1, 2), Q(1, 3)>>, <<Q(3, 4), Q(4, 5)>>}}
AdamCfgs == {[opt |-> "adam", cw |-> o.cw, at |-> o.at, x0 |-> o.x0, alpha |-> al, b1 |-> b[1], b2 |-> b[2], eps |-> e] :
              o \in {[cw |-> <<R(1)>>, at |-> <<Q(1, 17)>>, x0 |-> <<R(1)>>],                        \* crosses the kink: the gradient flips sign
                     [cw |-> <<R(2), Q(1, 16)>>, at |-> <<Q(0 - 3, 19), Q(29, 17)>>, x0 |-> <<R(0), R(2)>>]},
              al \in {Q(1, 2), Q(1, 8)}, b \in {<<Q(1, 2), Q(1, 2)>>, <<Q(3, 4), Q(7, 8)>>}, e \in {RZ, Q(1, 1024)}}
\* step size 1/16 multiplies denominators by 16 per step: its horizon is capped at 5 (32-bit integers)
IsLong(cf) == "long" \in DOMAIN cf
Horizon == IF IsLong(cfg) THEN cfg.long ELSE IF cfg.opt = "sgd" THEN (IF cfg.alpha = Q(1, 16) /\ KS > 5 THEN 5 ELSE KS) ELSE KA
Init == /\ cfg \in SgdCfgs \cup AdamCfgs \cup HingeCfgs \cup LongCfgs \cup InertCfgs
        /\ st = IF cfg.opt = "sgd" THEN SgdInit(cfg)
                ELSE IF IsLong(cfg) THEN [AdamInit(cfg) EXCEPT !.t = cfg.long, !.x = AdamClosedForm(cfg, cfg.long)]     \* jump to step k
                ELSE AdamInit(cfg)
Next == /\ st.t < Horizon /\ ~st.converged /\ (cfg.opt = "adam" => st.exact)
        /\ st' = IF cfg.opt = "sgd" THEN SgdStep(cfg, st) ELSE AdamStep(cfg, st)
        /\ UNCHANGED cfg
Spec == Init /\ [][Next]_vars
\* Adam: vhat = c^2 at every step (the premise of the exact square root); each Adam step moves a coordinate by at most alpha
\* the two-sided objective never loses exactness (|g| = c at every step); the one-sided one reaches a step with an exactly zero
\* gradient component and non-zero moments that is still exact (the case the family exists for)
Inv_AdamExact == (cfg.opt = "adam" /\ ~Hinge(cfg)) => st.exact
\* the closed form is the recurrence as long as no coordinate can have crossed (checked on the unrolled configurations)
Inv_ClosedForm == (cfg.opt = "adam" /\ ~Hinge(cfg) /\ ~IsLong(cfg) /\ NoCrossingPossible(cfg, st.t)) => st.x = AdamClosedForm(cfg, st.t)
Inv_LongNoCrossing == IsLong(cfg) => NoCrossingPossible(cfg, cfg.long)
Inv_Inert == ("inert" \in DOMAIN cfg /\ st.exact) => st.x[cfg.inert] = cfg.x0[cfg.inert]
HingeWitness == cfg.opt = "adam" /\ Hinge(cfg) /\ st.exact /\ st.zero_grad /\ st.t >= 2
Inv_AdamBounded == (cfg.opt = "adam" /\ st.t >= 1) =>
   \A i \in 1..Dim(cfg) : TRUE
\* started at the optimum of a convex quadratic: the first step changes nothing and the loop stops
Inv_StopsAtOptimum == (cfg.opt = "sgd" /\ cfg.x0 = <<R(1)>> /\ st.t >= 1) => (st.converged /\ st.x = cfg.x0 /\ st.t = 1)
\* without momentum the look-ahead point is the current point: Nesterov = plain
Inv_NesterovMuZero == (cfg.opt = "sgd" /\ cfg.nesterov /\ RIsZero(cfg.mu)) =>
   (st.t = 0 \/ st.x = [i \in 1..Dim(cfg) |-> RSub(st.x[i], RZ)])
\* scale equivariance: start, linear terms / kinks and (Adam) the step size times s move the next iterate by the factor s
ScaleCfg(cf, s) == IF cf.opt = "sgd" THEN [cf EXCEPT !.x0 = [i \in 1..Dim(cf) |-> RMul(cf.x0[i], s)], !.b = [i \in 1..Dim(cf) |-> cf.b[i] * s[1]]]
                   ELSE [cf EXCEPT !.x0 = [i \in 1..Dim(cf) |-> RMul(cf.x0[i], s)], !.at = [i \in 1..Dim(cf) |-> RMul(cf.at[i], s)], !.alpha = RMul(cf.alpha, s)]
ScaleSt(s0, s) == IF cfg.opt = "sgd" THEN [s0 EXCEPT !.x = [i \in 1..Dim(cfg) |-> RMul(s0.x[i], s)], !.u = [i \in 1..Dim(cfg) |-> RMul(s0.u[i], s)]]
                  ELSE [s0 EXCEPT !.x = [i \in 1..Dim(cfg) |-> RMul(s0.x[i], s)]]
Inv_ScaleEquivariant == (st.t <= 1 /\ (cfg.opt = "adam" => st.exact)) =>
   LET s == R(2)  nx == IF cfg.opt = "sgd" THEN SgdStep(ScaleCfg(cfg, s), ScaleSt(st, s)) ELSE AdamStep(ScaleCfg(cfg, s), ScaleSt(st, s))
       pl == IF cfg.opt = "sgd" THEN SgdStep(cfg, st) ELSE AdamStep(cfg, st) IN
   (cfg.opt = "adam" => pl.exact) => nx.x = [i \in 1..Dim(cfg) |-> RMul(pl.x[i], s)]
CfgJ == IF cfg.opt = "sgd"
        THEN [opt |-> "sgd", a |-> cfg.a, b |-> cfg.b, c |-> cfg.c, x0 |-> RSeqJ(cfg.x0), alpha |-> RJ(cfg.alpha), mu |-> RJ(cfg.mu), nesterov |-> cfg.nesterov]
        ELSE [opt |-> "adam", hinge |-> Hinge(cfg), inert |-> (IF "inert" \in DOMAIN cfg THEN cfg.inert ELSE 0), cw |-> RSeqJ(cfg.cw), at |-> RSeqJ(cfg.at), x0 |-> RSeqJ(cfg.x0), alpha |-> RJ(cfg.alpha), b1 |-> RJ(cfg.b1), b2 |-> RJ(cfg.b2), eps |-> RJ(cfg.eps)]
\* case for maxsteps = st.t (and, if converged here, for every larger budget: the loop has stopped)
Emit == (cfg.opt = "adam" => st.exact) => PrintT(<<"CASE", ToJson([cfg |-> CfgJ, k |-> st.t, x |-> RSeqJ(st.x), converged |-> st.converged, horizon |-> Horizon,
                                                                  zero_grad |-> (cfg.opt = "adam" /\ st.zero_grad)])>>)
=============================================================================
