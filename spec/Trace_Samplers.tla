--------------------------- MODULE Trace_Samplers ---------------------------
\* P3 for C03: one event per (law, parameter point, seed): n draws taken from the real sampler.  Acceptance:
\* the sampler returned (no panic, no timeout), exactly n draws / the requested matrix shape, every draw in the
\* support (integer-valued for discrete laws), the same seed reproduces the stream, and the empirical counts
\* cnt[j] = #{x <= t_j} at the thresholds of the reference table stay within the Dvoretzky-Kiefer-Wolfowitz band
\* (alpha = 1e-12) of n F(t_j): |cnt_j - nF_j| <= ceil(n eps) + 1 + ceil(n 1e-6).
EXTENDS Resample, TLC, Json, IOUtils
Rec == ndJsonDeserialize(IOEnv.TRACE)
VARIABLE l
Init == l = 1
AbsI(a) == IF a < 0 THEN 0 - a ELSE a
Band(n) == DkwBound(n) + 2 + (n \div 1000000)
Step(ev) == /\ ev.out = "ok"
            /\ ev.count_ok = TRUE /\ ev.shape_ok = TRUE /\ ev.support_ok = TRUE /\ ev.integer_ok = TRUE /\ ev.repro_ok = TRUE
            /\ Len(ev.cnt) = Len(ev.nF)
            /\ \A j \in 1..Len(ev.cnt) : AbsI(ev.cnt[j] - ev.nF[j]) <= Band(ev.n)
Next == l <= Len(Rec) /\ Step(Rec[l]) /\ l' = l + 1
Spec == Init /\ [][Next]_l
Accepted == LET d == TLCGet("stats").diameter IN
            IF d - 1 = Len(Rec) THEN TRUE ELSE PrintT("REJECTED at " \o ToString(d)) /\ FALSE
=============================================================================
