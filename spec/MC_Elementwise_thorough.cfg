SPECIFICATION Spec
CONSTANTS
  NMax = 40
INVARIANTS Inv_Covered Inv_Local Emit
CHECK_DEADLOCK FALSE
