SPECIFICATION Spec
CONSTANTS
  NMax = 40
INVARIANTS Inv_Covered Inv_Local Inv_Rounding Emit
CHECK_DEADLOCK FALSE
