SPECIFICATION Spec
CONSTANTS
  N = 3
  XMax = 4
INVARIANTS Inv_Increasing Inv_CodeIsSpec Inv_Knot Inv_Between Inv_ScaleInvariant Emit
CHECK_DEADLOCK FALSE
