------------------------------ MODULE MC_Linalg ------------------------------
\* P1 for C11/C01 over every integer matrix of order NN with entries in -Mag..Mag, and structured
\* families of order 4 (permutation matrices, L0 L0^T, symmetric indefinite with positive diagonal).
\* Every state is also emitted as an input case (with the exact solution for nonsingular A).
EXTENDS Linalg, TLC, Json
CONSTANTS NN, Mag, Fam4
VARIABLE A

Entries == (0 - Mag)..Mag
AllMats == [1..NN -> [1..NN -> Entries]]
Perms4 == {p \in [1..4 -> 1..4] : {p[i] : i \in 1..4} = 1..4}
PermMat(p) == [i \in 1..4 |-> [j \in 1..4 |-> IF p[i] = j THEN 1 ELSE 0]]
\* integer lower-triangular factors with positive diagonal -> SPD products
L0s == {[i \in 1..3 |-> [j \in 1..3 |-> IF j > i THEN 0 ELSE IF i = j THEN d[i] ELSE o[i + j - 2]]] :
          d \in [1..3 -> 1..2], o \in [1..3 -> (0 - 1)..1]}
LLt(L) == [i \in 1..3 |-> [j \in 1..3 |-> L[i][1] * L[j][1] + L[i][2] * L[j][2] + L[i][3] * L[j][3]]]
\* every symmetric matrix of order 4 with unit diagonal and off-diagonal entries in -1..1 (729: positive diagonal, so the
\* solvers try Cholesky first; definite, indefinite with negative, zero and 0/0 pivots, singular), and with diagonal 2
\* and off-diagonal entries in 0..1 (64: positive definite ones with zeros that fill in during factorisation)
SymOf(d, o) == [i \in 1..4 |-> [j \in 1..4 |-> IF i = j THEN d ELSE
                   LET a == IF i < j THEN i ELSE j   b == IF i < j THEN j ELSE i IN o[(a - 1) * 4 + b - (a * (a + 1)) \div 2]]]
Sym4 == {SymOf(1, o) : o \in [1..6 -> (0 - 1)..1]} \cup {SymOf(2, o) : o \in [1..6 -> 0..1]}
Fam == IF Fam4 THEN {PermMat(p) : p \in Perms4} \cup {LLt(L) : L \in L0s} \cup Sym4 ELSE {}

Init == A \in AllMats \cup Fam
Next == UNCHANGED A
Spec == Init /\ [][Next]_A

AR == TLCEval(IntToRat(A))
F  == TLCEval(LUCode(AR))
Inv_LUCertificate == LUCertificate(AR, F.lu, F.piv)
Inv_Parity        == ParityCode(F.piv) = Sign(F.piv)
Inv_Det           == DetCode(AR) = Det(AR)
\* routing to Cholesky happens exactly for the symmetric positive definite matrices
Inv_Route         == (Route(AR) = "chol") <=> IsPD(AR)
\* solving through the code-shaped pipeline yields the exact solution
BB == [i \in 1..N(A) |-> <<R(i), R(2 - i)>>]                         \* two right-hand sides, not symmetric
Inv_Solve == Nonsingular(AR) => MatMul(AR, SolveMat(AR, BB)) = BB
\* homogeneity: (s A) X' = t B has X' = (t / s) X (the replay uses it with powers of two at extreme magnitudes)
ScaleMat(M, f) == [i \in 1..Len(M) |-> [j \in 1..Len(M[i]) |-> RMul(M[i][j], f)]]
Inv_SolveHomogeneous == (Nonsingular(AR) /\ N(A) <= 3) => SolveMat(ScaleMat(AR, R(2)), ScaleMat(BB, R(3))) = ScaleMat(SolveMat(AR, BB), <<3, 2>>)
Inv_Inverse == Nonsingular(AR) => MatMul(AR, SolveMat(AR, IdentR(N(A)))) = IdentR(N(A))

Flat(M) == LET RECURSIVE Fl(_) Fl(k) == IF k = 0 THEN <<>> ELSE Fl(k - 1) \o M[k] IN Fl(Len(M))
Class == IF ~Nonsingular(AR) THEN "singular"
         ELSE IF IsPD(AR) THEN "spd"
         ELSE IF IsSymmetric(AR) /\ PositiveDiagonal(AR) THEN "sym-indefinite-posdiag"
         ELSE IF IsSymmetric(AR) THEN "symmetric"
         ELSE IF RIsZero(AR[1][1]) THEN "zero-leading-pivot" ELSE "general"
Emit == PrintT(<<"CASE", ToJson([n |-> N(A), a |-> Flat(A), cls |-> Class, route |-> Route(AR),
                                 det |-> RJ(Det(AR)),
                                 b |-> Flat([i \in 1..N(A) |-> <<i, 2 - i>>]),
                                 x |-> IF Nonsingular(AR) THEN RSeqJ(Flat(SolveMat(AR, BB))) ELSE <<>>,
                                 inv |-> IF Nonsingular(AR) THEN RSeqJ(Flat(SolveMat(AR, IdentR(N(A))))) ELSE <<>>])>>)
=============================================================================
