SPECIFICATION Spec
CONSTANTS
  NMax = 17
INVARIANTS Inv_Covered Inv_Local Inv_Rounding Emit
CHECK_DEADLOCK FALSE
