SPECIFICATION Spec
CONSTANTS
  NMax = 17
INVARIANTS Inv_Covered Inv_Local Emit
CHECK_DEADLOCK FALSE
