---------------------------- MODULE MC_Broadcast ----------------------------
EXTENDS Broadcast, TLC, Json
CONSTANT K
VARIABLE c
Init == \E a1 \in 1..K, b1 \in 1..K, a2 \in 1..K, b2 \in 1..K, op \in Ops : c = [op |-> op, l |-> <<a1, b1>>, r |-> <<a2, b2>>]
Next == UNCHANGED c
Spec == Init /\ [][Next]_c
L == LMat(c.l[1], c.l[2])
Rm == RMat(c.r[1], c.r[2])
Inv_CodeIsSpec == BCode(c.op, L, Rm) = BSpec(c.op, L, Rm)
Expect == LET s == BSpec(c.op, L, Rm) IN
          IF s.out = "panic" THEN [out |-> "panic"]
          ELSE [out |-> "ok", nrows |-> s.nrows, ncols |-> s.ncols, data |-> RSeqJ(s.data)]
Emit == PrintT(<<"CASE", ToJson([op |-> c.op, l |-> L, r |-> Rm, cls |-> LeafClass(L, Rm), exp |-> Expect])>>)
=============================================================================
