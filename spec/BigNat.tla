------------------------------- MODULE BigNat -------------------------------
\* Natural numbers beyond 32 bits: little-endian sequences of base-10^4 limbs (TLC integers are 32-bit).
EXTENDS Integers, Sequences, TLC
Base == 10000
BZero == <<>>
BOfSmall(n) == LET RECURSIVE F(_) F(m) == IF m = 0 THEN <<>> ELSE <<m % Base>> \o F(m \div Base) IN F(n)   \* 0 <= n < 2^31
Limb(a, i) == IF i <= Len(a) THEN a[i] ELSE 0
Trim(a) == LET RECURSIVE T(_) T(s) == IF s # <<>> /\ s[Len(s)] = 0 THEN T(SubSeq(s, 1, Len(s) - 1)) ELSE s IN T(a)
RECURSIVE AddFrom(_, _, _, _)
AddFrom(a, b, i, carry) ==
  IF i > Len(a) /\ i > Len(b) THEN (IF carry = 0 THEN <<>> ELSE <<carry>>)
  ELSE LET s == Limb(a, i) + Limb(b, i) + carry IN <<s % Base>> \o AddFrom(a, b, i + 1, s \div Base)
BAdd(a, b) == AddFrom(a, b, 1, 0)
\* multiplication by a small factor m (m * Base must stay below 2^31: m <= 200000)
RECURSIVE MulFrom(_, _, _, _)
MulFrom(a, m, i, carry) ==
  IF i > Len(a) THEN BOfSmall(carry)
  ELSE LET s == a[i] * m + carry IN <<s % Base>> \o MulFrom(a, m, i + 1, s \div Base)
BMulSmall(a, m) == Trim(MulFrom(a, m, 1, 0))
\* exact division by a small divisor d (d * Base < 2^31), from the most significant limb
RECURSIVE DivFrom(_, _, _, _)
DivFrom(a, d, i, rem) ==        \* returns limbs from position i down to 1 (most significant first)
  IF i = 0 THEN <<>>
  ELSE LET cur == rem * Base + a[i] IN <<cur \div d>> \o DivFrom(a, d, i - 1, cur % d)
BDivSmall(a, d) == LET q == DivFrom(a, d, Len(a), 0) IN Trim([i \in 1..Len(q) |-> q[Len(q) + 1 - i]])
RECURSIVE BLessFrom(_, _, _)
BLessFrom(a, b, i) == IF i = 0 THEN FALSE ELSE IF a[i] # b[i] THEN a[i] < b[i] ELSE BLessFrom(a, b, i - 1)
BLess(a, b) == LET x == Trim(a)  y == Trim(b) IN IF Len(x) # Len(y) THEN Len(x) < Len(y) ELSE BLessFrom(x, y, Len(x))
\* big x big: shifted partial products, one per limb of b
BShift(a, k) == IF a = <<>> THEN <<>> ELSE [i \in 1..k |-> 0] \o a
RECURSIVE MulBigFrom(_, _, _)
MulBigFrom(a, b, j) == IF j > Len(b) THEN <<>> ELSE BAdd(BShift(BMulSmall(a, b[j]), j - 1), MulBigFrom(a, b, j + 1))
BMul(a, b) == Trim(MulBigFrom(a, b, 1))
\* a - m for 0 <= m < Base and a >= m
RECURSIVE SubFrom(_, _, _)
SubFrom(a, i, borrow) == IF i > Len(a) THEN <<>>
                         ELSE LET d == a[i] - borrow IN IF d < 0 THEN <<d + Base>> \o SubFrom(a, i + 1, 1) ELSE <<d>> \o SubFrom(a, i + 1, 0)
BSubSmall(a, m) == Trim(SubFrom(a, 1, m))
Two64 == <<1616, 955, 737, 4407, 1844>>                    \* 18446744073709551616
=============================================================================
