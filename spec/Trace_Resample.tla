--------------------------- MODULE Trace_Resample ---------------------------
\* P3 for C19: every recorded call of bootstrap / jackknife / shuffle / shuffle_two must satisfy the
\* property-level post-conditions of Resample (a panic is never acceptable: every length >= 1 is legal).
EXTENDS Resample, TLC, Json, IOUtils
Rec == ndJsonDeserialize(IOEnv.TRACE)
VARIABLE l
Init == l = 1
Step(ev) ==
  /\ ev.out = "ok"
  /\ CASE ev.op = "shuffle"     -> IsPerm(ev.res, ev.n)
       [] ev.op = "shuffle_two" -> IsPerm(ev.res1, ev.n) /\ ev.res2 = ev.res1
       [] ev.op = "multiset"    -> ev.sorted_in = ev.sorted_out      \* repeated / special values, paired tokens
       [] ev.op = "jackknife"   -> ev.rows = JackknifeSpec(ev.n)
       [] ev.op = "jackknife_tokens" -> ev.rows = [i \in 1..ev.n |-> RemoveAt(ev.input, i)]      \* repeated / special values: by position
       [] ev.op = "bootstrap"   -> Len(ev.rows) = ev.b /\ \A i \in 1..Len(ev.rows) : BootRowOk(ev.rows[i], ev.n)
       [] ev.op = "bootstrap_counts" ->
             /\ ev.nrows = ev.b /\ ev.rowlens = <<ev.n>> /\ ev.foreign = 0
             /\ UniformWithinBand(ev.counts, ev.n, ev.b * ev.n)
       \* long inputs (length not a power of two): index counts pooled in eight equal bins stay in the uniform band; paired shuffles
       \* stay permutations and stay paired
       [] ev.op = "bootstrap_long" -> ev.shape_ok = TRUE /\ ev.foreign = 0 /\ UniformWithinBand(ev.counts, 8, ev.total)
       [] ev.op = "shuffle_two_long" -> ev.perm_ok = TRUE /\ ev.paired_ok = TRUE /\ ev.moved = TRUE
       [] ev.op = "bootstrap_slots" ->      \* every slot of every resample (the first one included) draws every position equally often
             /\ ev.bad = 0 /\ Len(ev.counts) = ev.b * ev.n
             /\ \A c \in 1..Len(ev.counts) : UniformWithinBand(ev.counts[c], ev.n, ev.calls)
Next == l <= Len(Rec) /\ Step(Rec[l]) /\ l' = l + 1
Spec == Init /\ [][Next]_l
Accepted == LET d == TLCGet("stats").diameter IN
            IF d - 1 = Len(Rec) THEN TRUE ELSE PrintT("REJECTED at " \o ToString(d)) /\ FALSE
=============================================================================
