SPECIFICATION Spec
INVARIANTS Inv_VariancePositive Inv_BernoulliBound Inv_WorkingWeight Emit
CHECK_DEADLOCK FALSE
