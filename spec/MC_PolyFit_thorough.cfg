SPECIFICATION Spec
CONSTANTS
  NMax = 6
INVARIANTS Inv_Orthogonal Inv_Minimal Inv_Reproduces Emit
CHECK_DEADLOCK FALSE
