SPECIFICATION Spec
POSTCONDITION Accepted
CHECK_DEADLOCK FALSE
