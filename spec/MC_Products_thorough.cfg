SPECIFICATION Spec
CONSTANTS
  K = 9
  KV = 41
  KC = 5
INVARIANTS Inv_Panics Inv_MatmulCode Inv_BlockedCode Inv_TransposeIdentity Inv_Homogeneous Emit
CHECK_DEADLOCK FALSE
