SPECIFICATION Spec
CONSTANTS
  L = 6
  M = 2
  E = 8
INVARIANTS Inv_Welford Inv_Cov Inv_Order Inv_Laws Inv_Bins Emit
CHECK_DEADLOCK FALSE
