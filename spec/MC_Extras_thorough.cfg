SPECIFICATION Spec
INVARIANTS Inv_Sort Emit
CHECK_DEADLOCK FALSE
