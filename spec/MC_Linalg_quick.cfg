SPECIFICATION Spec
CONSTANTS
  NN = 2
  Mag = 2
  Fam4 = TRUE
INVARIANTS Inv_LUCertificate Inv_Parity Inv_Det Inv_Route Inv_Solve Inv_Inverse Inv_SolveHomogeneous Emit
CHECK_DEADLOCK FALSE
