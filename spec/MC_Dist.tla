------------------------------ MODULE MC_Dist ------------------------------
\* C18: all histories of constructor / setter / bulk-update calls up to MaxDepth on the grid.
\* P1: Code refines Spec, Valid and Fresh hold in every reachable code state.
\* P2: per distinct code state, a witness history and the Spec's verdict for every action.
EXTENDS Dist, TLC, Json, SequencesExt

CONSTANTS MaxDepth
VARIABLES o, hist
vars == <<o, hist>>
View == o

\* the constructor: every grid tuple of every kind; invalid ones are emitted as "new" cases by MC_DistNew
Init == \E k \in Kinds : \E p \in ParamGrid(k) : Valid(k, p) /\ o = Obj(k, p) /\ hist = <<>>

Next == /\ Len(hist) < MaxDepth
        /\ \E a \in Acts(o.kind) :
             LET c == CodeApply(o, a) IN
             /\ c.o # o                 \* a step that changes nothing reaches nothing new
             /\ o' = c.o
             /\ hist' = Append(hist, a)

Spec == Init /\ [][Next]_vars

Inv_Valid   == Valid(o.kind, o.p)
Inv_Fresh   == Fresh(o)
Inv_Refines == \A a \in Acts(o.kind) : Refines(o, a)

Succ(a) == LET s == SpecApply(o, a) IN [act |-> a, out |-> s.out, ps |-> SetToSeq({x.p : x \in s.os})]
Emit == PrintT(<<"ST", ToJson([kind |-> o.kind, p |-> o.p, hist |-> hist,
                               succ |-> SetToSeq({Succ(a) : a \in Acts(o.kind)})])>>)
=============================================================================
