----------------------------- MODULE Elementwise -----------------------------
\* Element-wise arithmetic, maps and reductions on Vector / Matrix (property C04).
\*
\* A binary *form* says where the operands of position i come from:
\*     vv        out[i] = l[i] op r[i]        (lengths / shapes must agree, else panic)
\*     vs        out[i] = l[i] op s
\*     sv        out[i] = s op l[i]
\*     assign_vv l'[i]  = l[i] op r[i]        (compound assignment; shapes must agree)
\*     assign_vs l'[i]  = l[i] op s
\* The scalar operation itself is exact rational arithmetic on integer operands (Sc) and an
\* uninterpreted table on special values: for those the specification fixes only WHICH two
\* operands meet at position i and in which order (pairs of indices into a table of specials).
EXTENDS Integers, Sequences, FiniteSets, Reals

Ops   == {"add", "sub", "mul", "div"}
Forms == {"vv", "vs", "sv", "assign_vv", "assign_vs"}
Sc(op, x, y) == CASE op = "add" -> R(x + y) [] op = "sub" -> R(x - y) [] op = "mul" -> R(x * y)
                  [] op = "div" -> Norm(x, y)

\* operand selectors: which value is the left / right scalar operand at position i
LeftAt(form, l, r, s, i)  == IF form = "sv" THEN s ELSE l[i]
RightAt(form, l, r, s, i) == IF form \in {"vv", "assign_vv"} THEN r[i] ELSE IF form = "sv" THEN l[i] ELSE s
NeedsEqualLen(form) == form \in {"vv", "assign_vv"}

\* exact meaning on integer operands: [panic, v]: v the sequence of rationals
Meaning(form, op, l, r, s) ==
  IF NeedsEqualLen(form) /\ Len(l) # Len(r) THEN [panic |-> TRUE, v |-> <<>>]
  ELSE [panic |-> FALSE, v |-> [i \in 1..Len(l) |-> Sc(op, LeftAt(form, l, r, s, i), RightAt(form, l, r, s, i))]]

\* meaning on table indices: pairs <<left index, right index>>
MeaningIdx(form, l, r, s) ==
  IF NeedsEqualLen(form) /\ Len(l) # Len(r) THEN [panic |-> TRUE, v |-> <<>>]
  ELSE [panic |-> FALSE, v |-> [i \in 1..Len(l) |-> <<LeftAt(form, l, r, s, i), RightAt(form, l, r, s, i)>>]]

\* code shape: the loops of vops.rs process floor(n/8) chunks of 8 and then the remainder
ChunkedIdx(n) == LET ch == (n - (n % 8)) \div 8 IN
                 [i \in 1..n |-> IF i <= 8 * ch THEN <<"chunk", (i - 1) \div 8, (i - 1) % 8>> ELSE <<"rest", i>>]
\* every position is produced exactly once by the unrolled loop + remainder loop
CoveredOnce(n) == LET ch == (n - (n % 8)) \div 8
                      unrolled == {8 * c + k + 1 : c \in 0..(ch - 1), k \in 0..7}
                      rest == (8 * ch + 1)..n IN
                  unrolled \cup rest = 1..n /\ unrolled \cap rest = {}

\* reductions on integer data
RECURSIVE SumS(_), ProdS(_)
SumS(x)  == IF x = <<>> THEN 0 ELSE x[1] + SumS(Tail(x))
ProdS(x) == IF x = <<>> THEN 1 ELSE x[1] * ProdS(Tail(x))
DotS(x, y) == SumS([i \in 1..Len(x) |-> x[i] * y[i]])
AbsI(a) == IF a < 0 THEN 0 - a ELSE a
MaxS(x) == CHOOSE m \in {x[i] : i \in 1..Len(x)} : \A i \in 1..Len(x) : x[i] <= m
InfNorm(x, nr) == LET nc == Len(x) \div nr IN
                  MaxS([i \in 1..nr |-> SumS([j \in 1..nc |-> AbsI(x[(i - 1) * nc + j])])])

\* maps onto the integers, exact on quarters q/4 (q an integer): floor, ceil, round (IEEE roundToIntegralTiesToAway, which is what
\* f64::round computes: a tie goes AWAY from zero whatever the parity of its neighbours), signum; |q/4| stays in quarters
FloorQ(q) == q \div 4
CeilQ(q)  == 0 - ((0 - q) \div 4)
RoundQ(q) == IF q >= 0 THEN (q + 2) \div 4 ELSE 0 - ((2 - q) \div 4)
SignQ(q)  == IF q < 0 THEN 0 - 1 ELSE 1          \* signum(+0.0) = 1 (the harness supplies +0.0 for q = 0)
QTbl == <<2, 0 - 2, 6, 0 - 6, 10, 0 - 10, 1, 0 - 1, 3, 0 - 3, 5, 7, 0, 4, 0 - 4, 9, 0 - 5, 0 - 7, 11, 0 - 11, 8, 0 - 9, 14, 0 - 14>>
QVec(n) == [i \in 1..n |-> QTbl[((i - 1) % Len(QTbl)) + 1]]

\* operands: position dependent, distinct, asymmetric under - and /
LVec(n) == [i \in 1..n |-> 3 * i + 1]
RVec(n) == [i \in 1..n |-> 2 * i + 5]
Factorizations(n) == {<<r, n \div r>> : r \in {d \in 1..n : n % d = 0}}
=============================================================================
