----------------------------- MODULE MC_Arrays -----------------------------
(* Bounded exhaustive exploration of the Matrix state machine (C15): P1 invariants and
   P2 emission (one line per distinct state with the outcome of every offered action). *)
EXTENDS Arrays, TLC, Json, SequencesExt

CONSTANTS K,        \* start shapes r, c \in 1..K
          MaxSize,  \* state constraint: at most this many elements
          MaxDepth  \* program length bound (hidden from the state by VIEW)

VARIABLES m, depth
vars == <<m, depth>>
View == m

Init == /\ \E r \in 1..K, c \in 1..K : m = Mat(r, c, [k \in 1..(r * c) |-> k])
        /\ depth = 0

Next == /\ depth < MaxDepth
        /\ \E act \in Acts(m, K) :
              LET r == Apply(m, act) IN
              /\ r.out = "ok" /\ act.op \in MutOps
              /\ Size(r.m) <= MaxSize
              /\ m' = r.m
        /\ depth' = depth + 1

Spec == Init /\ [][Next]_vars

Inv_WF  == WF(m)
Inv_Ref == \A act \in Acts(m, K) : RefAgrees(m, act)
\* every action either panics leaving the matrix alone or yields a well-formed matrix
Inv_Post == \A act \in Acts(m, K) : LET r == Apply(m, act) IN
               /\ WF(r.m)
               /\ (r.out = "panic" => r.m = m)
               /\ (act.op \notin MutOps => r.m = m)

\* compact successor record: panic -> [act, o]; unchanged matrix is not repeated
Succ(a) == LET r == Apply(m, a) IN
           IF r.out = "panic" THEN [act |-> a, o |-> "p"]
           ELSE IF r.m = m THEN [act |-> a, o |-> "k", ret |-> r.ret]
           ELSE [act |-> a, o |-> "k", m |-> r.m, ret |-> r.ret]
Emit == PrintT(<<"ST", ToJson([pre |-> m, succ |-> SetToSeq({Succ(a) : a \in Acts(m, K)})])>>)
=============================================================================
