-------------------------- MODULE Trace_Elementwise --------------------------
\* P3 for C04: recorded element-wise calls on random integer operands of random length must be
\* exactly Meaning(form, op, l, r, s): length, every position (best rational with residual exponent
\* e <= -45), shape preserved, operands unchanged, panic iff the lengths disagree.
EXTENDS Elementwise, TLC, Json, IOUtils
Rec == ndJsonDeserialize(IOEnv.TRACE)
VARIABLE l
Init == l = 1
ObsIs(x, r) == x.q > 0 /\ Norm(x.p, x.q) = r /\ x.e <= -45
Step(ev) == LET m == Meaning(ev.form, ev.op, ev.l, ev.r, ev.s) IN
            IF m.panic THEN ev.out = "panic"
            ELSE /\ ev.out = "ok" /\ ev.kept = TRUE
                 /\ Len(ev.data) = Len(m.v)
                 /\ \A k \in 1..Len(m.v) : ObsIs(ev.data[k], m.v[k])
                 /\ (ev.cont = "Matrix" => ev.shape = ev.lshape)
Next == l <= Len(Rec) /\ Step(Rec[l]) /\ l' = l + 1
Spec == Init /\ [][Next]_l
Accepted == LET d == TLCGet("stats").diameter IN
            IF d - 1 = Len(Rec) THEN TRUE ELSE PrintT("REJECTED at " \o ToString(d)) /\ FALSE
=============================================================================
