SPECIFICATION Spec
CONSTANTS
  K = 6
INVARIANTS Inv_CodeIsSpec Emit
CHECK_DEADLOCK FALSE
