------------------------------- MODULE MC_Quad -------------------------------
\* C07: P1 exactness / sign / linearity / error-bound invariants in exact rationals, and emission of
\* every case with the rule's own exact value (pins weights) and the exact integral.
EXTENDS Quad, Json
CONSTANTS NT, DMax, BigN
VARIABLE c

Polys == {<<1>>, <<0, 1>>, <<3, 0 - 2>>, <<0, 0, 1>>, <<1, 0 - 1, 2>>, <<0, 0, 0, 1>>, <<2, 0, 0 - 1, 1>>, <<0, 0, 0 - 1, 0, 1>>}
Mono(d) == [k \in 1..(d + 1) |-> IF k = d + 1 THEN 1 ELSE 0]
SmallEnds == {<<a, b>> : a \in (0 - 2)..2, b \in (0 - 2)..2}
Halves == {<<0 - 3, 2>>, <<1, 2>>, <<5, 2>>}
TrapzCases == {[fam |-> "trapz", p |-> p, a |-> R(e[1]), b |-> R(e[2]), n |-> n] : p \in Polys, e \in SmallEnds, n \in 1..NT}
        \cup {[fam |-> "trapz", p |-> p, a |-> h, b |-> R(2), n |-> n] : p \in {<<1>>, <<3, 0 - 2>>, <<0, 0, 1>>}, h \in Halves, n \in {1, 3, 8}}
        \cup {[fam |-> "trapz", p |-> p, a |-> R(e[1]), b |-> R(e[2]), n |-> n] :
                p \in {<<1>>, <<3, 0 - 2>>}, e \in {<<0 - 500, 500>>, <<500, 0 - 250>>, <<1000, 1000>>}, n \in BigN}
RombCases == {[fam |-> "romberg", p |-> Mono(d), a |-> R(e[1]), b |-> R(e[2]), eps |-> RZ, nmax |-> k] :
                d \in 0..5, e \in {<<0, 1>>, <<0 - 1, 1>>, <<2, 0 - 1>>, <<1, 1>>, <<0 - 2, 2>>}, k \in 2..4}
        \cup {[fam |-> "romberg", p |-> p, a |-> R(e[1]), b |-> R(e[2]), eps |-> eps, nmax |-> k] :
                p \in {<<0, 0, 0 - 1, 0, 1>>, <<1, 0 - 1, 2>>, <<0, 0, 0, 1>>, Mono(6)}, e \in {<<0 - 1, 1>>, <<0, 2>>},
                eps \in {<<1, 1000>>, <<1, 64>>}, k \in 2..5}
        \* tolerance exactly 0 on an integrand whose first tableau rows COINCIDE without being exact (the nodes 0, 1, 2, 3, 4 are roots of
        \* the degree-6 part, the nodes 0, 2, 4 of the cubic part): "difference below the tolerance" is never true for a tolerance of 0,
        \* so every level of the budget is used
        \cup {[fam |-> "romberg", p |-> <<d, 8 * cc, 24 - 6 * cc, cc - 50, 35, 0 - 10, 1>>, a |-> R(e[1]), b |-> R(e[2]), eps |-> RZ, nmax |-> k] :
                d \in {0, 1}, cc \in {0, 1}, e \in {<<0, 4>>, <<4, 0>>}, k \in 3..5}
\* deep level budgets without early stop (eps = 0): by Inv_RombergExact (checked for 2..4 levels; a theorem for every k: Richardson
\* extrapolation preserves exactness) a cubic is integrated exactly at EVERY budget; the tableau itself (2^19 nodes) is not built here
DeepCases == {[fam |-> "romberg_deep", p |-> p, a |-> R(e[1]), b |-> R(e[2]), nmax |-> k] :
                p \in {Mono(0), Mono(1), Mono(2), Mono(3), <<1, 0 - 1, 2>>, <<0, 3, 0, 0 - 1>>}, e \in {<<0, 1>>, <<0 - 1, 1>>, <<2, 0 - 1>>}, k \in {8, 12, 16, 17, 18, 20}}
GaussCases == {[fam |-> "quad5", p |-> Mono(d), a |-> R(e[1]), b |-> R(e[2])] : d \in 0..DMax, e \in {<<0, 1>>, <<0 - 1, 1>>, <<2, 0 - 1>>, <<1, 1>>, <<0 - 1, 2>>}}
        \cup {[fam |-> "quad5", p |-> p, a |-> R(e[1]), b |-> R(e[2])] : p \in Polys, e \in {<<0 - 2, 2>>, <<3, 0 - 3>>}}
        \cup {[fam |-> "quad5", p |-> p, a |-> R(e[1]), b |-> R(e[2])] : p \in {<<1>>, <<3, 0 - 2>>, <<0, 0, 1>>}, e \in {<<0 - 500, 500>>, <<250, 0 - 500>>, <<1000, 1000>>}}
SampCases == {[fam |-> "samples", y |-> [i \in 1..n |-> ((i * i + 3 * i) % 7) - 3], x |-> [i \in 1..n |-> (i * (i + g)) \div 2], dx |-> 0] : n \in {2, 3, 5, 9, 17, 64}, g \in {0, 1, 3}}
        \cup {[fam |-> "samples", y |-> [i \in 1..n |-> ((i * i + 3 * i) % 7) - 3], x |-> <<>>, dx |-> d] : n \in {2, 3, 8, 64}, d \in {0, 1, 3}}
        \* long tables (the quantifier goes to 1e4 samples): around and beyond 1024, with unit spacing, a step and abscissae
        \cup {[fam |-> "samples", y |-> [i \in 1..n |-> ((i * i + 3 * i) % 7) - 3], x |-> <<>>, dx |-> d] : n \in {1024, 1025, 2049, 3000}, d \in {0, 3}}
        \cup {[fam |-> "samples", y |-> [i \in 1..n |-> ((i * i + 3 * i) % 7) - 3], x |-> [i \in 1..n |-> 2 * i + (i % 3)], dx |-> 0] : n \in {1025, 2500}}
        \* non-uniform grids whose first spacing equals the mean spacing, and grids that are uniform except for one interval
        \cup {[fam |-> "samples", y |-> [i \in 1..Len(x) |-> ((i * i + 3 * i) % 7) - 3], x |-> x, dx |-> 0] :
                 x \in {<<0, 4, 6, 12>>, <<0, 8, 9, 10, 32>>, <<0 - 8, 0, 4, 20, 24>>, <<0, 4, 8, 12, 14>>, <<0, 2, 6, 10, 14>>, <<3, 7, 11, 19, 19 + 4>>,
                        \* repeated abscissae: zero-width panels across which the ordinate jumps (step functions sampled on both sides)
                        <<0, 4, 4, 8>>, <<0, 0, 4>>, <<0, 4, 8, 8>>, <<2, 2, 2, 6, 6, 10>>, <<0 - 4, 0, 0, 0, 4, 12, 12>>}}

Init == c \in TrapzCases \cup RombCases \cup DeepCases \cup GaussCases \cup SampCases
Next == UNCHANGED c
Spec == Init /\ [][Next]_c

IsT == c.fam = "trapz"
IsR == c.fam = "romberg"
Small(x) == RLe(RAbsR(x), R(3))
\* exact on affine integrands, sign change, error bound on monomials (checked on the small intervals)
Inv_TrapzExact == (IsT /\ Degree(c.p) <= 1) => TrapzCode(c.p, c.a, c.b, c.n) = Exact(c.p, c.a, c.b)
Inv_TrapzSign  == (IsT /\ Small(c.a)) => TrapzCode(c.p, c.b, c.a, c.n) = RNeg(TrapzCode(c.p, c.a, c.b, c.n))
Inv_TrapzBound == (IsT /\ Small(c.a) /\ c.p = Mono(Degree(c.p))) =>
                     RLe(RAbsR(RSub(TrapzCode(c.p, c.a, c.b, c.n), Exact(c.p, c.a, c.b))), TrapzBound(Degree(c.p), c.a, c.b, c.n))
Inv_TrapzLinear == (IsT /\ Small(c.a)) =>
   LET q == [k \in 1..Len(c.p) |-> 3 * c.p[k] + (IF k = 1 THEN 2 ELSE 0)] IN     \* 3 p + 2
   TrapzCode(q, c.a, c.b, c.n) = RAdd(RMul(R(3), TrapzCode(c.p, c.a, c.b, c.n)), TrapzCode(<<2>>, c.a, c.b, c.n))
\* k levels are exact up to degree 2k - 1 (no early stop: eps = 0)
Inv_RombergExact == (IsR /\ RIsZero(c.eps) /\ Degree(c.p) <= 2 * c.nmax - 1) => RombergCode(c.p, c.a, c.b, c.eps, c.nmax).v = Exact(c.p, c.a, c.b)
\* with a tolerance the error is of the order of the tolerance (here: within 16 eps of the exact integral)
Inv_RombergTol == (IsR /\ ~RIsZero(c.eps)) =>
   RLe(RAbsR(RSub(RombergCode(c.p, c.a, c.b, c.eps, c.nmax).v, Exact(c.p, c.a, c.b))),
       IF Degree(c.p) <= 2 * c.nmax - 1 THEN RMul(R(16), c.eps) ELSE R(1000))

Emit ==
  CASE c.fam = "trapz" -> PrintT(<<"CASE", ToJson([fam |-> "trapz", p |-> c.p, a |-> RJ(c.a), b |-> RJ(c.b), n |-> c.n,
                                     rule |-> RJ(TrapzCode(c.p, c.a, c.b, c.n)), exact |-> RJ(Exact(c.p, c.a, c.b))])>>)
    [] c.fam = "romberg" -> LET r == RombergCode(c.p, c.a, c.b, c.eps, c.nmax) IN
                            PrintT(<<"CASE", ToJson([fam |-> "romberg", p |-> c.p, a |-> RJ(c.a), b |-> RJ(c.b), eps |-> RJ(c.eps), nmax |-> c.nmax,
                                     rule |-> RJ(r.v), level |-> r.level, judged |-> r.margin_ok, exact |-> RJ(Exact(c.p, c.a, c.b))])>>)
    [] c.fam = "romberg_deep" -> PrintT(<<"CASE", ToJson([fam |-> "romberg_deep", p |-> c.p, a |-> RJ(c.a), b |-> RJ(c.b), nmax |-> c.nmax, exact |-> RJ(Exact(c.p, c.a, c.b))])>>)
    [] c.fam = "quad5" -> PrintT(<<"CASE", ToJson([fam |-> "quad5", p |-> c.p, a |-> RJ(c.a), b |-> RJ(c.b), exact |-> RJ(Exact(c.p, c.a, c.b))])>>)
    [] c.fam = "samples" ->
         LET n == Len(c.y)
             dxs == IF c.x = <<>> THEN [i \in 1..(n - 1) |-> IF c.dx = 0 THEN ROne ELSE Norm(c.dx, 4)]
                    ELSE [i \in 1..(n - 1) |-> Norm(c.x[i + 1] - c.x[i], 4)] IN
         PrintT(<<"CASE", ToJson([fam |-> "samples", y |-> c.y, x |-> c.x, dx |-> c.dx,
                                  exact |-> RJ(SampledCode([i \in 1..n |-> R(c.y[i])], dxs))])>>)
=============================================================================
