SPECIFICATION Spec
CONSTANTS
  K = 4
INVARIANTS Inv_CodeIsSpec Emit
CHECK_DEADLOCK FALSE
