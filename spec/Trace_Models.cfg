SPECIFICATION TSpec
CONSTANT Depth = 0
INVARIANT TInv
POSTCONDITION Accepted
CHECK_DEADLOCK FALSE
