SPECIFICATION Spec
CONSTANTS
  KS = 5
  KA = 4
INVARIANTS Inv_AdamExact Inv_StopsAtOptimum Inv_NesterovMuZero Inv_ScaleEquivariant Inv_ClosedForm Inv_LongNoCrossing Inv_Inert Emit
CHECK_DEADLOCK FALSE
