SPECIFICATION Spec
CONSTANTS
  KS = 5
  KA = 4
INVARIANTS Inv_AdamExact Inv_StopsAtOptimum Inv_NesterovMuZero Inv_ScaleEquivariant Emit
CHECK_DEADLOCK FALSE
