------------------------------ MODULE Trace_GLM ------------------------------
\* P3 for C06 (observation): on random designs (standardised / polynomial / indicator columns, n = 20..300, p = 1..5),
\* all six families, with and without weights, offsets and ridge penalty, a fit that reports success returns
\* coefficients at which the penalised score vanishes relative to the size of its terms, to within the
\* convergence tolerance: |score_j| / sum_i |term_ij| <= 4 sqrt(tolerance)  (the stopping rule watches the
\* relative change of the deviance, which is quadratic in the distance to the optimum); finite coefficients and
\* standard errors; predictions = inverse link of X beta + offset.  A reported error is acceptable.
\* Measured maxima on the unchanged tree: 2^-17 / 2^-23 / 2^-28 at tolerances 1e-8 / 1e-11 / 1e-14 (log-link Gamma).
EXTENDS Integers, Sequences, TLC, Json, IOUtils
Rec == ndJsonDeserialize(IOEnv.TRACE)
VARIABLE l
Init == l = 1
Bound(tl) == CASE tl = -8 -> -11 [] tl = -11 -> -16 [] tl = -14 -> -21
Step(ev) == \/ ev.out = "err"
            \/ /\ ev.out = "ok" /\ ev.finite = TRUE /\ ev.predict_is_inverse_link = TRUE /\ ev.deviance_is_definition = TRUE
               \* the score is measured against the size of its own terms, or - where the terms themselves vanish (separated
               \* Bernoulli data: fitted probabilities at 0 / 1, all residual terms of one sign) - against the scale of the data
               \* sum_i w_i |x_ij| max(1, |y_i|); either way to within the same function of the tolerance
               /\ (ev.score_rel_log2 <= Bound(ev.tol_log10) \/ ev.score_abs_log2 <= Bound(ev.tol_log10))
Next == l <= Len(Rec) /\ Step(Rec[l]) /\ l' = l + 1
Spec == Init /\ [][Next]_l
Accepted == LET d == TLCGet("stats").diameter IN
            IF d - 1 = Len(Rec) THEN TRUE ELSE PrintT("REJECTED at " \o ToString(d)) /\ FALSE
=============================================================================
