---------------------------- MODULE Trace_Arrays ----------------------------
(* P3 for C15: a program recorded from the real Matrix object (one event per public call,
   logged after the call returned or panicked, with the full projected state) is accepted iff
   every step is the step Arrays!Apply prescribes.  Inv_WF is evaluated in every state. *)
EXTENDS Arrays, TLC, Json, IOUtils

Rec == ndJsonDeserialize(IOEnv.TRACE)

VARIABLES m, l
vars == <<m, l>>

Init == l = 1 /\ m = Mat(1, 1, <<0>>)

New(ev) ==   \* Matrix::new(data, r, c): goes through the same shape-request rule
  LET s == ShapeReq(Len(ev.data), ev.a[1], ev.a[2]) IN
  IF s = <<>> THEN ev.out = "panic" /\ UNCHANGED m
  ELSE ev.out = "ok" /\ m' = Mat(s[1], s[2], ev.data) /\ ev.m = m'

Step(ev) ==
  LET r == Apply(m, [op |-> ev.op, a |-> ev.a]) IN
  /\ ev.out = r.out
  /\ ev.m = r.m
  /\ ev.ret = r.ret
  /\ m' = r.m

Next == /\ l <= Len(Rec)
        /\ LET ev == Rec[l] IN IF ev.op = "new" THEN New(ev) ELSE Step(ev)
        /\ l' = l + 1

Spec == Init /\ [][Next]_vars

Inv_WF == WF(m)

Accepted == LET d == TLCGet("stats").diameter IN
            IF d - 1 = Len(Rec) THEN TRUE
            ELSE PrintT("REJECTED at " \o ToString(d)) /\ FALSE
=============================================================================
