------------------------------- MODULE Interp -------------------------------
\* Linear interpolation (property C16).  Knots x (strictly increasing), ordinates y, one target t,
\* all rationals; mode = [kind |-> "panic" | "fill" | "extrap", left, right].
\*   ISpec : the property (knot exactness, bracketing segment, out-of-range handling per side)
\*   ICode : interp1d_linear_unchecked as written - the scan capped at n-1, the separate test for
\*           the right side, the dispatch, the convex-combination formula
EXTENDS Integers, Sequences, FiniteSets, Reals

Line(x0, y0, x1, y1, t) == RAdd(y0, RMul(RDiv(RSub(t, x0), RSub(x1, x0)), RSub(y1, y0)))
Val(v)  == [out |-> "ok", v |-> v]
IPanic  == [out |-> "panic", v |-> RZ]

ISpec(x, y, t, mode) ==
  LET n == Len(x) IN
  IF RLt(t, x[1]) THEN
     CASE mode.kind = "panic" -> IPanic
       [] mode.kind = "fill"  -> Val(mode.left)
       [] OTHER               -> Val(Line(x[1], y[1], x[2], y[2], t))
  ELSE IF RLt(x[n], t) THEN
     CASE mode.kind = "panic" -> IPanic
       [] mode.kind = "fill"  -> Val(mode.right)
       [] OTHER               -> Val(Line(x[n - 1], y[n - 1], x[n], y[n], t))
  ELSE LET i == CHOOSE i \in 1..(n - 1) : RLe(x[i], t) /\ RLe(t, x[i + 1]) IN
       Val(Line(x[i], y[i], x[i + 1], y[i + 1], t))

\* the scan: for j in 0..n-1 { if x[j] > t { break } idx += 1 }   (n-1 iterations at most)
RECURSIVE Scan(_, _, _, _)
Scan(x, t, j, idx) == IF j > Len(x) - 1 THEN idx
                      ELSE IF RLt(t, x[j]) THEN idx ELSE Scan(x, t, j + 1, idx + 1)

ICode(x, y, t, mode) ==
  LET n == Len(x)  idx == Scan(x, t, 1, 0)  right == RLt(x[n], t) IN
  IF idx = 0 \/ right THEN
     CASE mode.kind = "panic" -> IPanic
       [] mode.kind = "fill"  -> IF idx = 0 THEN Val(mode.left) ELSE Val(mode.right)
       [] OTHER -> IF idx = 0
                   THEN LET slope == RDiv(RSub(y[2], y[1]), RSub(x[2], x[1])) IN
                        Val(RAdd(RMul(RNeg(slope), RSub(x[1], t)), y[1]))
                   ELSE LET slope == RDiv(RSub(y[n], y[n - 1]), RSub(x[n], x[n - 1])) IN
                        Val(RAdd(RMul(slope, RSub(t, x[n])), y[n]))
  ELSE LET ratio == RDiv(RSub(t, x[idx]), RSub(x[idx + 1], x[idx])) IN
       Val(RAdd(RMul(ratio, y[idx + 1]), RMul(RSub(ROne, ratio), y[idx])))

\* the crate as first read (regression witness): the right side was never detected
ICodeCapped(x, y, t, mode) == ICode(x, y, IF RLt(x[Len(x)], t) THEN x[Len(x)] ELSE t, mode)

\* position class of a target: the stable part of finding keys
Pos(x, t) == IF RLt(t, x[1]) THEN "left-oob" ELSE IF RLt(x[Len(x)], t) THEN "right-oob"
             ELSE IF \E i \in 1..Len(x) : REq(x[i], t) THEN
                  (IF REq(x[1], t) THEN "first-knot" ELSE IF REq(x[Len(x)], t) THEN "last-knot" ELSE "inner-knot")
             ELSE "inside"

Increasing(x) == \A i \in 1..(Len(x) - 1) : RLt(x[i], x[i + 1])
=============================================================================
