------------------------------ MODULE MC_Extras ------------------------------
EXTENDS Extras, TLC, Json
VARIABLE c
Vecs == UNION {[1..n -> (0 - 2)..2] : n \in 0..4}
Init == \/ \E x \in Vecs : c = [fam |-> "vector", x |-> x]
        \/ \E r \in 1..3, k \in 1..3 : c = [fam |-> "serde", m |-> Mat(r, k, [q \in 1..(r * k) |-> 2 * q - 5])]
        \/ \E f \in {"Gaussian", "Bernoulli", "QuasiPoisson", "Poisson", "Gamma", "Exponential"} : c = [fam |-> "family", f |-> f]
        \/ \E ml \in 1..3, cv \in {Mat(2, 2, <<2, 1, 1, 2>>), Mat(2, 2, <<2, 1, 0, 2>>), Mat(2, 3, <<1, 0, 0, 0, 1, 0>>), Mat(3, 3, <<2, 0, 0, 0, 2, 0, 0, 0, 1>>)} :
              c = [fam |-> "mvn", ml |-> ml, cov |-> cv]
        \/ \E phi \in {<<3>>, <<1, 0 - 2>>, <<5, 0, 7>>} : c = [fam |-> "ardisplay", phi |-> phi]
Next == UNCHANGED c
Spec == Init /\ [][Next]_c
Inv_Sort == c.fam = "vector" => IsSorted(SortSpec(c.x)) /\ SameMultiset(SortSpec(c.x), c.x)
Emit == CASE c.fam = "vector" -> PrintT(<<"CASE", ToJson([fam |-> "vector", x |-> c.x, sorted |-> SortSpec(c.x), diff |-> IF Len(c.x) >= 1 THEN DiffSpec(c.x) ELSE <<>>])>>)
          [] c.fam = "serde" -> PrintT(<<"CASE", ToJson([fam |-> "serde", m |-> c.m])>>)
          [] c.fam = "family" -> PrintT(<<"CASE", ToJson([fam |-> "family", f |-> c.f, has_dispersion |-> HasDispersionSpec(c.f)])>>)
          [] c.fam = "mvn" -> PrintT(<<"CASE", ToJson([fam |-> "mvn", ml |-> c.ml, cov |-> c.cov, ok |-> MvnArgsOk(c.ml, c.cov)])>>)
          [] c.fam = "ardisplay" -> PrintT(<<"CASE", ToJson([fam |-> "ardisplay", phi |-> c.phi])>>)
=============================================================================
