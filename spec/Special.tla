------------------------------- MODULE Special -------------------------------
\* Combinatorics and statistical transforms (property C17).
\*   Pascal(n)    : row n of Pascal's triangle on BigNat (the definition: C(n,k) = C(n-1,k-1) + C(n-1,k))
\*   BinomMul     : the multiplicative formula prod (n-i+1)/i on BigNat (for large n, small k)
\*   BoxCoxSpec   : (x^lambda - 1)/lambda on rational points (integer and half-integer lambda on perfect squares)
EXTENDS Integers, Sequences, FiniteSets, Reals, BigNat

RECURSIVE Pascal(_)
Pascal(n) == IF n = 0 THEN <<<<1>>>>
             ELSE LET p == TLCEval(Pascal(n - 1)) IN
                  TLCEval([k \in 1..(n + 1) |-> IF k = 1 \/ k = n + 1 THEN <<1>> ELSE BAdd(p[k - 1], p[k])])
RECURSIVE BinomMulFrom(_, _, _, _)
BinomMulFrom(n, k, i, acc) == IF i > k THEN acc ELSE BinomMulFrom(n, k, i + 1, TLCEval(BDivSmall(BMulSmall(acc, n - i + 1), i)))
BinomMul(n, k) == BinomMulFrom(n, k, 1, <<1>>)
\* the same for n beyond 32 bits, given as a big natural (k small)
RECURSIVE BinomMulBigFrom(_, _, _, _)
BinomMulBigFrom(nB, k, i, acc) == IF i > k THEN acc ELSE BinomMulBigFrom(nB, k, i + 1, TLCEval(BDivSmall(BMul(acc, BSubSmall(nB, i - 1)), i)))
BinomMulBig(nB, k) == BinomMulBigFrom(nB, k, 1, <<1>>)
Fits64(b) == BLess(b, Two64)

ISqrtS(k) == CHOOSE r \in 0..1000 : r * r <= k /\ (r + 1) * (r + 1) > k
IsSq(k) == ISqrtS(k) * ISqrtS(k) = k
\* x^(h/2) for a rational x = n/d with perfect-square n, d when h is odd; h may be negative
PowHalf(x, h) == LET a == IF h < 0 THEN 0 - h ELSE h
                     base == IF a % 2 = 0 THEN RPow(x, a \div 2) ELSE RPow(<<ISqrtS(x[1]), ISqrtS(x[2])>>, a)
                 IN IF h < 0 THEN RDiv(ROne, base) ELSE base
BoxCoxSpec(x, h) == RDiv(RSub(PowHalf(x, h), ROne), Norm(h, 2))        \* lambda = h/2, h # 0
=============================================================================
