SPECIFICATION Spec
CONSTANT Depth = 5
INVARIANT Inv_Stored
INVARIANT Inv_Status
CHECK_DEADLOCK FALSE
