--------------------------------- MODULE GLM ---------------------------------
\* Generalised linear models (property C06): what a TLA+ specification can state exactly.
\*   Gaussian family = weighted ridge least squares with unpenalised intercept:
\*       (X^T W X + alpha I0) beta = X^T W (y - o),  deviance = RSS, dispersion = RSS / (n - p),
\*       covariance = dispersion (X^T W X)^-1, prediction = X beta + o
\*   Grouped designs (intercept + group indicators, no penalty, no offset), all six families: the MLE fitted mean
\*       of every row is the weighted mean of the responses of its group, the Fisher information is
\*       X^T diag(w k(mu)) X with k = (dmu/deta)^2 / V(mu):  1 (Gaussian, Gamma, Exponential), mu (Poisson,
\*       QuasiPoisson), mu (1 - mu) (Bernoulli)  - all rational
\*   Protocol of the model object: accessors fail before a fit, a fit with too small an iteration budget reports
\*       an error, a successful fit makes every accessor succeed.
EXTENDS Integers, Sequences, FiniteSets, Reals, TLC, Linalg

Families == {"Gaussian", "Bernoulli", "QuasiPoisson", "Poisson", "Gamma", "Exponential"}
HasDispersion(f) == f \in {"Gaussian", "QuasiPoisson", "Gamma"}
WorkK(f, mu) == CASE f \in {"Gaussian", "Gamma", "Exponential"} -> ROne
                  [] f \in {"Poisson", "QuasiPoisson"} -> mu
                  [] f = "Bernoulli" -> RMul(mu, RSub(ROne, mu))

XtWX(X, w) == LET n == Len(X)  p == Len(X[1]) IN
              [a \in 1..p |-> [b \in 1..p |-> RSum([i \in 1..n |-> RMul(w[i], RMul(X[i][a], X[i][b]))])]]
XtWz(X, w, z) == LET n == Len(X)  p == Len(X[1]) IN
              [a \in 1..p |-> RSum([i \in 1..n |-> RMul(w[i], RMul(X[i][a], z[i]))])]
Ridge(M, alpha) == [a \in 1..Len(M) |-> [b \in 1..Len(M) |-> IF a = b /\ a > 1 THEN RAdd(M[a][b], alpha) ELSE M[a][b]]]

GaussianBeta(X, y, w, o, alpha) ==
  SolveCol(TLCEval(Ridge(XtWX(X, w), alpha)), TLCEval(XtWz(X, w, [i \in 1..Len(y) |-> RSub(y[i], o[i])])))
Linear(X, beta, o) == [i \in 1..Len(X) |-> RAdd(RSum([a \in 1..Len(beta) |-> RMul(X[i][a], beta[a])]), o[i])]
RSSOf(y, mu) == RSum([i \in 1..Len(y) |-> RSq(RSub(y[i], mu[i]))])
\* penalised weighted least-squares score: X^T W (y - mu) - alpha beta0 = 0  (beta0 = beta with the intercept zeroed)
GaussianScoreZero(X, y, w, o, alpha, beta) ==
  LET mu == Linear(X, beta, o)
      s == XtWz(X, w, [i \in 1..Len(y) |-> RSub(y[i], mu[i])]) IN
  \A a \in 1..Len(beta) : s[a] = (IF a = 1 THEN RZ ELSE RMul(alpha, beta[a]))
InvDiag(M) == LET inv == TLCEval(SolveMat(M, IdentR(Len(M)))) IN [a \in 1..Len(M) |-> inv[a][a]]

\* grouped design: g[i] in 1..G; row i = <<1, [g_i = 2], ..., [g_i = G]>>
GroupDesign(g, G) == [i \in 1..Len(g) |-> [a \in 1..G |-> IF a = 1 \/ g[i] = a THEN ROne ELSE RZ]]
GroupMean(y, w, g, k) == LET idx == {i \in 1..Len(g) : g[i] = k} IN
  RDiv(RSum([i \in 1..Len(g) |-> IF g[i] = k THEN RMul(w[i], y[i]) ELSE RZ]), RSum([i \in 1..Len(g) |-> IF g[i] = k THEN w[i] ELSE RZ]))
GroupedMu(y, w, g) == [i \in 1..Len(g) |-> GroupMean(y, w, g, g[i])]
GroupedInfo(f, y, w, g, G) == LET mu == GroupedMu(y, w, g) IN XtWX(GroupDesign(g, G), [i \in 1..Len(g) |-> RMul(w[i], WorkK(f, mu[i]))])
\* score of the grouped model at the group means: X^T (w (y - mu) (dmu/deta) / V) = 0; the factor (dmu/deta)/V is constant within a group
GroupedScoreZero(y, w, g, G) == LET mu == GroupedMu(y, w, g) IN
  \A k \in 1..G : RIsZero(RSum([i \in 1..Len(g) |-> IF g[i] = k THEN RMul(w[i], RSub(y[i], mu[i])) ELSE RZ]))
=============================================================================
