------------------------------ MODULE MC_OptimLM ------------------------------
\* C10, Levenberg-Marquardt on models linear in the parameters: the exact least-squares solution and the
\* covariance s^2 (J^T J)^-1, s^2 = RSS / (n - p), in rationals (J is the Vandermonde matrix).
EXTENDS PolyFit, Json
VARIABLE c
\* the last two windows lie to one side of the origin with abscissae above 1: the normal matrix then needs row interchanges in
\* a cyclic order when it is solved by LU (three parameters)
Grids == {[k \in 1..6 |-> R(k - 3)], [k \in 1..7 |-> Norm(k, 8)], [k \in 1..5 |-> Norm(2 * k - 1, 16)],
          [k \in 1..7 |-> Norm(k, 2)], [k \in 1..5 |-> R(k + 1)]}
Ys(n, v) == [i \in 1..n |-> R(((i * i * v + 2 * i) % 7) - 3)]
Init == \E g \in Grids, v \in 1..2, d \in 0..2 : c = [x |-> g, y |-> Ys(Len(g), v), d |-> d]
Next == UNCHANGED c
Spec == Init /\ [][Next]_c
Fit == TLCEval(FitSpec(c.x, c.y, c.d))
P == c.d + 1
S2 == RDiv(RSS(c.x, c.y, Fit), R(Len(c.x) - P))
Cov == LET inv == TLCEval(SolveMat(NormalMatrix(c.x, c.d), IdentR(P))) IN [i \in 1..P |-> [j \in 1..P |-> RMul(S2, inv[i][j])]]
Flat(M) == LET RECURSIVE Fl(_) Fl(k) == IF k = 0 THEN <<>> ELSE Fl(k - 1) \o M[k] IN Fl(Len(M))
Inv_Orth == Orthogonal(c.x, c.y, Fit)
Inv_CovSym == \A i, j \in 1..P : Cov[i][j] = Cov[j][i]
Emit == PrintT(<<"CASE", ToJson([lm |-> TRUE, x |-> RSeqJ(c.x), y |-> RSeqJ(c.y), coef |-> RSeqJ(Fit), cov |-> RSeqJ(Flat(Cov))])>>)
=============================================================================
