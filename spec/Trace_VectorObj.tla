--------------------------- MODULE Trace_VectorObj ---------------------------
\* P3 for the Vector object: programs recorded from the real object (one event per call, logged after it returned or
\* panicked, with the complete state) are accepted iff every step is the one VApply prescribes.
EXTENDS VectorObj, TLC, Json, IOUtils
Rec == ndJsonDeserialize(IOEnv.TRACE)
VARIABLES x, l
vars == <<x, l>>
Init == l = 1 /\ x = <<>>
NewEv(ev) == x' = ev.x /\ ev.out = "ok"            \* Vector::new / from / FromIterator / zeros / ones / Default: state as logged by construction
                /\ (ev.how = "zeros" => \A i \in 1..Len(ev.x) : ev.x[i] = 0) /\ (ev.how = "ones" => \A i \in 1..Len(ev.x) : ev.x[i] = 1)
                /\ (ev.how = "default" => ev.x = <<>>) /\ (ev.how \in {"new", "from", "from_iter"} => ev.x = ev.src)
Step(ev) == LET r == VApply(x, [op |-> ev.op, a |-> ev.a]) IN
            /\ ev.out = r.out /\ ev.x = r.x /\ ev.ret = r.ret /\ x' = r.x
Next == /\ l <= Len(Rec)
        /\ LET ev == Rec[l] IN IF ev.op = "new" THEN NewEv(ev) ELSE Step(ev)
        /\ l' = l + 1
Spec == Init /\ [][Next]_vars
Accepted == LET d == TLCGet("stats").diameter IN
            IF d - 1 = Len(Rec) THEN TRUE ELSE PrintT("REJECTED at " \o ToString(d)) /\ FALSE
=============================================================================
