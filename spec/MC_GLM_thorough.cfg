SPECIFICATION Spec
INVARIANTS Inv_GaussianScore Inv_GroupedScore Inv_BernoulliInterior Emit
CHECK_DEADLOCK FALSE
