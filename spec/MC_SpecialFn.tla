----------------------------- MODULE MC_SpecialFn -----------------------------
EXTENDS SpecialFn, Json
VARIABLE c
Init == \/ \E n \in 0..170 : c = [fam |-> "factorial", n |-> n]
        \/ \E n \in 1..20 : c = [fam |-> "harmonic", n |-> n]
        \/ \E a \in {1, 2, 3, 7, 20, 40, 60, 80}, b \in {1, 2, 5, 13, 40, 79} : c = [fam |-> "beta", a |-> a, b |-> b]
Next == UNCHANGED c
Spec == Init /\ [][Next]_c
\* n! = n (n-1)!, H_n - H_{n-1} = 1/n
Inv_FactRec == (c.fam = "factorial" /\ c.n >= 1) => Fact(c.n) = BMulSmall(Fact(c.n - 1), c.n)
Inv_Harm == c.fam = "harmonic" => RSub(Harmonic(c.n), Harmonic(c.n - 1)) = <<1, c.n>>
Emit == CASE c.fam = "factorial" -> PrintT(<<"CASE", ToJson([fam |-> "factorial", n |-> c.n, fact |-> Fact(c.n)])>>)
          [] c.fam = "harmonic" -> PrintT(<<"CASE", ToJson([fam |-> "harmonic", n |-> c.n, h |-> RJ(Harmonic(c.n))])>>)
          [] c.fam = "beta" -> PrintT(<<"CASE", ToJson([fam |-> "beta", a |-> c.a, b |-> c.b, fa |-> Fact(c.a - 1), fb |-> Fact(c.b - 1), fab |-> Fact(c.a + c.b - 1)])>>)
=============================================================================
