----------------------------- MODULE MC_Interp -----------------------------
\* C16: complete case analysis mode x position x side on small integer knot vectors (P1: ICode = ISpec),
\* plus structured families (large spacing ratios, many knots) emitted for replay only.
EXTENDS Interp, TLC, Json
CONSTANTS N, XMax
VARIABLE c

Modes == {[kind |-> "panic", left |-> RZ, right |-> RZ],
          [kind |-> "fill", left |-> R(0 - 7), right |-> R(9)],
          [kind |-> "extrap", left |-> RZ, right |-> RZ]}

KnotSets == {S \in SUBSET (0..XMax) : Cardinality(S) >= 2 /\ Cardinality(S) <= N}
SortedSeq(S) == LET RECURSIVE F(_) F(T) == IF T = {} THEN <<>> ELSE
                     LET m == CHOOSE a \in T : \A b \in T : a <= b IN <<m>> \o F(T \ {m}) IN F(S)
Ords(n, v) == [i \in 1..n |-> R(((i * i * v + 3 * i) % 7) - 3)]       \* non-monotone small ordinates
Targets == {<<k, 2>> : k \in (-3)..(2 * XMax + 3)} \cup {<<k, 3>> : k \in {1, 2, 4, 5, 7}}

Small == {[fam |-> "small", x |-> [i \in 1..Len(xs) |-> R(xs[i])], y |-> Ords(Len(xs), v), t |-> Norm(t[1], t[2]), mode |-> m] :
            xs \in {SortedSeq(S) : S \in KnotSets}, v \in 1..2, t \in Targets, m \in Modes}

\* spacing ratios up to 2^10 between neighbouring gaps, 2^20 overall
WideX == <<R(0), R(1), R(1025), R(1049601)>>
Wide == {[fam |-> "wide", x |-> WideX, y |-> <<R(3), R(0 - 2), R(5), R(1)>>, t |-> t, mode |-> m] :
            t \in {R(0 - 1), R(0), <<1, 2>>, R(1), R(513), R(1025), R(525313), <<3075, 3>>, R(1049600), R(1049601), R(1049602), R(2000000)}, m \in Modes}

\* many knots: x_k = k - 1, k = 1..M
Many(M) == {[fam |-> "many", x |-> [k \in 1..M |-> R(k - 1)], y |-> [k \in 1..M |-> R(((k * k) % 11) - 5)], t |-> t, mode |-> m] :
            t \in {R(0 - 2), R(0), <<1, 2>>, <<2 * M - 3, 2>>, R(M - 2), R(M - 1), <<2 * M - 1, 2>>, R(M + 5), <<77, 4>>}, m \in Modes}

\* ordinates of wildly different magnitude: m * 2^e (TLC cannot compute with them; the only claim made
\* is the knot theorem Inv_Knot - at a knot the value is that knot's ordinate, bit for bit)
SteepYs == { << <<0, 0>>, <<1, 54>>, <<1, 0>>, <<0 - 1, 60>>, <<3, 0 - 40>> >>,
             << <<1, 1023>>, <<0 - 1, 1023>>, <<1, 1023>>, <<5, 0>>, <<0 - 7, 900>> >>,
             << <<1, 0 - 1000>>, <<1, 1000>>, <<0 - 1, 0 - 1000>>, <<1, 70>>, <<1, 0>> >> }
Steep == {[fam |-> "steep", y |-> ys, i |-> i, mode |-> m] : ys \in SteepYs, i \in 1..5, m \in Modes}

\* grids that LOOK evenly spaced from their ends - the span equals (number of gaps) x (first gap), and the last gap equals the first -
\* but are not: any shortcut that computes the bracketing segment from the end points must still find the right one
DeceptiveXs == { <<R(0), R(4), R(5), R(6), R(7), R(20)>>, <<R(0), R(3), R(4), R(5), R(6), R(15)>>, <<R(0 - 8), R(0 - 4), R(0 - 3), R(0 - 2), R(8)>>,
                 <<R(0), R(2), R(3), R(8), R(9), R(10)>>, <<R(0), R(1), <<3, 2>>, R(3)>> }
Deceptive == {[fam |-> "deceptive", x |-> xs, y |-> Ords(Len(xs), 1), t |-> t, mode |-> m] :
                xs \in DeceptiveXs, m \in Modes,
                t \in {R(k) : k \in (0 - 9)..21} \cup {<<2 * k + 1, 2>> : k \in (0 - 9)..20} \cup {<<5, 4>>, <<11, 4>>, <<21, 4>>}}

Cases == Small \cup Wide \cup Many(50) \cup Many(200) \cup Steep \cup Deceptive

Init == c \in Cases
Next == UNCHANGED c
Spec == Init /\ [][Next]_c

IsSteep == c.fam = "steep"
Inv_Increasing == IsSteep \/ Increasing(c.x)
Inv_CodeIsSpec == IsSteep \/ ICode(c.x, c.y, c.t, c.mode) = ISpec(c.x, c.y, c.t, c.mode)
\* at a knot the spec value is that knot's ordinate; inside, it lies between the neighbouring ordinates
Inv_Knot == IsSteep \/ \A i \in 1..Len(c.x) : REq(c.x[i], c.t) => ISpec(c.x, c.y, c.t, c.mode) = Val(c.y[i])
Inv_Between == IsSteep \/ ((~RLt(c.t, c.x[1]) /\ ~RLt(c.x[Len(c.x)], c.t)) =>
                 LET i == CHOOSE i \in 1..(Len(c.x) - 1) : RLe(c.x[i], c.t) /\ RLe(c.t, c.x[i + 1])
                     v == ISpec(c.x, c.y, c.t, c.mode).v IN
                 RLe(RMin(c.y[i], c.y[i + 1]), v) /\ RLe(v, RMax(c.y[i], c.y[i + 1])))

\* rescaling the abscissa axis (knots and target alike) by a positive factor changes nothing
ScaleSeq(xs, f) == [i \in 1..Len(xs) |-> RMul(xs[i], f)]
Inv_ScaleInvariant == (~IsSteep /\ c.fam = "small") => \A f \in {R(2), <<1, 3>>} :
                         ISpec(ScaleSeq(c.x, f), c.y, RMul(c.t, f), c.mode) = ISpec(c.x, c.y, c.t, c.mode)
ModeJ == [kind |-> c.mode.kind, left |-> RJ(c.mode.left), right |-> RJ(c.mode.right)]
EmitSteep == PrintT(<<"CASE", ToJson([fam |-> "steep", x |-> RSeqJ([k \in 1..5 |-> R(k - 1)]),
                                      y |-> [k \in 1..5 |-> [n |-> c.y[k][1], d |-> 1, e2 |-> c.y[k][2]]],
                                      t |-> RJ(R(c.i - 1)), mode |-> ModeJ,
                                      pos |-> IF c.i = 1 THEN "first-knot" ELSE IF c.i = 5 THEN "last-knot" ELSE "inner-knot",
                                      out |-> "ok", v |-> [n |-> c.y[c.i][1], d |-> 1, e2 |-> c.y[c.i][2]]])>>)
Emit == IF IsSteep THEN EmitSteep ELSE
        LET s == ISpec(c.x, c.y, c.t, c.mode) IN
        PrintT(<<"CASE", ToJson([fam |-> c.fam, x |-> RSeqJ(c.x), y |-> RSeqJ(c.y), t |-> RJ(c.t),
                                 mode |-> [kind |-> c.mode.kind, left |-> RJ(c.mode.left), right |-> RJ(c.mode.right)],
                                 pos |-> Pos(c.x, c.t), out |-> s.out, v |-> RJ(s.v)])>>)
=============================================================================
