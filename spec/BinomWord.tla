------------------------------ MODULE BinomWord ------------------------------
\* Design-level model of binom_coeff (functions/combinatorial.rs) on an abstract W-bit unsigned word:
\*     nk = min(k, n - k);  c = 1
\*     for i in 1..=nk { if c / i > MAX / nk { return 0 }   c = c / i * (n - i + 1) + c % i * (n - i + 1) / i }
\* Checked for small words (W = 8, 12), all 0 <= k <= n <= NMax:
\*   Inv_FitsExact     : whenever C(n, k) fits in W bits it is returned exactly and nothing wraps
\*   Inv_LoopInvariant : after step i, c = C(n, i)
\* The harness checks the same exactness at W = 64 against big naturals (C17).
EXTENDS Integers, Sequences, TLC
CONSTANTS W, NMax
VARIABLES n, k
Pow2W == LET RECURSIVE P(_) P(j) == IF j = 0 THEN 1 ELSE 2 * P(j - 1) IN P(W)
MAX == Pow2W - 1
RECURSIVE C(_, _)
C(m, j) == IF j = 0 \/ j = m THEN 1 ELSE C(m - 1, j - 1) + C(m - 1, j)
MinK(m, j) == IF j > m - j THEN m - j ELSE j
\* returns [v |-> result, wrapped |-> some intermediate exceeded MAX, loop_ok |-> c = C(n, i) after every completed step]
RECURSIVE Loop(_, _, _, _, _, _)
Loop(m, nk, i, c, wrapped, ok) ==
  IF i > nk THEN [v |-> c, wrapped |-> wrapped, loop_ok |-> ok]
  ELSE IF c \div i > MAX \div nk THEN [v |-> 0, wrapped |-> wrapped, loop_ok |-> ok]
  ELSE LET t1 == (c \div i) * (m - i + 1)
           t2 == (c % i) * (m - i + 1)
           c2 == t1 + t2 \div i
       IN Loop(m, nk, i + 1, c2, wrapped \/ t1 > MAX \/ t2 > MAX \/ c2 > MAX, ok /\ c2 = C(m, i))
BinomCode(m, j) == Loop(m, MinK(m, j), 1, 1, FALSE, TRUE)
Init == n \in 0..NMax /\ k \in 0..n
Next == UNCHANGED <<n, k>>
Spec == Init /\ [][Next]_<<n, k>>
R == BinomCode(n, k)
Fits == C(n, k) <= MAX
\* the property: every value that fits is returned exactly, without any intermediate wrap-around
Inv_FitsExact == Fits => (~R.wrapped /\ R.v = C(n, k))
Inv_LoopInvariant == Fits => R.loop_ok
\* NOT an invariant (kept as a documented design observation, see MC_BinomWord_witness.cfg): for values that do NOT
\* fit, the guard c / i > MAX / nk bounds the multiplier by nk although it is n - i + 1, so an intermediate product
\* can exceed MAX before the guard fires (W = 12: n = 15, k = 6): the release build then returns a wrapped non-zero
\* value instead of the sentinel 0 and the debug build panics.  The property is silent about values that do not fit.
Obs_NoWrapAtAll == ~R.wrapped
=============================================================================
