SPECIFICATION Spec
CONSTANTS
  K = 4
  MaxSize = 16
  MaxDepth = 2
VIEW View
INVARIANTS Inv_WF Inv_Ref Inv_Post Emit
CHECK_DEADLOCK FALSE
