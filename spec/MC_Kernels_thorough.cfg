SPECIFICATION Spec
CONSTANTS
  PMax = 4
INVARIANTS Inv_Symmetric Inv_Diagonal Inv_Positive Inv_Monotone Inv_PSD Inv_HalfExact Emit
CHECK_DEADLOCK FALSE
