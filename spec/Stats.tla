-------------------------------- MODULE Stats --------------------------------
\* Descriptive statistics (property C08) on integer data, exact rational arithmetic.
\*   *Spec : textbook definitions
\*   *Code : the algorithms as written in statistics/{moments,covariance,order,hist}.rs
EXTENDS Integers, Sequences, FiniteSets, Reals, TLC

RECURSIVE ISum(_)
ISum(x) == IF x = <<>> THEN 0 ELSE x[1] + ISum(Tail(x))
Len0(x) == Len(x)
SumSq(x) == ISum([i \in 1..Len(x) |-> x[i] * x[i]])
SumXY(x, y) == ISum([i \in 1..Len(x) |-> x[i] * y[i]])

\* ------------------------------ definitions ------------------------------
MeanSpec(x) == Norm(ISum(x), Len(x))
\* sum of squared deviations times n, as an integer: n sum(x^2) - (sum x)^2
Dev2N(x) == Len(x) * SumSq(x) - ISum(x) * ISum(x)
VarSpec(x) == Norm(Dev2N(x), Len(x) * Len(x))
SampleVarSpec(x) == Norm(Dev2N(x), Len(x) * (Len(x) - 1))                 \* Len >= 2
CoDevN(x, y) == Len(x) * SumXY(x, y) - ISum(x) * ISum(y)
CovSpec(x, y) == Norm(CoDevN(x, y), Len(x) * Len(x))
SampleCovSpec(x, y) == Norm(CoDevN(x, y), Len(x) * (Len(x) - 1))
MinSpec(x) == CHOOSE m \in {x[i] : i \in 1..Len(x)} : \A i \in 1..Len(x) : m <= x[i]
MaxSpec(x) == CHOOSE m \in {x[i] : i \in 1..Len(x)} : \A i \in 1..Len(x) : m >= x[i]
ArgMinSpec(x) == (CHOOSE k \in 1..Len(x) : x[k] = MinSpec(x) /\ \A q \in 1..(k - 1) : x[q] # MinSpec(x)) - 1   \* 0-based, first occurrence
ArgMaxSpec(x) == (CHOOSE k \in 1..Len(x) : x[k] = MaxSpec(x) /\ \A q \in 1..(k - 1) : x[q] # MaxSpec(x)) - 1
BinCentresSpec(e) == [i \in 1..(Len(e) - 1) |-> Norm(e[i] + e[i + 1], 2)]

\* ------------------------------ the code ------------------------------
\* Welford: aggregate (count, mean, M2), one update per datum
WelfordUpdate(agg, v) ==
  LET count == agg[1] + 1
      delta == RSub(R(v), agg[2])
      mean  == RAdd(agg[2], RDiv(delta, R(count)))
      delta2 == RSub(R(v), mean)
  IN <<count, mean, RAdd(agg[3], RMul(delta, delta2))>>
RECURSIVE WelfordFrom(_, _, _)
WelfordFrom(x, i, agg) == IF i > Len(x) THEN agg ELSE WelfordFrom(x, i + 1, TLCEval(WelfordUpdate(agg, x[i])))
Welford(x) == WelfordFrom(x, 1, <<0, RZ, RZ>>)
WelfordMeanCode(x) == Welford(x)[2]
VarCode(x) == RDiv(Welford(x)[3], R(Welford(x)[1]))
SampleVarCode(x) == RDiv(Welford(x)[3], R(Welford(x)[1] - 1))

\* two-pass covariance
TwoPassCov(x, y, denom) ==
  LET mx == MeanSpec(x)  my == MeanSpec(y) IN
  RDiv(RSum([i \in 1..Len(x) |-> RMul(RSub(R(x[i]), mx), RSub(R(y[i]), my))]), R(denom))
\* shifted one-pass: dx = x - x[1], dy = y - y[1]; (sum dx dy - sum dx sum dy / n) / (n - 1)
ShiftedOnePassCov(x, y) ==
  LET n == Len(x)
      dx == [i \in 1..n |-> x[i] - x[1]]  dy == [i \in 1..n |-> y[i] - y[1]] IN
  RDiv(RSub(R(SumXY(dx, dy)), Norm(ISum(dx) * ISum(dy), n)), R(n - 1))
\* the crate as first read (regression witness): no correction term
ShiftedOnePassCovNoCorrection(x, y) ==
  LET n == Len(x) IN Norm(SumXY([i \in 1..n |-> x[i] - x[1]], [i \in 1..n |-> y[i] - y[1]]), n - 1)
\* online co-moment: c += dx_old * (y - meany_new)
RECURSIVE OnlineFrom(_, _, _, _)
OnlineFrom(x, y, i, st) ==
  IF i > Len(x) THEN st
  ELSE LET n == i
           dx == RSub(R(x[i]), st.mx)  dy == RSub(R(y[i]), st.my)
           mx2 == RAdd(st.mx, RDiv(dx, R(n)))  my2 == RAdd(st.my, RDiv(dy, R(n)))
       IN OnlineFrom(x, y, i + 1, TLCEval([mx |-> mx2, my |-> my2, c |-> RAdd(st.c, RMul(dx, RSub(R(y[i]), my2)))]))
OnlineCov(x, y) == RDiv(OnlineFrom(x, y, 1, [mx |-> RZ, my |-> RZ, c |-> RZ]).c, R(Len(x) - 1))

\* folds of order.rs
RECURSIVE ArgFold(_, _, _, _)
ArgFold(x, i, acc, less) ==       \* acc = <<index, value or "none">>; strict comparison keeps the first occurrence
  IF i > Len(x) THEN acc[1]
  ELSE IF acc[2] = <<>> \/ (IF less THEN x[i] < acc[2][1] ELSE x[i] > acc[2][1])
       THEN ArgFold(x, i + 1, <<i - 1, <<x[i]>>>>, less) ELSE ArgFold(x, i + 1, acc, less)
ArgMinCode(x) == ArgFold(x, 1, <<0, <<>>>>, TRUE)
ArgMaxCode(x) == ArgFold(x, 1, <<0, <<>>>>, FALSE)
BinCentresCode(e) == [i \in 1..(Len(e) - 1) |-> Norm(e[i] + e[i + 1], 2)]
\* the crate as first read (regression witness): first centre plus cumulative widths
BinCentresCumulative(e) == [i \in 1..(Len(e) - 1) |-> RAdd(Norm(e[1] + e[2], 2), R(e[i] - e[1]))]

Shift(x, c) == [i \in 1..Len(x) |-> x[i] + c]
Scale(x, k) == [i \in 1..Len(x) |-> k * x[i]]
=============================================================================
