SPECIFICATION Spec
CONSTANTS
  W = 12
  NMax = 18
INVARIANTS Inv_FitsExact Inv_LoopInvariant
CHECK_DEADLOCK FALSE
