-------------------------------- MODULE Reals --------------------------------
\* Exact rational arithmetic for the specifications: a rational is <<n, d>> with d > 0 and
\* gcd(|n|, d) = 1.  Extended values are the strings "nan", "inf", "-inf".
\* TLC integers are 32-bit and overflow is a loud error, so all uses keep numbers small.
EXTENDS Integers, Sequences

RAbs(x) == IF x < 0 THEN 0 - x ELSE x
RECURSIVE Gcd(_, _)
Gcd(a, b) == IF b = 0 THEN a ELSE Gcd(b, a % b)

Norm(n, d) == LET s == IF d < 0 THEN 0 - 1 ELSE 1
                  g == Gcd(RAbs(n), RAbs(d))
              IN IF n = 0 THEN <<0, 1>> ELSE <<(s * n) \div g, (s * d) \div g>>
R(n)        == <<n, 1>>
RZ          == <<0, 1>>
ROne        == <<1, 1>>
\* sums over the least common denominator (keeps intermediates small)
RAdd(a, b)  == LET g == Gcd(a[2], b[2]) IN Norm(a[1] * (b[2] \div g) + b[1] * (a[2] \div g), (a[2] \div g) * b[2])
RSub(a, b)  == LET g == Gcd(a[2], b[2]) IN Norm(a[1] * (b[2] \div g) - b[1] * (a[2] \div g), (a[2] \div g) * b[2])
\* products cross-cancel first
RMul(a, b)  == LET g1 == Gcd(RAbs(a[1]), b[2])  g2 == Gcd(RAbs(b[1]), a[2])
                   h1 == IF g1 = 0 THEN 1 ELSE g1   h2 == IF g2 = 0 THEN 1 ELSE g2 IN
               Norm((a[1] \div h1) * (b[1] \div h2), (a[2] \div h2) * (b[2] \div h1))
RDiv(a, b)  == RMul(a, IF b[1] < 0 THEN <<0 - b[2], 0 - b[1]>> ELSE <<b[2], b[1]>>)          \* b # 0
RNeg(a)     == <<0 - a[1], a[2]>>
\* comparisons over the least common denominator (smaller products than plain cross-multiplication)
CmpL(a, b)  == a[1] * (b[2] \div Gcd(a[2], b[2]))
CmpR(a, b)  == b[1] * (a[2] \div Gcd(a[2], b[2]))
RLt(a, b)   == CmpL(a, b) < CmpR(a, b)
RLe(a, b)   == CmpL(a, b) <= CmpR(a, b)
REq(a, b)   == CmpL(a, b) = CmpR(a, b)
RIsZero(a)  == a[1] = 0
RAbsR(a)    == <<RAbs(a[1]), a[2]>>
RSq(a)      == RMul(a, a)
RMax(a, b)  == IF RLt(a, b) THEN b ELSE a
RMin(a, b)  == IF RLt(a, b) THEN a ELSE b
RECURSIVE RPow(_, _)
RPow(a, k)  == IF k = 0 THEN ROne ELSE RMul(a, RPow(a, k - 1))
RFloor(a)   == a[1] \div a[2]                            \* TLC \div floors toward -infinity
IsInt(a)    == a[2] = 1

\* JSON form used on the wire
RJ(a)       == [n |-> a[1], d |-> a[2]]
RSeqJ(s)    == [i \in 1..Len(s) |-> RJ(s[i])]

RECURSIVE RSum(_)
RSum(s)     == IF s = <<>> THEN RZ ELSE RAdd(s[1], RSum(Tail(s)))
RDot(x, y)  == RSum([i \in 1..Len(x) |-> RMul(x[i], y[i])])
=============================================================================
