--------------------------- MODULE Trace_Products ---------------------------
\* P3 for C05: each recorded product call on random integer matrices must return exactly ProdSpec
\* (or panic iff non-conformable); for shapes 17..64 only the relational observation
\* matmul_blocked = matmul (bit for bit, computed by the harness) is validated.
EXTENDS Products, TLC, Json, IOUtils
Rec == ndJsonDeserialize(IOEnv.TRACE)
VARIABLE l
Init == l = 1
Step(ev) ==
  IF ev.call = "blocked_equals_plain" THEN ev.same = TRUE
  ELSE LET s == ProdSpec(ev.a, ev.b, ev.ta, ev.tb) IN
       IF s = PPanic THEN ev.out = "panic" ELSE ev.out = "ok" /\ ev.data = s.data
Next == l <= Len(Rec) /\ Step(Rec[l]) /\ l' = l + 1
Spec == Init /\ [][Next]_l
Accepted == LET d == TLCGet("stats").diameter IN
            IF d - 1 = Len(Rec) THEN TRUE ELSE PrintT("REJECTED at " \o ToString(d)) /\ FALSE
=============================================================================
