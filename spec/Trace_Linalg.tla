---------------------------- MODULE Trace_Linalg ----------------------------
\* P3 for C01 and C11: certificates evaluated in exact arithmetic on the implementation's own
\* (rationalised) output.  Observed numbers are records [p, q, e]: best rational p/q with q below the
\* harness bound and binary exponent e of the relative residual (-999 = exact); q = 0 marks a
\* non-finite value.  A rationalisation is accepted with e <= -36 (about 1e-11 relative).
\*
\* Event kinds
\*   exact     C01  entry point result X for integer A, B with integer solution:  A X = B
\*   obs       C01  real-valued matrix classes: finite and scaled residual <= 64 n (harness-computed observation)
\*   lu        C11  factors from lu() / Matrix::lu(): permutation, unit lower |L| <= 1, P A = L U, slice = Matrix
\*   det       C11  Matrix::det / lu_det against the exact determinant
\*   chol      C11  factor of an SPD matrix: lower, positive diagonal, L L^T = A, slice = Matrix
\*   reject    C11  not positive definite input must be rejected (panic), never a value
\*   tri       C11  forward / backward substitution invert triangular systems
EXTENDS Linalg, Json, IOUtils, FiniteSets
Rec == ndJsonDeserialize(IOEnv.TRACE)
VARIABLE l
Init == l = 1

Fin(x)    == x.q > 0 /\ x.e <= -36
Val(x)    == Norm(x.p, x.q)
Square(n, flat) == [i \in 1..n |-> [j \in 1..n |-> flat[(i - 1) * n + j]]]
Rect(n, k, flat) == [i \in 1..n |-> [j \in 1..k |-> flat[(i - 1) * k + j]]]
AllFin(s) == \A i \in 1..Len(s) : Fin(s[i])
ValsSq(n, s) == Square(n, [i \in 1..Len(s) |-> Val(s[i])])
IntSq(n, s)  == Square(n, [i \in 1..Len(s) |-> R(s[i])])

Exact(ev) == /\ ev.out = "ok" /\ Len(ev.x) = ev.n * ev.k /\ AllFin(ev.x)
             /\ LET A == IntSq(ev.n, ev.a)
                    B == Rect(ev.n, ev.k, [i \in 1..Len(ev.b) |-> R(ev.b[i])])
                    X == Rect(ev.n, ev.k, [i \in 1..Len(ev.x) |-> Val(ev.x[i])])
                IN MatMul(A, X) = B

Obs(ev) == ev.out = "ok" /\ ev.finite = TRUE /\ ev.resid >= 0 /\ ev.resid <= 64 * ev.n

LU(ev) == /\ ev.out = "ok" /\ ev.same = TRUE /\ AllFin(ev.lu)
          /\ LUCertificate(IntSq(ev.n, ev.a), ValsSq(ev.n, ev.lu), ev.piv)

DetEv(ev) == ev.out = "ok" /\ Fin(ev.det) /\ Val(ev.det) = Det(IntSq(ev.n, ev.a))

\* the factor itself may be irrational (its entries are then only approximated by p/q): structure is read
\* off the approximations (exact zeros above the diagonal, positive diagonal), the reconstruction
\* L L^T is an observation computed by the harness and must rationalise to A exactly
Chol(ev) == /\ ev.out = "ok" /\ ev.same = TRUE /\ AllFin(ev.llt)
            /\ \A i \in 1..Len(ev.l) : ev.l[i].q > 0
            /\ LET L == ValsSq(ev.n, ev.l) IN
               /\ \A i \in 1..ev.n, j \in 1..ev.n : j > i => (RIsZero(L[i][j]) /\ ev.l[(i - 1) * ev.n + j].e = -999)
               /\ \A i \in 1..ev.n : RLt(RZ, L[i][i])
            /\ ValsSq(ev.n, ev.llt) = IntSq(ev.n, ev.a)
            /\ (AllFin(ev.l) => LET L == ValsSq(ev.n, ev.l) IN MatMul(L, TransposeM(L)) = IntSq(ev.n, ev.a))

\* must be rejected: some principal minor is negative (indefinite by a margin) or a diagonal entry is not
\* positive; a singular positive semi-definite matrix sits on the rounding boundary and may go either way,
\* but if a factor is returned for it, it must be a finite lower-triangular L with L L^T = A
PrincipalMinor(A, S) == LET idx == CHOOSE f \in [1..Cardinality(S) -> S] : \A a, b \in 1..Cardinality(S) : a < b => f[a] < f[b] IN
                        Det([i \in 1..Cardinality(S) |-> [j \in 1..Cardinality(S) |-> A[idx[i]][idx[j]]]])
MustReject(A) == (\E i \in 1..N(A) : ~RLt(RZ, A[i][i])) \/ (\E S \in (SUBSET (1..N(A))) \ {{}} : RLt(PrincipalMinor(A, S), RZ))
Reject(ev) == IF MustReject(IntSq(ev.n, ev.a)) THEN ev.out = "panic"
              ELSE IF ev.out = "panic" THEN TRUE        \* (IF, not \/: TLC evaluates every disjunct of a next-state relation)
                   ELSE AllFin(ev.llt) /\ ValsSq(ev.n, ev.llt) = IntSq(ev.n, ev.a) /\ \A i \in 1..Len(ev.l) : ev.l[i].q > 0

Tri(ev) == /\ ev.out = "ok" /\ AllFin(ev.x)
           /\ LET T == IntSq(ev.n, ev.a)
                  X == [i \in 1..ev.n |-> <<Val(ev.x[i])>>]
              IN MatMul(T, X) = [i \in 1..ev.n |-> <<R(ev.b[i])>>]

\* positive definiteness and the factor do not depend on the units: A s^2 is accepted and factored as L s (s a power of two: exactly)
CholScaled(ev) == ev.slice_ok = TRUE /\ ev.matrix_ok = TRUE /\ ev.slice_is_scaled_factor = TRUE /\ ev.matrix_is_scaled_factor = TRUE
\* LU of A 2^e (e = -600, 560): same pivots, same L, U times 2^e - bit for bit, at slice and Matrix level (the pivot search compares
\* magnitudes, nothing in the factorisation is relative to an absolute size)
LuScaled(ev) == ev.slice_ok = TRUE /\ ev.matrix_ok = TRUE /\ ev.slice_is_scaled_factor = TRUE /\ ev.matrix_is_scaled_factor = TRUE
\* an input symmetric only up to the last bit (one off-diagonal entry moved by an ulp): both levels read the same triangle - they agree on
\* acceptance and, when they accept, on every bit of the factor
CholNearSym(ev) == ev.slice_ok = ev.matrix_ok /\ ev.same = TRUE
Step(ev) == CASE ev.kind = "chol_nearsym" -> CholNearSym(ev) [] ev.kind = "chol_scaled" -> CholScaled(ev) [] ev.kind = "lu_scaled" -> LuScaled(ev) [] ev.kind = "exact" -> Exact(ev) [] ev.kind = "obs" -> Obs(ev) [] ev.kind = "lu" -> LU(ev)
              [] ev.kind = "det" -> DetEv(ev) [] ev.kind = "chol" -> Chol(ev) [] ev.kind = "reject" -> Reject(ev)
              [] ev.kind = "tri" -> Tri(ev)
Next == l <= Len(Rec) /\ Step(Rec[l]) /\ l' = l + 1
Spec == Init /\ [][Next]_l
Accepted == LET d == TLCGet("stats").diameter IN
            IF d - 1 = Len(Rec) THEN TRUE ELSE PrintT("REJECTED at " \o ToString(d)) /\ FALSE
=============================================================================
