------------------------------ MODULE SpecialFn ------------------------------
\* Special functions (property C09).  A TLA+ specification cannot define Gamma, psi or erf; what it states:
\*   - exact integer / rational identities: Gamma(n+1) = n! (big naturals), psi(n+1) - psi(1) = H_n,
\*     B(a, b) = (a-1)! (b-1)! / (a+b-1)! for integers
\*   - acceptance predicates over error observations at the points of committed reference tables
\*     (spec/ref/*.ndjson, generated with mpmath at 50 digits by tools/gen_reftables.py) and over identity
\*     observations (Gamma(x+1) = x Gamma(x), psi(x+1) = psi(x) + 1/x, B(a,b) = B(b,a) = Gamma Gamma / Gamma,
\*     erf odd and bounded).  This is the weakest use of the technique (DESIGN 1, D4).
EXTENDS Integers, Sequences, FiniteSets, Reals, BigNat

RECURSIVE Fact(_)
Fact(n) == IF n = 0 THEN <<1>> ELSE BMulSmall(TLCEval(Fact(n - 1)), n)
RECURSIVE Harmonic(_)
Harmonic(n) == IF n = 0 THEN RZ ELSE RAdd(Harmonic(n - 1), <<1, n>>)

\* tolerances of the property as binary exponents: 1e-13 ~ 2^-43, 1e-12 ~ 2^-39, 1e-10 ~ 2^-33; erf 1.5e-7 absolute
Accept(ev) ==
  /\ ev.out = "ok" /\ ev.finite = TRUE
  /\ CASE ev.fn = "gamma" -> ev.relerr_log2 - ev.polefactor_log2 <= -43          \* scaled by proximity to a pole
       [] ev.fn = "gamma_recurrence" -> ev.relerr_log2 - ev.polefactor_log2 <= -42
       [] ev.fn = "digamma" -> ev.relerr_log2 <= -33
       [] ev.fn = "digamma_recurrence" -> ev.relerr_log2 <= -33
       [] ev.fn = "beta" -> ev.relerr_log2 <= -39
       [] ev.fn = "erf" -> ev.abserr_e9 <= 150 /\ ev.odd = TRUE /\ ev.bounded = TRUE
=============================================================================
