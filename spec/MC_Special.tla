------------------------------ MODULE MC_Special ------------------------------
\* C17 case generation: exact binomial coefficients (all n <= NP by Pascal; large n by the multiplicative
\* formula, cross-checked against Pascal for n <= 30), Box-Cox on rational points, transform grids.
EXTENDS Special, Json
CONSTANTS NP
VARIABLE c
BigNs == {100, 1000, 10000, 100000, 200000}
SqPts == {<<1, 4>>, <<1, 1>>, <<4, 1>>, <<9, 4>>, <<16, 1>>, <<25, 9>>}
\* n beyond 32 bits (base-10^4 limbs, least significant first): 2^32 + 1, 5e9, the largest n whose C(n, 2) fits in 64 bits
\* (6074001000) and its successor, 2^33 + 12345
\* (the last four: 2^63 - 1, 2^63, 2^63 + 1 and 2^64 - 1, where only k = 0, 1 and their mirror images fit)
HugeNs == {<<7297, 9496, 42>>, <<0, 0, 50>>, <<1000, 7400, 60>>, <<1001, 7400, 60>>, <<6937, 8994, 85>>,
           <<5807, 5477, 6854, 7203, 9223>>, <<5808, 5477, 6854, 7203, 9223>>, <<5809, 5477, 6854, 7203, 9223>>, <<1615, 5955, 737, 4407, 8446, 1>>}
Init == \/ \E n \in 0..NP : c = [fam |-> "pascal", n |-> n]
        \/ \E nB \in HugeNs, k \in 0..3, sym \in {TRUE, FALSE} : c = [fam |-> "hugen", nB |-> nB, k |-> k, sym |-> sym]
        \/ \E n \in BigNs, k \in 0..32 : c = [fam |-> "bign", n |-> n, k |-> k]
        \/ \E x \in SqPts, h \in {0 - 4, 0 - 2, 0 - 1, 1, 2, 4, 6}, sh \in {0 - 1, 0, 2} : c = [fam |-> "boxcox", x |-> x, h |-> h, sh |-> sh]
Next == UNCHANGED c
Spec == Init /\ [][Next]_c
\* Pascal's rule and symmetry hold by construction of the row; the multiplicative formula agrees with it
Inv_Symmetry == c.fam = "pascal" => LET r == Pascal(c.n) IN \A k \in 1..(c.n + 1) : r[k] = r[c.n + 2 - k]
\* the big-n formula agrees with the small-n one where both apply (n = 100000 as limbs <<0, 10>>), and with n (n - 1) / 2
Inv_BigAgrees == c.fam = "hugen" => /\ Trim(BinomMulBig(<<0, 10>>, c.k)) = Trim(BinomMul(100000, c.k))
                                    /\ (c.k = 2 => BMulSmall(BinomMulBig(c.nB, 2), 2) = BMul(c.nB, BSubSmall(c.nB, 1)))
Inv_MulAgrees == (c.fam = "pascal" /\ c.n <= 30) => LET r == Pascal(c.n) IN \A k \in 0..c.n : Trim(BinomMul(c.n, k)) = Trim(r[k + 1])
Emit == CASE c.fam = "pascal" -> PrintT(<<"CASE", ToJson([fam |-> "pascal", n |-> c.n, row |-> Pascal(c.n)])>>)
          [] c.fam = "bign" -> LET b == BinomMul(c.n, c.k) IN
                               PrintT(<<"CASE", ToJson([fam |-> "bign", n |-> c.n, k |-> c.k, v |-> b, fits |-> Fits64(b)])>>)
          [] c.fam = "hugen" -> LET b == BinomMulBig(c.nB, c.k) IN
                               PrintT(<<"CASE", ToJson([fam |-> "hugen", nB |-> c.nB, k |-> c.k, sym |-> c.sym, v |-> b, fits |-> Fits64(b)])>>)
          [] c.fam = "boxcox" ->
               \* the data point is x - shift so that x + shift... the transform sees x: the point passed is (x - sh), shift sh
               PrintT(<<"CASE", ToJson([fam |-> "boxcox", x |-> RJ(c.x), h |-> c.h, sh |-> c.sh, exp |-> RJ(BoxCoxSpec(c.x, c.h))])>>)
=============================================================================
