------------------------------ MODULE MC_Special ------------------------------
\* C17 case generation: exact binomial coefficients (all n <= NP by Pascal; large n by the multiplicative
\* formula, cross-checked against Pascal for n <= 30), Box-Cox on rational points, transform grids.
EXTENDS Special, Json
CONSTANTS NP
VARIABLE c
BigNs == {100, 1000, 10000, 100000, 200000}
SqPts == {<<1, 4>>, <<1, 1>>, <<4, 1>>, <<9, 4>>, <<16, 1>>, <<25, 9>>}
Init == \/ \E n \in 0..NP : c = [fam |-> "pascal", n |-> n]
        \/ \E n \in BigNs, k \in 0..32 : c = [fam |-> "bign", n |-> n, k |-> k]
        \/ \E x \in SqPts, h \in {0 - 4, 0 - 2, 0 - 1, 1, 2, 4, 6}, sh \in {0 - 1, 0, 2} : c = [fam |-> "boxcox", x |-> x, h |-> h, sh |-> sh]
Next == UNCHANGED c
Spec == Init /\ [][Next]_c
\* Pascal's rule and symmetry hold by construction of the row; the multiplicative formula agrees with it
Inv_Symmetry == c.fam = "pascal" => LET r == Pascal(c.n) IN \A k \in 1..(c.n + 1) : r[k] = r[c.n + 2 - k]
Inv_MulAgrees == (c.fam = "pascal" /\ c.n <= 30) => LET r == Pascal(c.n) IN \A k \in 0..c.n : Trim(BinomMul(c.n, k)) = Trim(r[k + 1])
Emit == CASE c.fam = "pascal" -> PrintT(<<"CASE", ToJson([fam |-> "pascal", n |-> c.n, row |-> Pascal(c.n)])>>)
          [] c.fam = "bign" -> LET b == BinomMul(c.n, c.k) IN
                               PrintT(<<"CASE", ToJson([fam |-> "bign", n |-> c.n, k |-> c.k, v |-> b, fits |-> Fits64(b)])>>)
          [] c.fam = "boxcox" ->
               \* the data point is x - shift so that x + shift... the transform sees x: the point passed is (x - sh), shift sh
               PrintT(<<"CASE", ToJson([fam |-> "boxcox", x |-> RJ(c.x), h |-> c.h, sh |-> c.sh, exp |-> RJ(BoxCoxSpec(c.x, c.h))])>>)
=============================================================================
