------------------------------- MODULE Kernels -------------------------------
\* Covariance kernels (property C20).  The rational quadratic kernel is a rational function for integer
\* mixture parameter alpha:   RQ(x, y) = v * (1 + d^2 / (2 alpha l^2))^(-alpha),  d = x - y.
\* The RBF kernel v * exp(-d^2 / (2 l^2)) is specified through its exponent t = d^2 / (2 l^2) (a rational);
\* exp itself is the scalar oracle the harness supplies (as for the element-wise maps of C04).
\* Gram matrices: one row per first-argument point, one column per second-argument point; positive
\* semi-definiteness by principal minors (exact, for RQ).
EXTENDS Integers, Sequences, FiniteSets, Reals, TLC, Linalg

Dist2(x, y) == RSq(RSub(x, y))
RQ(v, alpha, l, x, y) == RMul(v, RDiv(ROne, RPow(RAdd(ROne, RDiv(Dist2(x, y), RMul(R(2 * alpha), RSq(l)))), alpha)))
\* mixture parameter 1/2: RQ = v / sqrt(1 + d^2 / l^2), rational exactly when 1 + (d/l)^2 is a rational square, i.e. when
\* (d/l, 1, .) is a Pythagorean triple: d/l in {3/4, 4/3, 5/12, 12/5, 8/15, 15/8, ...}
ISqrt(n) == CHOOSE k \in 0..n : k * k = n
IsSquareQ(q) == (\E k \in 0..q[1] : k * k = q[1]) /\ (\E k \in 0..q[2] : k * k = q[2])
SqrtQ(q) == <<ISqrt(q[1]), ISqrt(q[2])>>
HalfBase(l, x, y) == RAdd(ROne, RDiv(Dist2(x, y), RSq(l)))
RQHalf(v, l, x, y) == RDiv(v, SqrtQ(HalfBase(l, x, y)))
\* mixture parameter 3/2: RQ = v / base^(3/2) with base = 1 + d^2 / (3 l^2) a rational square
ThreeHalvesBase(l, x, y) == RAdd(ROne, RDiv(Dist2(x, y), RMul(R(3), RSq(l))))
RQThreeHalves(v, l, x, y) == LET r == SqrtQ(ThreeHalvesBase(l, x, y)) IN RDiv(v, RMul(r, RMul(r, r)))
RBFExponent(l, x, y) == RDiv(Dist2(x, y), RMul(R(2), RSq(l)))
\* the crate as first read (regression witness): exponent +alpha
RQWrongSign(v, alpha, l, x, y) == RMul(v, RPow(RAdd(ROne, RDiv(Dist2(x, y), RMul(R(2 * alpha), RSq(l)))), alpha))

Gram(k(_, _), X, Y) == [i \in 1..Len(X) |-> [j \in 1..Len(Y) |-> k(X[i], Y[j])]]
\* all principal minors of a symmetric matrix are >= 0
SubMat(G, S) == LET idx == CHOOSE f \in [1..Cardinality(S) -> S] : \A a, b \in 1..Cardinality(S) : a < b => f[a] < f[b] IN
                [i \in 1..Cardinality(S) |-> [j \in 1..Cardinality(S) |-> G[idx[i]][idx[j]]]]
PSD(G) == \A S \in (SUBSET (1..Len(G))) \ {{}} : RLe(RZ, Det(SubMat(G, S)))
=============================================================================
