------------------------------- MODULE Kernels -------------------------------
\* Covariance kernels (property C20).  The rational quadratic kernel is a rational function for integer
\* mixture parameter alpha:   RQ(x, y) = v * (1 + d^2 / (2 alpha l^2))^(-alpha),  d = x - y.
\* The RBF kernel v * exp(-d^2 / (2 l^2)) is specified through its exponent t = d^2 / (2 l^2) (a rational);
\* exp itself is the scalar oracle the harness supplies (as for the element-wise maps of C04).
\* Gram matrices: one row per first-argument point, one column per second-argument point; positive
\* semi-definiteness by principal minors (exact, for RQ).
EXTENDS Integers, Sequences, FiniteSets, Reals, TLC, Linalg

Dist2(x, y) == RSq(RSub(x, y))
RQ(v, alpha, l, x, y) == RMul(v, RDiv(ROne, RPow(RAdd(ROne, RDiv(Dist2(x, y), RMul(R(2 * alpha), RSq(l)))), alpha)))
RBFExponent(l, x, y) == RDiv(Dist2(x, y), RMul(R(2), RSq(l)))
\* the crate as first read (regression witness): exponent +alpha
RQWrongSign(v, alpha, l, x, y) == RMul(v, RPow(RAdd(ROne, RDiv(Dist2(x, y), RMul(R(2 * alpha), RSq(l)))), alpha))

Gram(k(_, _), X, Y) == [i \in 1..Len(X) |-> [j \in 1..Len(Y) |-> k(X[i], Y[j])]]
\* all principal minors of a symmetric matrix are >= 0
SubMat(G, S) == LET idx == CHOOSE f \in [1..Cardinality(S) -> S] : \A a, b \in 1..Cardinality(S) : a < b => f[a] < f[b] IN
                [i \in 1..Cardinality(S) |-> [j \in 1..Cardinality(S) |-> G[idx[i]][idx[j]]]]
PSD(G) == \A S \in (SUBSET (1..Len(G))) \ {{}} : RLe(RZ, Det(SubMat(G, S)))
=============================================================================
