SPECIFICATION Spec
CONSTANTS
  L = 4
  M = 2
  E = 6
INVARIANTS Inv_Welford Inv_Cov Inv_Order Inv_Laws Inv_Bins Emit
CHECK_DEADLOCK FALSE
