--------------------------- MODULE BroadcastCompat ---------------------------
\* Unbounded lemma for C12, discharged by Apalache (apalache-mc check --length=0 --inv=Inv):
\* for ALL natural shapes the classifier of broadcast.rs (its assertions, the operand swap, the Invalid leaf)
\* yields a value exactly when the shapes are NumPy-compatible.  TLC checks the same statement (and the values)
\* exhaustively up to 6 x 6 in MC_Broadcast; this module removes the bound for the accept / reject decision.
EXTENDS Integers

VARIABLES
  \* @type: Int;
  a1,
  \* @type: Int;
  b1,
  \* @type: Int;
  a2,
  \* @type: Int;
  b2

\* the branch taken when the FIRST operand has a dimension equal to 1 (after the equal-shape test failed)
\* @type: (Int, Int, Int, Int) => Bool;
FirstHasOne(p1, q1, p2, q2) ==
  IF p1 = 1 THEN (q1 = q2 \/ q2 = 1 \/ q1 = 1)       \* assert! in the single-row branch; every case then has a leaf
  ELSE (p1 = p2 \/ p2 = 1 \/ p1 = 1)                 \* single-column branch

ClassifierAccepts ==
  IF a1 = a2 /\ b1 = b2 THEN TRUE
  ELSE IF a1 = 1 \/ b1 = 1 THEN FirstHasOne(a1, b1, a2, b2)
  ELSE IF a2 = 1 \/ b2 = 1 THEN FirstHasOne(a2, b2, a1, b1)      \* operand swap
  ELSE FALSE                                                    \* Invalid leaf

NumPyCompatible == (a1 = a2 \/ a1 = 1 \/ a2 = 1) /\ (b1 = b2 \/ b1 = 1 \/ b2 = 1)

Init == a1 \in Int /\ b1 \in Int /\ a2 \in Int /\ b2 \in Int /\ a1 >= 1 /\ b1 >= 1 /\ a2 >= 1 /\ b2 >= 1
Next == UNCHANGED <<a1, b1, a2, b2>>
Inv == ClassifierAccepts <=> NumPyCompatible
=============================================================================
