---------------------------- MODULE MC_Products ----------------------------
\* C05: P1 on the code-shaped models for shapes 1..KC (MatmulCode, BlockedCode for all block sizes 1..2 KC),
\* and emission of one case per (m, l, n, flags) for shapes 1..K with the exact product, plus the
\* non-conformable neighbours.
EXTENDS Products, TLC, Json
CONSTANTS K, KC, KV
VARIABLE c
Bool == {TRUE, FALSE}
\* all shapes up to K, plus long inner products (m = n = 1, l up to KV: every residue of the unroll width)
Init == \/ \E m \in 1..K, l \in 1..K, n \in 1..K, ta \in Bool, tb \in Bool, bad \in 0..1 :
             c = [m |-> m, l |-> l, n |-> n, ta |-> ta, tb |-> tb, bad |-> bad]
        \/ \E l \in ((K + 1)..KV) \cup {64, 65, 70, 96, 97, 130}, ta \in Bool, tb \in Bool, bad \in 0..1 :
             c = [m |-> 1, l |-> l, n |-> 1, ta |-> ta, tb |-> tb, bad |-> bad]
        \* long inner dimension with non-trivial outer ones (a kernel chosen by the inner length must still lay out B and C correctly)
        \/ \E s \in {<<2, 64, 3>>, <<3, 65, 5>>, <<2, 70, 1>>, <<1, 96, 4>>, <<3, 130, 2>>, <<5, 64, 2>>}, ta \in Bool, tb \in Bool, bad \in 0..1 :
             c = [m |-> s[1], l |-> s[2], n |-> s[3], ta |-> ta, tb |-> tb, bad |-> bad]
Next == UNCHANGED c
Spec == Init /\ [][Next]_c

\* storage shapes: op(A) is m x l, op(B) is (l + bad) x n
A == IF c.ta THEN SA(c.l, c.m) ELSE SA(c.m, c.l)
B == IF c.tb THEN SB(c.n, c.l + c.bad) ELSE SB(c.l + c.bad, c.n)
Small == c.m <= KC /\ c.l <= KC /\ c.n <= KC

Inv_Panics      == (c.bad = 1) <=> (ProdSpec(A, B, c.ta, c.tb) = PPanic)
Inv_MatmulCode  == Small => MatmulCode(A, B, c.ta, c.tb) = ProdSpec(A, B, c.ta, c.tb)
Inv_BlockedCode == Small => \A bs \in 1..(2 * KC) : BlockedCode(A, B, c.ta, c.tb, bs) = ProdSpec(A, B, c.ta, c.tb)
\* (X Y)^T = Y^T X^T, the identity the both-transposed branch relies on
Inv_TransposeIdentity == (Small /\ c.bad = 0) => Transpose(MulPlain(Op(A, c.ta), Op(B, c.tb))) = MulPlain(Transpose(Op(B, c.tb)), Transpose(Op(A, c.ta)))

\* homogeneity: scaling the operands by s and t scales the product by s t.  The replay uses it with powers of two
\* (exact in binary floating point) to carry the equality oracle to entries of magnitude 2^-60 .. 2^500.
ScaleM(X, s) == Mat(X.nrows, X.ncols, [q \in 1..Len(X.data) |-> s * X.data[q]])
Inv_Homogeneous == (Small /\ c.bad = 0) => \A s \in {2, 0 - 3}, t \in {1, 5} :
                      ProdSpec(ScaleM(A, s), ScaleM(B, t), c.ta, c.tb) = ScaleM(ProdSpec(A, B, c.ta, c.tb), s * t)

Emit == PrintT(<<"CASE", ToJson([m |-> c.m, l |-> c.l, n |-> c.n, ta |-> c.ta, tb |-> c.tb, bad |-> c.bad,
                                 a |-> A, b |-> B, exp |-> ProdSpec(A, B, c.ta, c.tb),
                                 xtx |-> ProdSpec(A, A, TRUE, FALSE)])>>)
=============================================================================
