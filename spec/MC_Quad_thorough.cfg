SPECIFICATION Spec
CONSTANTS
  NT = 12
  DMax = 19
  BigN = {1, 7, 64, 1000, 4096}
INVARIANTS Inv_TrapzExact Inv_TrapzSign Inv_TrapzBound Inv_TrapzLinear Inv_RombergExact Inv_RombergTol Emit
CHECK_DEADLOCK FALSE
