SPECIFICATION Spec
CONSTANTS
  MaxDepth = 4
VIEW View
INVARIANTS Inv_Valid Inv_Fresh Inv_Refines Emit
CHECK_DEADLOCK FALSE
