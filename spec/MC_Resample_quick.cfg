SPECIFICATION Spec
CONSTANTS
  NMax = 3
INVARIANTS Inv_Perm Inv_Paired Inv_Jack
CHECK_DEADLOCK FALSE
