---------------------------- MODULE MC_TimeSeries ----------------------------
\* C13: every integer series of length LMin..LMax over -M..M (autocovariance laws, Yule-Walker of order
\* 1 and 2), and forecasting with dyadic coefficients on integer histories.
EXTENDS TimeSeries, Json
CONSTANTS LMin, LMax, M, H
VARIABLE c
Series == UNION {[1..n -> (0 - M)..M] : n \in LMin..LMax}
\* orders 1, 1, 2, 3 and - every residue of the inner product's unroll width - 7, 8, 9 and 16
PhiSets == {<<<<1, 2>>>>, <<<<0 - 3, 4>>>>, <<<<1, 2>>, <<0 - 1, 4>>>>, <<<<0 - 1, 2>>, <<1, 8>>, <<1, 4>>>>,
            [k \in 1..7 |-> <<(k % 3) - 1, 4>>], [k \in 1..8 |-> <<((k * k) % 5) - 2, 8>>], [k \in 1..9 |-> <<1 - (k % 3), 4>>],
            [k \in 1..16 |-> <<((k * 3) % 7) - 3, 16>>]}
Hists == {<<3, 0 - 1, 4, 2>>, <<0, 0, 1, 0 - 2, 5>>, <<7, 7, 7, 7>>, [i \in 1..17 |-> ((i * i) % 7) - 3], [i \in 1..16 |-> (i % 4) - 1]}
Init == \/ \E x \in Series : c = [fam |-> "series", x |-> x]
        \/ \E phi \in PhiSets, d \in Hists, mu \in {R(0), R(2), <<0 - 5, 2>>} : Len(d) >= Len(phi) /\ c = [fam |-> "forecast", phi |-> phi, data |-> d, mu |-> mu]
Next == UNCHANGED c
Spec == Init /\ [][Next]_c
IsS == c.fam = "series"
NonConst == IsS /\ C(c.x, 0) > 0
n == Len(c.x)
Lags == (0 - (n - 1))..(n - 1)
Inv_Even  == IsS => \A k \in Lags : C(c.x, k) = C(c.x, 0 - k)
Inv_Bound == IsS => \A k \in Lags : AbsT(C(c.x, k)) <= C(c.x, 0)                 \* |acf| <= 1 = acf(0)
Inv_Shift == IsS => \A k \in 0..2 : C([i \in 1..n |-> c.x[i] + 5], k) = C(c.x, k)
Inv_Diff  == IsS => Difference(CumSum(c.x)) = Tail(c.x) /\ CumSum(Difference(c.x)) = [i \in 1..(n - 1) |-> c.x[i + 1] - c.x[1]]
Inv_DiffK == IsS => \A d \in 0..n : Len(DiffK(c.x, d)) = n - d
Inv_YW    == IsS => \A p \in 1..2 : YWDefined(c.x, p) => YWHolds(c.x, YuleWalker(c.x, p))
Inv_Predict == ~IsS => LET d == [i \in 1..Len(c.data) |-> R(c.data[i])] IN
                  /\ PredictCode(d, c.phi, c.mu, H) = PredictSpec(d, c.phi, c.mu, H)
                  \* adding a constant to series and mean adds it to every forecast
                  /\ PredictSpec([i \in 1..Len(d) |-> RAdd(d[i], R(100))], c.phi, RAdd(c.mu, R(100)), H)
                       = [i \in 1..H |-> RAdd(PredictSpec(d, c.phi, c.mu, H)[i], R(100))]
Emit == IF IsS THEN
          PrintT(<<"CASE", ToJson([fam |-> "series", x |-> c.x, c0 |-> C(c.x, 0),
                   acovf |-> [k \in 1..n |-> RJ(Acovf(c.x, k - 1))],
                   acf |-> IF NonConst THEN [k \in 1..n |-> RJ(Acf(c.x, k - 1))] ELSE <<>>,
                   mean |-> RJ(MeanT(c.x)), diffs |-> [d \in 1..n |-> DiffK(c.x, d)],
                   yw1 |-> IF YWDefined(c.x, 1) THEN RSeqJ(YuleWalker(c.x, 1)) ELSE <<>>,
                   yw2 |-> IF n >= 3 /\ YWDefined(c.x, 2) THEN RSeqJ(YuleWalker(c.x, 2)) ELSE <<>>])>>)
        ELSE PrintT(<<"CASE", ToJson([fam |-> "forecast", phi |-> RSeqJ(c.phi), data |-> c.data, mu |-> RJ(c.mu), h |-> H,
                   exp |-> RSeqJ(PredictSpec([i \in 1..Len(c.data) |-> R(c.data[i])], c.phi, c.mu, H))])>>)
=============================================================================
