----------------------------- MODULE MC_Families -----------------------------
EXTENDS Families, TLC, Json
VARIABLE c
Mus == {Norm(1, 8), Norm(1, 4), Norm(1, 2), Norm(3, 4), ROne, Norm(5, 2), R(7), R(40)}
Ys == {<<R(0), R(1), R(1)>>, <<R(2), R(0), R(5), R(1)>>, <<Norm(1, 2), Norm(3, 2)>>, <<R(1)>>}
Init == \/ \E f \in Fams, mu \in Mus : MeanOk(f, mu) /\ c = [fam |-> "pointwise", f |-> f, mu |-> mu]
        \/ \E f \in Fams, y \in Ys : c = [fam |-> "vectors", f |-> f, y |-> y]
Next == UNCHANGED c
Spec == Init /\ [][Next]_c
P == c.fam = "pointwise"
Inv_VariancePositive == P => RLt(RZ, Variance(c.f, c.mu))
Inv_BernoulliBound   == (P /\ c.f = "Bernoulli") => RLe(Variance(c.f, c.mu), Norm(1, 4))
\* canonical link: the working weight is the variance; log link on the scale families: constant 1
Inv_WorkingWeight    == P => WorkingWeight(c.f, c.mu) = (IF Canonical(c.f) THEN Variance(c.f, c.mu) ELSE ROne)
\* a shifted mean vector for the Gaussian deviance, y itself for the saturated fits
MuOf(y) == [i \in 1..Len(y) |-> RAdd(y[i], Norm(i, 2))]
Emit == IF P THEN PrintT(<<"CASE", ToJson([fam |-> "pointwise", f |-> c.f, mu |-> RJ(c.mu), variance |-> RJ(Variance(c.f, c.mu)),
                                            dinv |-> RJ(DInvLink(c.f, c.mu)), has_dispersion |-> HasDispersion(c.f)])>>)
        ELSE PrintT(<<"CASE", ToJson([fam |-> "vectors", f |-> c.f, y |-> RSeqJ(c.y), mu |-> RSeqJ(MuOf(c.y)),
                                      gaussian_deviance |-> RJ(GaussianDeviance(c.y, MuOf(c.y))),
                                      poisson_deviance_zero_or_mean |-> RJ(PoissonDevianceSimple(c.y, [i \in 1..Len(c.y) |-> IF RIsZero(c.y[i]) THEN Norm(i, 2) ELSE c.y[i]])),
                                      has_initial |-> HasInitial(c.f),
                                      initial_response |-> IF HasInitial(c.f) THEN RSeqJ(InitialResponse(c.f, c.y)) ELSE <<>>,
                                      initial_weights |-> IF HasInitial(c.f) THEN RSeqJ(InitialWeights(c.f, Len(c.y))) ELSE <<>>])>>)
=============================================================================
