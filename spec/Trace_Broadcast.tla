--------------------------- MODULE Trace_Broadcast ---------------------------
\* P3 for C12: each recorded call (shapes, operand data, operator, outcome, rationalised result)
\* must be exactly what BSpec prescribes; the result entries are logged as best rationals p/q with
\* the binary exponent e of the residual, and must equal the exact rational with e <= -45.
EXTENDS Broadcast, TLC, Json, IOUtils
Rec == ndJsonDeserialize(IOEnv.TRACE)
VARIABLE l
Init == l = 1

\* observed number: [p, q, e] (q = 0 marks a non-finite value)
ObsIs(x, r) == x.q > 0 /\ Norm(x.p, x.q) = r /\ x.e <= -45

Step(ev) == LET s == BSpec(ev.op, ev.l, ev.r) IN
            /\ ev.out = s.out
            /\ (s.out = "ok" => /\ ev.nrows = s.nrows /\ ev.ncols = s.ncols
                                /\ Len(ev.data) = Len(s.data)
                                /\ \A k \in 1..Len(s.data) : ObsIs(ev.data[k], s.data[k]))
Next == l <= Len(Rec) /\ Step(Rec[l]) /\ l' = l + 1
Spec == Init /\ [][Next]_l
Accepted == LET d == TLCGet("stats").diameter IN
            IF d - 1 = Len(Rec) THEN TRUE ELSE PrintT("REJECTED at " \o ToString(d)) /\ FALSE
=============================================================================
