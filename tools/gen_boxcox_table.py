#!/usr/bin/env python3-vt
"""Reference values of the Box-Cox transform (x^lambda - 1)/lambda for small and moderate |lambda| at arguments far
from 1 (C17), mpmath at 60 digits.  x = xn/xd and lambda = ln/ld are dyadic, so the harness rebuilds them exactly."""
import json, os
from mpmath import mp, mpf, nstr, power
mp.dps = 60
OUT = os.path.join(os.path.dirname(os.path.dirname(os.path.abspath(__file__))), "spec", "ref", "boxcox.ndjson")
xs = [(1, 2 ** 19), (3, 2 ** 12), (1, 1024), (3, 4), (5, 4), (5, 1), (1000, 1), (2 ** 19, 1), (999999, 1), (3, 2 ** 20)]
lams = []
for e in (8, 12, 16, 20, 21, 22, 24, 27, 30, 34):
    lams += [(1, 2 ** e), (-1, 2 ** e), (3, 2 ** (e + 1))]
lams += [(1, 8), (-3, 8), (5, 2), (-5, 1), (5, 1), (1, 3 * 2 ** 0 * 4)]
# arguments in the immediate neighbourhood of 1 (where the transform passes through 0 and x^lambda - 1 cancels): every moderate
# lambda and two tiny ones
near = [(2 ** 14 + 1, 2 ** 14), (2 ** 14 - 1, 2 ** 14), (2 ** 17 + 1, 2 ** 17), (2 ** 15 + 3, 2 ** 15), (2 ** 15 - 3, 2 ** 15), (2 ** 20 - 1, 2 ** 20),
        (2 ** 26 + 1, 2 ** 26), (1025, 1024), (1023, 1024), (2 ** 40 + 1, 2 ** 40)]
lams_near = [(5, 1), (-5, 1), (7, 2), (-2, 1), (17, 4), (-15, 4), (1, 2), (3, 1), (2, 1), (-1, 1), (1, 2 ** 20), (-1, 2 ** 30)]
with open(OUT, "w") as f:
    for (xn, xd) in xs + near:
        for (ln, ld) in (lams if (xn, xd) in xs else lams_near):
            if ld % 3 == 0: continue
            x, lam = mpf(xn) / xd, mpf(ln) / ld
            p = power(x, lam)
            v = (p - 1) / lam
            f.write(json.dumps({"xn": xn, "xd": xd, "ln": ln, "ld": ld, "v": nstr(v, 25, min_fixed=0, max_fixed=0), "pow": nstr(p, 20, min_fixed=0, max_fixed=0)}) + "\n")
print("written", OUT)
