#!/usr/bin/env python3-vt
"""Reference densities / masses and CDFs of the 13 univariate laws on a dyadic parameter grid (C02, C03),
computed with mpmath at 40 digits. Parameters are given in QUARTERS for real-valued fields (q means q/4) and
as integers for integer-typed fields, exactly as in spec/Dist.tla. Output: spec/ref/dist.ndjson with one row
per (kind, parameters): evaluation points x = xn/xd with pdf/pmf and cdf as 22-digit strings."""
import json, os
from mpmath import (mp, mpf, gamma, exp, log, sqrt, pi, erf, gammainc, betainc, beta, binomial, floor, nstr, inf, power)
mp.dps = 40
OUT = os.path.join(os.path.dirname(os.path.dirname(os.path.abspath(__file__))), "spec", "ref", "dist.ndjson")
DEN = 4
def Q(q): return mpf(q) / DEN

def normal(p):
    mu, s = Q(p[0]), Q(p[1])
    return (lambda x: exp(-((x - mu) / s) ** 2 / 2) / (s * sqrt(2 * pi)), lambda x: (1 + erf((x - mu) / (s * sqrt(2)))) / 2)
def gamma_(p):
    a, b = Q(p[0]), Q(p[1])
    return (lambda x: mpf(0) if x <= 0 else b ** a * x ** (a - 1) * exp(-b * x) / gamma(a), lambda x: mpf(0) if x <= 0 else gammainc(a, 0, b * x, regularized=True))
def beta_(p):
    a, b = Q(p[0]), Q(p[1])
    return (lambda x: mpf(0) if (x < 0 or x > 1) else x ** (a - 1) * (1 - x) ** (b - 1) / beta(a, b),
            lambda x: mpf(0) if x <= 0 else (mpf(1) if x >= 1 else betainc(a, b, 0, x, regularized=True)))
def chi2(p):
    k = mpf(p[0])
    pdf0, cdf0 = gamma_([int(2 * p[0]), 2])      # shape k/2 (quarters: 2k), rate 1/2 (quarters: 2)
    # the left end point belongs to the support for k >= 2 (x^(k/2 - 1) with 0^0 = 1): 1/2 for k = 2, 0 beyond; singular for k = 1
    def pdf(x):
        if x == 0: return mpf(0) ** (k / 2 - 1) / (2 ** (k / 2) * gamma(k / 2))
        return pdf0(x)
    return pdf, cdf0
def t_(p):
    v = Q(p[0])
    pdf = lambda x: gamma((v + 1) / 2) / (sqrt(v * pi) * gamma(v / 2)) * (1 + x * x / v) ** (-(v + 1) / 2)
    def cdf(x):
        ib = betainc(v / 2, mpf(1) / 2, 0, v / (v + x * x), regularized=True)
        return 1 - ib / 2 if x >= 0 else ib / 2
    return pdf, cdf
def pareto(p):
    a, m = Q(p[0]), Q(p[1])
    return (lambda x: mpf(0) if x < m else a * m ** a / x ** (a + 1), lambda x: mpf(0) if x < m else 1 - (m / x) ** a)
def gumbel(p):
    mu, b = Q(p[0]), Q(p[1])
    return (lambda x: exp(-((x - mu) / b + exp(-(x - mu) / b))) / b, lambda x: exp(-exp(-(x - mu) / b)))
def expo(p):
    l = Q(p[0])
    return (lambda x: mpf(0) if x < 0 else l * exp(-l * x), lambda x: mpf(0) if x < 0 else 1 - exp(-l * x))
def unif(p):
    a, b = Q(p[0]), Q(p[1])
    return (lambda x: mpf(0) if (x < a or x > b) else 1 / (b - a), lambda x: mpf(0) if x <= a else (mpf(1) if x >= b else (x - a) / (b - a)))
def dunif(p):
    a, b = p
    return (lambda x: mpf(0) if (x != floor(x) or x < a or x > b) else mpf(1) / (b - a + 1), lambda x: mpf(0) if x < a else (mpf(1) if x >= b else (floor(x) - a + 1) / (b - a + 1)))
def poisson(p):
    l = Q(p[0])
    pmf = lambda x: mpf(0) if (x < 0 or x != floor(x)) else exp(x * log(l) - l - log(gamma(x + 1)))
    cdf = lambda x: mpf(0) if x < 0 else gammainc(floor(x) + 1, l, inf, regularized=True)
    return pmf, cdf
def binom(p):
    n, pr = p[0], Q(p[1])
    def pmf(x):
        if x < 0 or x > n or x != floor(x): return mpf(0)
        return binomial(n, int(x)) * pr ** int(x) * (1 - pr) ** (n - int(x))
    def cdf(x):
        if x < 0: return mpf(0)
        if x >= n: return mpf(1)
        k = int(floor(x))
        if pr == 0: return mpf(1)
        if pr == 1: return mpf(0)
        return betainc(n - k, k + 1, 0, 1 - pr, regularized=True)
    return pmf, cdf
def bern(p):
    pr = Q(p[0])
    return (lambda x: (1 - pr) if x == 0 else (pr if x == 1 else mpf(0)), lambda x: mpf(0) if x < 0 else ((1 - pr) if x < 1 else mpf(1)))

GRID = {
 "Normal": (normal, [[0, 4], [40, 80], [-4000, 1], [12, 2]]),
 "Gamma": (gamma_, [[1, 4], [2, 4], [3, 4], [4, 4], [8, 2], [18, 16], [400, 4], [1, 2], [4, 4096], [10, 1]]),     # shape 1/4..100, rates 1/4..1024
 "Beta": (beta_, [[2, 2], [4, 4], [8, 16], [1, 12], [20, 2], [120, 120], [6, 3], [4, 12], [12, 4], [4, 2]]),      # incl. unit shapes (1, 3), (3, 1), (1, 1/2)
 "ChiSquared": (chi2, [[1], [2], [3], [5], [50], [200]]),
 "T": (t_, [[2], [4], [8], [12], [40], [800], [10]]),
 "Pareto": (pareto, [[2, 4], [4, 4], [16, 16], [12, 1], [10, 8]]),
 "Gumbel": (gumbel, [[0, 4], [-20, 1], [4000, 32]]),
 "Exponential": (expo, [[4], [1], [4096], [2], [12]]),
 "Uniform": (unif, [[-8, 24], [0, 4], [3, 5]]),
 "DiscreteUniform": (dunif, [[-2, 6], [0, 1], [0, 0], [5, 9]]),
 "Poisson": (poisson, [[1], [4], [20], [38], [40], [168], [600], [4000]]),    # rates 1/4 .. 1000 (incl. 9.5, 10, 150)
 "Binomial": (binom, [[0, 2], [1, 2], [15, 1], [70, 2], [1000, 1], [1000, 3], [60, 3], [12, 0], [12, 4], [12, 1]]),
 "Bernoulli": (bern, [[0], [1], [2], [3], [4]]),
}

# rows beyond the quarter grid: the tuple carries the denominator of its real-valued fields as a last element
# (slow rates ~1e-3, rare events p ~ 3e-5 and their mirror images, scales ~1e-3)
FINE = {
 "Normal": [[4002, 1, 1024]],
 "Gamma": [[1536, 1, 1024], [512, 2, 1024]],
 "Beta": [[40, 40, 1024], [50, 30, 1024]],                      # both shapes tiny (0.039 / 0.049, 0.029): the bimodal almost-Bernoulli corner
 "Pareto": [[1536, 1, 1024]],
 "Gumbel": [[100, 1, 1024]],
 "Exponential": [[1, 1024], [3, 1024]],
 "Uniform": [[1, 2, 1024]],
 "Poisson": [[1, 1024], [5, 1024]],
 "Binomial": [[1, 1, 32768], [10, 1, 32768], [10, 32767, 32768], [1000, 1, 32768], [1000, 32767, 32768], [40, 3, 1024],
              [3000, 39, 4096], [3000, 4057, 4096]],        # thousands of trials, success probability just below 1/100 (and mirrored), n p < 30: inversion
 "Bernoulli": [[1, 32768], [32767, 32768]],
}

def points(kind, p, cdf):
    """dyadic evaluation points: quantile-ish spread inside the support, its boundary, outside on both sides, far tails"""
    xs = set()
    if kind in ("DiscreteUniform", "Poisson", "Binomial", "Bernoulli"):
        if kind == "Poisson":
            l = float(Q(p[0])); c = int(l); w = int(6 * l ** 0.5) + 6
            ks = set(range(0, min(12, c + w))) | {c - w // 2, c - 1, c, c + 1, c + w // 2, c + w, 2 * c + 10}
        elif kind == "Binomial":
            n = p[0]; c = int(n * float(Q(p[1]))); w = int(4 * (n ** 0.5)) + 3
            ks = set(range(0, min(n, 13) + 1)) | {c - w, c - 1, c, c + 1, c + w, n - 1, n, n + 1, n + 5}
        elif kind == "DiscreteUniform":
            ks = set(range(p[0] - 2, p[1] + 3))
        else:
            ks = {-1, 0, 1, 2, 3}
        ks |= {-1, -5}
        # quantile-spread integer thresholds (about +-0.3 .. 3 standard deviations around the centre)
        if kind in ("Poisson", "Binomial"):
            for q in [mpf(k) / 16 for k in (1, 2, 4, 6, 8, 10, 12, 14, 15)] + [mpf(1) / 1000, 1 - mpf(1) / 1000]:
                a, b = -1, (p[0] if kind == "Binomial" else int(float(Q(p[0])) * 3 + 60))
                while b - a > 1:
                    m = (a + b) // 2
                    if cdf(mpf(m)) < q: a = m
                    else: b = m
                ks.add(b)
        return sorted((k, 1) for k in ks)
    # continuous: bracket the bulk by bisection on the cdf over dyadic points
    lo, hi = (-(mpf(2) ** 14), mpf(2) ** 14) if DEN == 4 else (-(mpf(2) ** 20), mpf(2) ** 20)
    qs = [mpf(k) / 16 for k in (1, 2, 4, 6, 8, 10, 12, 14, 15)] + [mpf(1) / 1000, 1 - mpf(1) / 1000, mpf(1) / 10 ** 6, 1 - mpf(1) / 10 ** 6]
    for q in qs:
        a, b = lo, hi
        for _ in range(60):
            m = (a + b) / 2
            if cdf(m) < q: a = m
            else: b = m
        # round to a dyadic with 10 fractional bits (or fewer for large values)
        m = (a + b) / 2
        sc = 1024 if abs(m) < 2 ** 16 else 1
        xs.add((int(floor(m * sc + mpf(1) / 2)), sc))
    extra = {"Uniform": [(p[0], DEN), (p[1], DEN), (p[0] - 1, DEN), (p[1] + 1, DEN), (p[0] - 400, DEN), (p[1] + 4000, DEN)] if kind == "Uniform" else [],
             "Beta": [(-1, 4), (5, 4), (-100, 1), (1, 1024), (1023, 1024), (0, 1), (1, 1)], "Gamma": [(-1, 4), (-1000, 1), (1, 1024), (0, 1)], "ChiSquared": [(-1, 4), (-7, 1), (1, 1024), (0, 1)],
             "Exponential": [(-1, 4), (0, 1), (-50, 1)], "Pareto": [(p[1] - 1, DEN), (p[1], DEN), (-3, 1), (0, 1), (p[1] * 64, DEN)] if kind == "Pareto" else [],
             "Normal": [(p[0] - 40 * p[1], DEN), (p[0] + 30 * p[1], DEN)] if kind == "Normal" else [], "T": [(0, 1), (-1000, 1), (4000, 1)], "Gumbel": [(p[0] - 8 * p[1], DEN), (p[0] + 200 * p[1], DEN), (p[0] - 3000 * p[1], DEN)] if kind == "Gumbel" else []}
    for e in extra.get(kind, []): xs.add(e)
    seen, out = set(), []
    for t in sorted(xs, key=lambda t: (mpf(t[0]) / t[1], t[1])):
        v = mpf(t[0]) / t[1]
        if v in seen: continue
        seen.add(v); out.append(t)
    return out

ALL = [(kind, mk, p, 4) for kind, (mk, plist) in GRID.items() for p in plist] + \
      [(kind, GRID[kind][0], p, p[-1]) for kind, plist in FINE.items() for p in plist]
with open(OUT, "w") as f:
    if True:
        for (kind, mk, p, den) in ALL:
            DEN = den
            pdf, cdf = mk(p)
            pts = []
            for (xn, xd) in points(kind, p, cdf):
                x = mpf(xn) / xd
                try:
                    pv = nstr(pdf(x), 22, min_fixed=0, max_fixed=0)
                except ZeroDivisionError:
                    pv = "inf"          # end-point singularity of the density (shape < 1): not judged
                pts.append({"xn": xn, "xd": xd, "pdf": pv, "cdf": nstr(cdf(x), 22, min_fixed=0, max_fixed=0)})
            f.write(json.dumps({"kind": kind, "p": p, "pts": pts}) + "\n")
print("written", OUT)
