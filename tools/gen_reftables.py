#!/usr/bin/env python3-vt
"""Generates the reference tables used by C09 (and the CDF tables of C02/C03) with mpmath at 50 digits.
Run once (python3-vt tools/gen_reftables.py); the outputs under spec/ref/ are committed.
Arguments are dyadic rationals xn/xd so that the harness rebuilds them exactly; values are 25-digit
decimal strings, parsed by the harness with correct rounding."""
import json, os, sys
from mpmath import mp, mpf, gamma, psi, erf, nstr
mp.dps = 50
OUT = os.path.join(os.path.dirname(os.path.dirname(os.path.abspath(__file__))), "spec", "ref")
os.makedirs(OUT, exist_ok=True)

def dy(n, d): return mpf(n) / mpf(d)
def rec(fn, n, d, v, **kw):
    r = {"fn": fn, "xn": n, "xd": d, "v": nstr(v, 25, min_fixed=0, max_fixed=0)}
    r.update(kw); return r

rows = []
# gamma: every multiple of 1/16 + 1/32 in (-170, 171.6): never an integer, distance to the nearest pole >= 1/32
k = -170 * 32 + 1
while k < int(171.6 * 32):
    x = dy(k, 32)
    if k % 2 == 1 and (k % 32 != 0):
        # keep about 700 points: every 16th odd numerator, denser near 0 and near the overflow edge
        if (k // 2) % 8 == 0 or abs(k) < 8 * 32 or k > 140 * 32 or k < -140 * 32:
            rows.append(rec("gamma", k, 32, gamma(x)))
    k += 1
# positive integers and half-integers (exact factorial structure), small arguments
for n in range(1, 172): rows.append(rec("gamma", n, 1, gamma(mpf(n))))
for n in range(1, 343, 2): rows.append(rec("gamma", n, 2, gamma(dy(n, 2))))
for e in range(1, 40): rows.append(rec("gamma", 1, 2 ** e, gamma(dy(1, 2 ** e))))
# small arguments with a full-length mantissa (x = 79454541 / 2^26 * 2^-s): exercise the rounding of x - 1
for sh in range(1, 60, 2): rows.append(rec("gamma", 79454541, 2 ** 26, gamma(dy(79454541, 2 ** 26) / mpf(2) ** sh), s=sh))
for sh in range(2, 40, 3): rows.append(rec("gamma", -79454541, 2 ** 26, gamma(-dy(79454541, 2 ** 26) / mpf(2) ** sh), s=sh))
json.dump  # noqa
with open(os.path.join(OUT, "gamma.ndjson"), "w") as f:
    for r in rows: f.write(json.dumps(r) + "\n")
# digamma on (1e-3, 1e6): dyadic points, geometric ladder + fractions
rows = []
for e in range(-9, 20):
    for m in (8, 9, 11, 13, 15):
        n, d = (m * 2 ** e, 8) if e >= 0 else (m, 8 * 2 ** (-e))
        x = dy(n, d)
        if mpf("0.001") < x < mpf("1e6"): rows.append(rec("digamma", n, d, psi(0, x)))
for n in list(range(1, 60)) + [100, 1000, 10000]: rows.append(rec("digamma", n, 1, psi(0, mpf(n))))
with open(os.path.join(OUT, "digamma.ndjson"), "w") as f:
    for r in rows: f.write(json.dumps(r) + "\n")
# erf on [-6, 6] every 1/32 (negative side through oddness is also listed), plus +-40 samples
rows = []
for k in range(-6 * 32, 6 * 32 + 1): rows.append(rec("erf", k, 32, erf(dy(k, 32))))
for k in range(1, 100): rows.append(rec("erf", k, 1024, erf(dy(k, 1024))))     # small arguments
for x in (7, 10, 27, 40, -9, -40): rows.append(rec("erf", x, 1, erf(mpf(x))))
with open(os.path.join(OUT, "erf.ndjson"), "w") as f:
    for r in rows: f.write(json.dumps(r) + "\n")
print("written", os.listdir(OUT))
