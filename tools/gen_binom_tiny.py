#!/usr/bin/env python3-vt
"""Binomial laws with a huge number of trials and a tiny (or nearly one) success probability (C03): CDF at a few integer
thresholds, mpmath at 50 digits.  p = pn / 2^pe exactly (or 1 - that)."""
import json, os
from mpmath import mp, mpf, betainc, nstr
mp.dps = 50
OUT = os.path.join(os.path.dirname(os.path.dirname(os.path.abspath(__file__))), "spec", "ref", "binom_tiny.ndjson")
rows = []
for (n, pn, pe, flip) in [(2 ** 24, 1, 23, False), (2 ** 24, 1, 23, True), (20000000, 1, 24, False), (2 ** 22, 3, 22, False), (1000000, 1, 30, False)]:
    p = mpf(pn) / mpf(2) ** pe
    if flip: p = 1 - p
    mean = n * p if not flip else n * (1 - p)
    ks = sorted(set([0, 1, 2, 3, 4, 5, 6, 8, 10, int(mean), int(mean) + 1]))
    pts = []
    for k0 in ks:
        k = k0 if not flip else n - 1 - k0            # thresholds near n for p close to 1
        if k < 0: continue
        # P(X <= k) = I_{1-p}(n - k, k + 1)
        c = betainc(n - k, k + 1, 0, 1 - p, regularized=True) if k < n else mpf(1)
        pts.append({"k": k, "cdf": nstr(c, 25, min_fixed=0, max_fixed=0)})
    rows.append({"n": n, "pn": pn, "pe": pe, "flip": flip, "pts": sorted(pts, key=lambda t: t["k"])})
with open(OUT, "w") as f:
    for r in rows: f.write(json.dumps(r) + "\n")
print("written", OUT)
